"""Program loading, symbol tables, class table, type and callee resolution.

Everything is derived from the parsed source of the two shipped packages.  No module of the
analysed repository is imported or executed.
"""
from __future__ import annotations

import ast
import hashlib
import os
from dataclasses import dataclass, field
from typing import Dict, List, Optional, Tuple

PACKAGES = ('ml_pipeline_engine', 'ml_pipeline_viewer')


class AnalysisError(Exception):
    """An anchor vanished or the code uses an idiom the analysis does not know (UNDECIDED)."""


# ----------------------------------------------------------------------------------------------
# Data model
# ----------------------------------------------------------------------------------------------

@dataclass
class Module:
    name: str
    path: str
    relpath: str
    tree: ast.Module
    source: str
    imports: Dict[str, Tuple] = field(default_factory=dict)   # local -> ('module', mod) | ('symbol', mod, name)
    star_imports: List[str] = field(default_factory=list)
    defs: Dict[str, ast.AST] = field(default_factory=dict)    # top-level name -> def node / value expr
    is_package: bool = False


@dataclass(eq=False)
class ClassInfo:
    name: str
    module: Module
    node: ast.ClassDef
    base_exprs: List[ast.expr]
    methods: Dict[str, 'FuncUnit'] = field(default_factory=dict)      # real (mangled) names
    fields: Dict[str, Tuple[Optional[ast.expr], Optional[ast.expr]]] = field(default_factory=dict)
    decorators: List[str] = field(default_factory=list)
    _mro: Optional[list] = None

    @property
    def qualname(self) -> str:
        return f'{self.module.name}::{self.name}'

    def __repr__(self) -> str:
        return f'<class {self.qualname}>'


@dataclass(eq=False)
class FuncUnit:
    fid: str
    name: str
    node: ast.AST                      # FunctionDef / AsyncFunctionDef / Lambda
    module: Module
    cls: Optional[ClassInfo]           # lexically enclosing class (for self / mangling)
    parent: Optional['FuncUnit']
    is_async: bool
    decorators: List[str] = field(default_factory=list)
    nested: Dict[str, 'FuncUnit'] = field(default_factory=dict)

    @property
    def qualname(self) -> str:
        return self.fid.split('::', 1)[1]

    @property
    def lineno(self) -> int:
        return getattr(self.node, 'lineno', 0)

    @property
    def is_property(self) -> bool:
        return 'property' in self.decorators

    @property
    def is_static(self) -> bool:
        return 'staticmethod' in self.decorators

    @property
    def is_classmethod(self) -> bool:
        return 'classmethod' in self.decorators

    def params(self) -> List[str]:
        a = self.node.args
        names = [x.arg for x in getattr(a, 'posonlyargs', [])] + [x.arg for x in a.args]
        return names

    def __repr__(self) -> str:
        return f'<func {self.fid}>'


def dotted(expr: ast.AST) -> Optional[str]:
    """a.b.c -> 'a.b.c' for pure Name/Attribute chains."""
    parts = []
    while isinstance(expr, ast.Attribute):
        parts.append(expr.attr)
        expr = expr.value
    if isinstance(expr, ast.Name):
        parts.append(expr.id)
        return '.'.join(reversed(parts))
    return None


def decorator_name(dec: ast.expr) -> str:
    if isinstance(dec, ast.Call):
        dec = dec.func
    d = dotted(dec)
    return (d or ast.unparse(dec)).split('.')[-1]


def unparse(node: ast.AST) -> str:
    try:
        return ast.unparse(node)
    except Exception:  # pragma: no cover
        return '<?>'


def norm_stmt(node: ast.AST, limit: int = 160) -> str:
    """Normalised text of a statement / expression used for keys (never line numbers)."""
    text = ' '.join(unparse(node).split())
    return text if len(text) <= limit else text[:limit] + '…'


# ----------------------------------------------------------------------------------------------
# Types
# ----------------------------------------------------------------------------------------------
# A type term is a tuple:
#   ('class', ClassInfo) | ('ext', 'asyncio.Condition') | ('dict', K, V) | ('seq', T) | ('type', T)
#   | ('union', (T, ...)) | ('none',) | ('unknown',) | ('func', FuncUnit) | ('module', name)
#   | ('lambda', FuncUnit) | ('partial', target_type, args) | ('bound', recv_type, FuncUnit)

UNKNOWN = ('unknown',)

_SEQ_NAMES = {'List', 'Set', 'Iterable', 'Sequence', 'FrozenSet', 'Iterator', 'Collection', 'Deque',
              'list', 'set', 'frozenset', 'Generator', 'MutableSequence', 'AbstractSet', 'MutableSet'}
_DICT_NAMES = {'Dict', 'Mapping', 'MutableMapping', 'DefaultDict', 'dict', 'OrderedDict'}


def _normalise_loops(tree: ast.AST) -> None:
    """An index-driven walk over a sequence is the `for` loop it spells out:

        i = 0                                   for x in seq:
        while i < len(seq):            ==>          BODY
            x = seq[i]; i += 1
            BODY

    rewritten in place when the index is used for nothing else in the function (so every analysis sees one loop form)."""
    for fn in ast.walk(tree):
        if not isinstance(fn, (ast.FunctionDef, ast.AsyncFunctionDef)):
            continue
        for holder in ast.walk(fn):
            for field_ in ('body', 'orelse', 'finalbody'):
                block = getattr(holder, field_, None)
                if not isinstance(block, list):
                    continue
                for k, st in enumerate(block):
                    if not isinstance(st, ast.While) or len(st.body) < 2:
                        continue
                    t_ = st.test
                    if not (isinstance(t_, ast.Compare) and isinstance(t_.left, ast.Name) and len(t_.ops) == 1 and isinstance(t_.ops[0], ast.Lt)
                            and isinstance(t_.comparators[0], ast.Call) and isinstance(t_.comparators[0].func, ast.Name)
                            and t_.comparators[0].func.id == 'len' and len(t_.comparators[0].args) == 1
                            and isinstance(t_.comparators[0].args[0], ast.Name)):
                        continue
                    idx, seq = t_.left.id, t_.comparators[0].args[0].id
                    head = st.body[:2]
                    take = next((h for h in head if isinstance(h, ast.Assign) and len(h.targets) == 1 and isinstance(h.targets[0], ast.Name)
                                 and isinstance(h.value, ast.Subscript) and isinstance(h.value.value, ast.Name) and h.value.value.id == seq
                                 and isinstance(h.value.slice, ast.Name) and h.value.slice.id == idx), None)
                    step = next((h for h in head if isinstance(h, ast.AugAssign) and isinstance(h.target, ast.Name) and h.target.id == idx
                                 and isinstance(h.op, ast.Add) and isinstance(h.value, ast.Constant) and h.value.value == 1), None)
                    if take is None or step is None:
                        continue
                    init = [b for b in block[:k] if isinstance(b, (ast.Assign, ast.AnnAssign))
                            and any(isinstance(x, ast.Name) and x.id == idx for x in (b.targets if isinstance(b, ast.Assign) else [b.target]))]
                    if not init or not (isinstance(init[-1].value, ast.Constant) and init[-1].value.value == 0):
                        continue
                    uses = [n for n in ast.walk(fn) if isinstance(n, ast.Name) and n.id == idx]
                    seq_stores = [n for n in ast.walk(fn) if isinstance(n, ast.Name) and n.id == seq and isinstance(n.ctx, ast.Store)]
                    if len(uses) != 4 or (take.targets[0].id in (idx, seq)) or len(seq_stores) > 1:
                        continue
                    loop = ast.For(target=ast.Name(id=take.targets[0].id, ctx=ast.Store()), iter=ast.Name(id=seq, ctx=ast.Load()),
                                   body=st.body[2:] or [ast.Pass()], orelse=st.orelse, type_comment=None)
                    ast.copy_location(loop, st)
                    ast.copy_location(loop.target, take)
                    ast.copy_location(loop.iter, take)
                    ast.fix_missing_locations(loop)
                    block[k] = loop


class Program:
    def __init__(self, root: str) -> None:
        self.root = os.path.abspath(root)
        self.modules: Dict[str, Module] = {}
        self.classes: Dict[str, ClassInfo] = {}          # qualname -> ClassInfo
        self.classes_by_name: Dict[str, List[ClassInfo]] = {}
        self.functions: Dict[str, FuncUnit] = {}         # fid -> unit
        self.unit_of_node: Dict[int, FuncUnit] = {}      # id(ast node) -> unit
        self._load()

    # ------------------------------------------------------------------ loading
    def _load(self) -> None:
        for pkg in PACKAGES:
            pkg_dir = os.path.join(self.root, pkg)
            if not os.path.isdir(pkg_dir):
                raise AnalysisError(f'package {pkg} not found under {self.root}')
            for dirpath, dirnames, filenames in os.walk(pkg_dir):
                dirnames[:] = sorted(d for d in dirnames if d != '__pycache__' and d != 'node_modules')
                for fn in sorted(filenames):
                    if not fn.endswith('.py'):
                        continue
                    path = os.path.join(dirpath, fn)
                    rel = os.path.relpath(path, self.root)
                    modname = rel[:-3].replace(os.sep, '.')
                    is_pkg = False
                    if modname.endswith('.__init__'):
                        modname = modname[:-9]
                        is_pkg = True
                    with open(path, encoding='utf-8') as fh:
                        src = fh.read()
                    try:
                        tree = ast.parse(src, filename=path)
                    except SyntaxError as ex:
                        raise AnalysisError(f'cannot parse {rel}: {ex}')
                    _normalise_loops(tree)
                    self.modules[modname] = Module(modname, path, rel, tree, src, is_package=is_pkg)
        for mod in self.modules.values():
            self._index_module(mod)
        for mod in self.modules.values():
            self._index_defs(mod)

    def digest(self) -> str:
        h = hashlib.sha256()
        for name in sorted(self.modules):
            h.update(name.encode())
            h.update(self.modules[name].source.encode())
        return h.hexdigest()[:16]

    def _index_module(self, mod: Module) -> None:
        for node in ast.walk(mod.tree):
            if isinstance(node, ast.Import):
                for alias in node.names:
                    local = alias.asname or alias.name.split('.')[0]
                    target = alias.name if alias.asname else alias.name.split('.')[0]
                    mod.imports.setdefault(local, ('module', target))
            elif isinstance(node, ast.ImportFrom):
                base = node.module or ''
                if node.level:
                    pkg_parts = mod.name.split('.')
                    if not mod.is_package:
                        pkg_parts = pkg_parts[:-1]
                    if node.level > 1:
                        pkg_parts = pkg_parts[:-(node.level - 1)]
                    base = '.'.join(pkg_parts + ([base] if base else []))
                for alias in node.names:
                    if alias.name == '*':
                        mod.star_imports.append(base)
                    else:
                        mod.imports.setdefault(alias.asname or alias.name, ('symbol', base, alias.name))

    def _index_defs(self, mod: Module) -> None:
        def visit_body(body, cls: Optional[ClassInfo], parent: Optional[FuncUnit], prefix: str) -> None:
            for stmt in body:
                if isinstance(stmt, (ast.FunctionDef, ast.AsyncFunctionDef)):
                    self._add_function(mod, stmt, cls, parent, prefix)
                elif isinstance(stmt, ast.ClassDef):
                    ci = ClassInfo(stmt.name, mod, stmt, list(stmt.bases),
                                   decorators=[decorator_name(d) for d in stmt.decorator_list])
                    if cls is None and parent is None:
                        mod.defs[stmt.name] = stmt
                    self.classes[ci.qualname if not prefix else f'{mod.name}::{prefix}{stmt.name}'] = ci
                    self.classes_by_name.setdefault(stmt.name, []).append(ci)
                    for sub in stmt.body:
                        if isinstance(sub, ast.AnnAssign) and isinstance(sub.target, ast.Name):
                            ci.fields[sub.target.id] = (sub.annotation, sub.value)
                        elif isinstance(sub, ast.Assign):
                            for tgt in sub.targets:
                                if isinstance(tgt, ast.Name):
                                    ci.fields[tgt.id] = (None, sub.value)
                    visit_body(stmt.body, ci, parent, f'{prefix}{stmt.name}.')
                elif isinstance(stmt, (ast.Assign, ast.AnnAssign)) and cls is None and parent is None:
                    targets = stmt.targets if isinstance(stmt, ast.Assign) else [stmt.target]
                    for tgt in targets:
                        if isinstance(tgt, ast.Name) and stmt.value is not None:
                            mod.defs[tgt.id] = stmt.value
                elif isinstance(stmt, (ast.If, ast.Try)) and cls is None and parent is None:
                    for sub_body in [getattr(stmt, 'body', []), getattr(stmt, 'orelse', [])]:
                        visit_body(sub_body, cls, parent, prefix)

        visit_body(mod.tree.body, None, None, '')

    def _add_function(self, mod: Module, node, cls: Optional[ClassInfo], parent: Optional[FuncUnit],
                      prefix: str) -> FuncUnit:
        name = node.name
        fid = f'{mod.name}::{prefix}{name}'
        unit = FuncUnit(fid, name, node, mod, cls, parent, isinstance(node, ast.AsyncFunctionDef),
                        [decorator_name(d) for d in node.decorator_list])
        # property setters etc. would collide; keep the first definition
        if fid in self.functions:
            fid = f'{fid}@{node.lineno}'
            unit.fid = fid
        self.functions[fid] = unit
        self.unit_of_node[id(node)] = unit
        if parent is not None:
            parent.nested[name] = unit
        elif cls is not None:
            real = name
            if name.startswith('__') and not name.endswith('__'):
                real = f'_{cls.name.lstrip("_")}{name}'
            cls.methods.setdefault(real, unit)
        else:
            mod.defs[name] = node
        # nested functions, lambdas and classes inside the body
        self._index_nested(mod, unit, node, cls, f'{prefix}{name}.')
        return unit

    def _index_nested(self, mod: Module, unit: FuncUnit, node, cls, prefix: str) -> None:
        counter = [0]

        def walk(n: ast.AST) -> None:
            for child in ast.iter_child_nodes(n):
                if isinstance(child, (ast.FunctionDef, ast.AsyncFunctionDef)):
                    self._add_function(mod, child, cls, unit, prefix)
                elif isinstance(child, ast.Lambda):
                    counter[0] += 1
                    fid = f'{mod.name}::{prefix}<lambda#{counter[0]}>'
                    lu = FuncUnit(fid, '<lambda>', child, mod, cls, unit, False)
                    self.functions[fid] = lu
                    self.unit_of_node[id(child)] = lu
                    self._index_nested(mod, lu, child, cls, f'{prefix}<lambda#{counter[0]}>.')
                elif isinstance(child, ast.ClassDef):
                    # local classes are rare; index their methods as nested units
                    ci = ClassInfo(child.name, mod, child, list(child.bases))
                    self.classes[f'{mod.name}::{prefix}{child.name}'] = ci
                    self.classes_by_name.setdefault(child.name, []).append(ci)
                    for sub in child.body:
                        if isinstance(sub, (ast.FunctionDef, ast.AsyncFunctionDef)):
                            self._add_function(mod, sub, ci, None, f'{prefix}{child.name}.')
                else:
                    walk(child)

        # decorators and defaults are evaluated in the enclosing scope; only the body is nested
        if isinstance(node, ast.Lambda):
            walk(node.body) if not isinstance(node.body, ast.Lambda) else walk(ast.Expr(node.body))
        else:
            for stmt in node.body:
                if isinstance(stmt, (ast.FunctionDef, ast.AsyncFunctionDef)):
                    self._add_function(mod, stmt, cls, unit, prefix)
                elif isinstance(stmt, ast.ClassDef):
                    walk(ast.Module(body=[stmt], type_ignores=[]))
                else:
                    walk(stmt)
        # lambdas in decorators (cachedmethod(lambda self: ...)) belong to the enclosing scope but
        # are indexed here so that they are found
        if not isinstance(node, ast.Lambda):
            for dec in node.decorator_list:
                walk(ast.Expr(dec))

    # ------------------------------------------------------------------ symbol resolution
    def resolve_global(self, mod: Module, name: str, _seen=None) -> Tuple:
        """Resolve a module-level name to ('class', ci) | ('func', unit) | ('module', modname)
        | ('value', module, expr) | ('ext', dotted) | ('unknown', name)."""
        _seen = _seen or set()
        key = (mod.name, name)
        if key in _seen:
            return ('unknown', name)
        _seen.add(key)
        if name in mod.defs:
            node = mod.defs[name]
            if isinstance(node, ast.ClassDef):
                return ('class', self.classes[f'{mod.name}::{name}'])
            if isinstance(node, (ast.FunctionDef, ast.AsyncFunctionDef)):
                return ('func', self.unit_of_node[id(node)])
            return ('value', mod, node)
        if name in mod.imports:
            imp = mod.imports[name]
            if imp[0] == 'module':
                return ('module', imp[1])
            _, base, sym = imp
            if base in self.modules:
                res = self.resolve_global(self.modules[base], sym, _seen)
                if res[0] != 'unknown':
                    return res
                sub = f'{base}.{sym}'
                if sub in self.modules:
                    return ('module', sub)
                return ('unknown', name)
            sub = f'{base}.{sym}'
            if sub in self.modules:
                return ('module', sub)
            return ('ext', f'{base}.{sym}')
        for star in mod.star_imports:
            if star in self.modules:
                target = self.modules[star]
                exported = self._exported(target)
                if exported is not None and name not in exported:
                    continue
                res = self.resolve_global(target, name, _seen)
                if res[0] != 'unknown':
                    return res
        return ('unknown', name)

    def _exported(self, mod: Module) -> Optional[set]:
        allv = mod.defs.get('__all__')
        if isinstance(allv, (ast.List, ast.Tuple)):
            out = set()
            for elt in allv.elts:
                if isinstance(elt, ast.Constant) and isinstance(elt.value, str):
                    out.add(elt.value)
            return out
        return None

    def resolve_dotted_module(self, name: str, attr_chain: List[str]) -> Tuple:
        """module name + attribute chain -> symbol."""
        cur = name
        chain = list(attr_chain)
        while chain:
            if cur in self.modules:
                res = self.resolve_global(self.modules[cur], chain[0])
                if res[0] == 'module':
                    cur = res[1]
                    chain.pop(0)
                    continue
                if res[0] != 'unknown':
                    return res if len(chain) == 1 else ('attr-of', res, chain[1:])
                sub = f'{cur}.{chain[0]}'
                if sub in self.modules:
                    cur = sub
                    chain.pop(0)
                    continue
                return ('unknown', f'{cur}.{".".join(chain)}')
            return ('ext', f'{cur}.{".".join(chain)}')
        return ('module', cur)

    # ------------------------------------------------------------------ classes
    def mro(self, ci: ClassInfo) -> List:
        """C3 linearisation over in-repo classes; external bases appear as ('ext', dotted)."""
        if ci._mro is not None:
            return ci._mro
        ci._mro = [ci]  # recursion guard
        bases = []
        for b in ci.base_exprs:
            bases.append(self._resolve_base(ci.module, b))
        seqs = []
        for b in bases:
            if isinstance(b, ClassInfo):
                seqs.append(list(self.mro(b)))
            else:
                seqs.append([b])
        seqs.append(list(bases))
        result = [ci]
        seqs = [s for s in seqs if s]
        while seqs:
            for s in seqs:
                cand = s[0]
                if not any(cand in other[1:] for other in seqs):
                    break
            else:
                cand = seqs[0][0]
            result.append(cand)
            seqs = [[x for x in s if x is not cand and x != cand] for s in seqs]
            seqs = [s for s in seqs if s]
        ci._mro = result
        return result

    def _resolve_base(self, mod: Module, expr: ast.expr):
        if isinstance(expr, ast.Subscript):      # t.Protocol[T], NodeBase[T]
            expr = expr.value
        d = dotted(expr)
        if d is None:
            return ('ext', unparse(expr))
        parts = d.split('.')
        res = self.resolve_global(mod, parts[0])
        if res[0] == 'module' and len(parts) > 1:
            res = self.resolve_dotted_module(res[1], parts[1:])
        if res[0] == 'class':
            return res[1]
        if res[0] == 'ext':
            return ('ext', res[1])
        if res[0] == 'unknown' and len(parts) == 1:
            return ('ext', f'builtins.{parts[0]}')
        return ('ext', d)

    def is_subclass(self, ci: ClassInfo, other) -> bool:
        return any(c is other or c == other for c in self.mro(ci))

    def ext_bases(self, ci: ClassInfo) -> List[str]:
        return [c[1] for c in self.mro(ci) if isinstance(c, tuple)]

    def is_protocol(self, ci: ClassInfo) -> bool:
        for b in ci.base_exprs:
            bb = b.value if isinstance(b, ast.Subscript) else b
            d = dotted(bb) or ''
            if d.split('.')[-1] == 'Protocol':
                return True
        return False

    def implementers(self, proto: ClassInfo) -> List[ClassInfo]:
        out = []
        for ci in self.classes.values():
            if ci is proto or self.is_protocol(ci):
                continue
            if proto in self.mro(ci):
                out.append(ci)
        return out

    def lookup_method(self, ci: ClassInfo, name: str, from_cls: Optional[ClassInfo] = None) -> Optional[FuncUnit]:
        real = name
        if name.startswith('__') and not name.endswith('__') and from_cls is not None:
            real = f'_{from_cls.name.lstrip("_")}{name}'
        for c in self.mro(ci):
            if isinstance(c, ClassInfo) and real in c.methods:
                return c.methods[real]
        return None

    def lookup_field(self, ci: ClassInfo, name: str) -> Optional[Tuple[ClassInfo, Optional[ast.expr], Optional[ast.expr]]]:
        for c in self.mro(ci):
            if isinstance(c, ClassInfo) and name in c.fields:
                ann, default = c.fields[name]
                return c, ann, default
        return None

    def init_assigned_type(self, ci: ClassInfo, name: str):
        """Type of self.<name> from assignments in __init__ / __post_init__."""
        for c in self.mro(ci):
            if not isinstance(c, ClassInfo):
                continue
            for mname in ('__init__', '__post_init__'):
                m = c.methods.get(mname)
                if m is None:
                    continue
                env = FuncEnv(self, m)
                for node in ast.walk(m.node):
                    tgt = None
                    if isinstance(node, ast.AnnAssign):
                        tgt, ann, val = node.target, node.annotation, node.value
                    elif isinstance(node, ast.Assign) and len(node.targets) == 1:
                        tgt, ann, val = node.targets[0], None, node.value
                    if (isinstance(tgt, ast.Attribute) and isinstance(tgt.value, ast.Name)
                            and tgt.value.id == 'self' and tgt.attr == name):
                        if ann is not None:
                            return self.ann_to_type(ann, c.module)
                        return env.type_of(val)
        return None

    # ------------------------------------------------------------------ annotations -> types
    def ann_to_type(self, ann: Optional[ast.expr], mod: Module, _depth: int = 0):
        if ann is None or _depth > 8:
            return UNKNOWN
        if isinstance(ann, ast.Constant):
            if ann.value is None:
                return ('none',)
            if isinstance(ann.value, str):
                try:
                    return self.ann_to_type(ast.parse(ann.value, mode='eval').body, mod, _depth + 1)
                except SyntaxError:
                    return UNKNOWN
            return UNKNOWN
        if isinstance(ann, ast.Subscript):
            head = dotted(ann.value) or ''
            last = head.split('.')[-1]
            args = ann.slice.elts if isinstance(ann.slice, ast.Tuple) else [ann.slice]
            if last in _DICT_NAMES and len(args) == 2:
                return ('dict', self.ann_to_type(args[0], mod, _depth + 1), self.ann_to_type(args[1], mod, _depth + 1))
            if last in _SEQ_NAMES:
                return ('seq', self.ann_to_type(args[0], mod, _depth + 1))
            if last in ('Tuple', 'tuple'):
                if len(args) > 1 and not any(isinstance(a, ast.Constant) and a.value is Ellipsis for a in args):
                    return ('tuple', tuple(self.ann_to_type(a, mod, _depth + 1) for a in args))
                return ('seq', self.ann_to_type(args[0], mod, _depth + 1))
            if last == 'Optional':
                return self.ann_to_type(args[0], mod, _depth + 1)
            if last == 'Union':
                parts = tuple(self.ann_to_type(a, mod, _depth + 1) for a in args)
                parts = tuple(p for p in parts if p not in (UNKNOWN, ('none',)))
                if len(parts) == 1:
                    return parts[0]
                return ('union', parts) if parts else UNKNOWN
            if last in ('Type', 'type'):
                return ('type', self.ann_to_type(args[0], mod, _depth + 1))
            if last in ('Callable', 'Awaitable', 'Coroutine', 'TypeVar', 'Any'):
                return UNKNOWN
            if last in ('ClassVar', 'Final', 'Annotated'):
                return self.ann_to_type(args[0], mod, _depth + 1)
            # Generic[T] applied to a class: NodeBase[t.Any]
            return self.ann_to_type(ann.value, mod, _depth + 1)
        d = dotted(ann)
        if d is None:
            return UNKNOWN
        parts = d.split('.')
        res = self.resolve_global(mod, parts[0])
        if res[0] == 'module' and len(parts) > 1:
            res = self.resolve_dotted_module(res[1], parts[1:])
        elif res[0] == 'module':
            return ('module', res[1])
        if res[0] == 'class':
            return ('class', res[1])
        if res[0] == 'value':          # type alias
            return self.ann_to_type(res[2], res[1], _depth + 1)
        if res[0] == 'ext':
            if res[1] in ('typing.Any', 'typing.Callable', 'typing.TypeVar'):
                return UNKNOWN
            return ('ext', res[1])
        if res[0] == 'unknown' and len(parts) == 1:
            if parts[0] in ('dict',):
                return ('dict', UNKNOWN, UNKNOWN)
            if parts[0] in ('list', 'set', 'tuple', 'frozenset'):
                return ('seq', UNKNOWN)
            return ('ext', f'builtins.{parts[0]}')
        return UNKNOWN

    # ------------------------------------------------------------------ helpers
    def func(self, fid: str) -> FuncUnit:
        if fid not in self.functions:
            raise AnalysisError(f'function anchor vanished: {fid}')
        return self.functions[fid]

    def cls(self, qualname: str) -> ClassInfo:
        if qualname not in self.classes:
            raise AnalysisError(f'class anchor vanished: {qualname}')
        return self.classes[qualname]

    def loc(self, unit_or_mod, node: ast.AST) -> str:
        mod = unit_or_mod.module if isinstance(unit_or_mod, FuncUnit) else unit_or_mod
        return f'{mod.relpath}:{getattr(node, "lineno", 0)}'


# ----------------------------------------------------------------------------------------------
# Per-function environment: local types, callee resolution
# ----------------------------------------------------------------------------------------------

class FuncEnv:
    _cache: Dict[int, 'FuncEnv'] = {}

    def __init__(self, program: Program, unit: FuncUnit) -> None:
        self.p = program
        self.unit = unit
        self.mod = unit.module
        self._locals: Optional[Dict[str, list]] = None
        self._local_types: Dict[str, Tuple] = {}
        self._in_progress: set = set()

    @classmethod
    def of(cls, program: Program, unit: FuncUnit) -> 'FuncEnv':
        key = id(unit)
        env = cls._cache.get(key)
        if env is None or env.p is not program:
            env = cls(program, unit)
            cls._cache[key] = env
        return env

    # -- local definitions ------------------------------------------------------------------
    def own_nodes(self):
        """AST nodes of this unit excluding nested function/lambda/class bodies."""
        node = self.unit.node
        roots = [node.body] if isinstance(node, ast.Lambda) else list(node.body)
        stack = list(roots)
        while stack:
            n = stack.pop()
            yield n
            if isinstance(n, (ast.FunctionDef, ast.AsyncFunctionDef, ast.Lambda, ast.ClassDef)):
                continue             # the def itself, not its body
            for child in ast.iter_child_nodes(n):
                stack.append(child)

    def local_defs(self) -> Dict[str, list]:
        """name -> list of ('assign', value expr) | ('iter', iter expr) | ('param', arg) | ('with', expr)
        | ('unpack', value, index) | ('aug', ...) | ('except', type expr) | ('def', unit)"""
        if self._locals is not None:
            return self._locals
        out: Dict[str, list] = {}

        def add(name, item):
            out.setdefault(name, []).append(item)

        a = self.unit.node.args
        for arg in list(getattr(a, 'posonlyargs', [])) + list(a.args) + list(a.kwonlyargs):
            add(arg.arg, ('param', arg))
        if a.vararg:
            add(a.vararg.arg, ('vararg', a.vararg))
        if a.kwarg:
            add(a.kwarg.arg, ('kwarg', a.kwarg))

        def bind_target(tgt, kind, value, idx=None):
            if isinstance(tgt, ast.Name):
                if idx is None:
                    add(tgt.id, (kind, value))
                else:
                    add(tgt.id, ('unpack', kind, value, idx))
            elif isinstance(tgt, (ast.Tuple, ast.List)):
                for i, elt in enumerate(tgt.elts):
                    bind_target(elt, kind, value, (idx or ()) + (i,))
            elif isinstance(tgt, ast.Starred):
                bind_target(tgt.value, kind, value, idx)

        for n in self.own_nodes():
            if isinstance(n, ast.Assign):
                for tgt in n.targets:
                    bind_target(tgt, 'assign', n.value)
            elif isinstance(n, ast.AnnAssign):
                if isinstance(n.target, ast.Name):
                    add(n.target.id, ('annassign', n.annotation, n.value))
            elif isinstance(n, ast.AugAssign):
                if isinstance(n.target, ast.Name):
                    add(n.target.id, ('aug', n))
            elif isinstance(n, (ast.For, ast.AsyncFor)):
                bind_target(n.target, 'iter', n.iter)
            elif isinstance(n, ast.comprehension):
                bind_target(n.target, 'iter', n.iter)
            elif isinstance(n, (ast.With, ast.AsyncWith)):
                for item in n.items:
                    if item.optional_vars is not None:
                        bind_target(item.optional_vars, 'with', item.context_expr)
            elif isinstance(n, ast.ExceptHandler):
                if n.name:
                    add(n.name, ('except', n.type))
            elif isinstance(n, ast.NamedExpr):
                bind_target(n.target, 'assign', n.value)
            elif isinstance(n, (ast.FunctionDef, ast.AsyncFunctionDef)) and n is not self.unit.node:
                u = self.p.unit_of_node.get(id(n))
                if u is not None:
                    add(n.name, ('def', u))
        self._locals = out
        return out

    # -- types ------------------------------------------------------------------------------
    def self_type(self):
        if self.unit.cls is not None and not self.unit.is_static:
            return ('class', self.unit.cls)
        return UNKNOWN

    def name_type(self, name: str):
        if name in self._local_types:
            return self._local_types[name]
        if name in self._in_progress:
            return UNKNOWN
        self._in_progress.add(name)
        try:
            t = self._name_type(name)
        finally:
            self._in_progress.discard(name)
        self._local_types[name] = t
        return t

    def _name_type(self, name: str):
        defs = self.local_defs().get(name)
        if defs:
            results = []
            for d in defs:
                kind = d[0]
                if kind == 'param':
                    arg = d[1]
                    params = self.unit.params()
                    if params and arg.arg == params[0] and self.unit.cls is not None and not self.unit.is_static \
                            and self.unit.parent is None:
                        if self.unit.is_classmethod:
                            results.append(('type', ('class', self.unit.cls)))
                        else:
                            results.append(('class', self.unit.cls))
                    elif arg.annotation is not None:
                        results.append(self.p.ann_to_type(arg.annotation, self.mod))
                elif kind == 'vararg':
                    results.append(('seq', self.p.ann_to_type(d[1].annotation, self.mod)))
                elif kind == 'kwarg':
                    results.append(('dict', ('ext', 'builtins.str'), self.p.ann_to_type(d[1].annotation, self.mod)))
                elif kind == 'assign':
                    results.append(self.type_of(d[1]))
                elif kind == 'annassign':
                    results.append(self.p.ann_to_type(d[1], self.mod))
                elif kind == 'iter':
                    results.append(self.elem_type(self.type_of(d[1]), d[1]))
                elif kind == 'unpack':
                    _, k, value, idx = d
                    base = self.type_of(value)
                    if k == 'iter':
                        base = self.elem_type(base, value)
                    # enumerate(x) -> (int, elem); dict.items() -> (K, V)
                    results.append(self._unpack_type(base, value, idx, k))
                elif kind == 'def':
                    results.append(('func', d[1]))
                elif kind == 'with':
                    results.append(UNKNOWN)
                elif kind == 'except':
                    results.append(UNKNOWN)
            results = [r for r in results if r != UNKNOWN]
            if results:
                return results[0]
            return UNKNOWN
        # enclosing function scopes (closures)
        parent = self.unit.parent
        while parent is not None:
            penv = FuncEnv.of(self.p, parent)
            if name in penv.local_defs():
                return penv.name_type(name)
            parent = parent.parent
        res = self.p.resolve_global(self.mod, name)
        return self._global_type(res)

    def _unpack_type(self, base, value_expr, idx, kind):
        # enumerate(...)
        if isinstance(value_expr, ast.Call):
            fn = dotted(value_expr.func)
            if fn == 'enumerate' and value_expr.args:
                inner = self.elem_type(self.type_of(value_expr.args[0]), value_expr.args[0])
                if idx == (0,):
                    return ('ext', 'builtins.int')
                if idx == (1,):
                    return inner
                if len(idx) > 1 and idx[0] == 1:
                    return self._unpack_type(inner, ast.Name(id='_'), idx[1:], 'assign')
            if isinstance(value_expr.func, ast.Attribute) and value_expr.func.attr == 'items':
                recv = self.type_of(value_expr.func.value)
                if recv[0] == 'dict':
                    return recv[1] if idx == (0,) else recv[2] if idx == (1,) else UNKNOWN
        if base[0] == 'seq':
            return base[1]
        if base[0] == 'tuple' and idx and idx[0] < len(base[1]):
            if len(idx) == 1:
                return base[1][idx[0]]
            return self._unpack_type(base[1][idx[0]], ast.Name(id='_'), idx[1:], 'assign')
        return UNKNOWN

    def _global_type(self, res):
        if res[0] == 'class':
            return ('type', ('class', res[1]))
        if res[0] == 'func':
            return ('func', res[1])
        if res[0] == 'module':
            return ('module', res[1])
        if res[0] == 'ext':
            return ('extsym', res[1])
        if res[0] == 'value':
            mod, expr = res[1], res[2]
            # module-level singleton / alias: evaluate in a module-level pseudo environment
            return ModuleEnv(self.p, mod).type_of(expr)
        return UNKNOWN

    def elem_type(self, t, expr=None):
        if t[0] == 'seq':
            return t[1]
        if t[0] == 'dict':
            return t[1]
        if t[0] == 'tuple' and t[1] and all(x == t[1][0] for x in t[1]):
            return t[1][0]
        return UNKNOWN

    def type_of(self, expr: ast.AST):
        p = self.p
        if isinstance(expr, ast.Name):
            return self.name_type(expr.id)
        if isinstance(expr, ast.Await):
            return self.type_of(expr.value)
        if isinstance(expr, ast.Attribute):
            base = self.type_of(expr.value)
            return self.attr_type(base, expr.attr)
        if isinstance(expr, ast.Subscript):
            base = self.type_of(expr.value)
            if base[0] == 'dict':
                return base[2]
            if base[0] == 'seq':
                return base[1]
            if base[0] == 'extattr':
                return ('ext', f'{base[1]}.{base[2]}[]')
            if base[0] == 'ext':
                return ('ext', f'{base[1]}[]')
            return UNKNOWN
        if isinstance(expr, ast.Call):
            targets = self.resolve_call(expr)
            for tgt in targets:
                if tgt[0] == 'class':
                    return ('class', tgt[1])
                if tgt[0] == 'func':
                    unit = tgt[1]
                    ret = getattr(unit.node, 'returns', None)
                    if ret is not None:
                        rt = p.ann_to_type(ret, unit.module)
                        if rt != UNKNOWN:
                            return rt
                if tgt[0] == 'ext':
                    name = tgt[1]
                    if name in ('builtins.list', 'builtins.set', 'builtins.tuple', 'builtins.sorted',
                                'builtins.frozenset', 'builtins.reversed'):
                        if expr.args:
                            return ('seq', self.elem_type(self.type_of(expr.args[0])))
                        return ('seq', UNKNOWN)
                    if name == 'builtins.dict':
                        return ('dict', UNKNOWN, UNKNOWN)
                    if name == 'functools.partial' and expr.args:
                        return ('partial', self.type_of(expr.args[0]), expr)
                    if name in ('asyncio.create_task', 'asyncio.ensure_future'):
                        return ('ext', 'asyncio.Task')
                    if name == 'asyncio.get_running_loop' or name == 'asyncio.get_event_loop':
                        return ('ext', 'asyncio.AbstractEventLoop')
                    if name == 'asyncio.AbstractEventLoop.create_task':
                        return ('ext', 'asyncio.Task')
                    if name.startswith('asyncio.') and name.split('.')[-1] in ('Condition', 'Event', 'Lock', 'Semaphore', 'Queue'):
                        return ('ext', name)
                    if name.startswith('pathlib.Path') or name == 'pathlib.Path':
                        return ('ext', 'pathlib.Path')
                    if name == 'logging.getLogger':
                        return ('ext', 'logging.Logger')
            for tgt in targets:
                if tgt[0] == 'ext':
                    return ('ext', f'{tgt[1]}()')
            return UNKNOWN
        if isinstance(expr, ast.Lambda):
            u = p.unit_of_node.get(id(expr))
            return ('lambda', u) if u else UNKNOWN
        if isinstance(expr, (ast.List, ast.Set, ast.Tuple)):
            et = UNKNOWN
            for e in expr.elts:
                et = self.type_of(e)
                if et != UNKNOWN:
                    break
            return ('seq', et)
        if isinstance(expr, (ast.ListComp, ast.SetComp, ast.GeneratorExp)):
            # a filter / projection: the element type is the type of the element expression (the comprehension variables are
            # bound like loop variables)
            et = UNKNOWN
            if isinstance(expr.elt, ast.Name) and len(expr.generators) == 1 and isinstance(expr.generators[0].target, ast.Name) \
                    and expr.generators[0].target.id == expr.elt.id:
                et = self.elem_type(self.type_of(expr.generators[0].iter), expr.generators[0].iter)
            if et == UNKNOWN:
                try:
                    et = self.type_of(expr.elt)
                except RecursionError:
                    et = UNKNOWN
            return ('seq', et)
        if isinstance(expr, (ast.Dict, ast.DictComp)):
            return ('dict', UNKNOWN, UNKNOWN)
        if isinstance(expr, ast.Constant):
            if expr.value is None:
                return ('none',)
            return ('ext', f'builtins.{type(expr.value).__name__}')
        if isinstance(expr, ast.JoinedStr):
            return ('ext', 'builtins.str')
        if isinstance(expr, ast.IfExp):
            t1 = self.type_of(expr.body)
            return t1 if t1 != UNKNOWN else self.type_of(expr.orelse)
        if isinstance(expr, ast.BoolOp):
            for v in expr.values:
                tv = self.type_of(v)
                if tv != UNKNOWN and tv != ('none',):
                    return tv
            return UNKNOWN
        if isinstance(expr, ast.BinOp) and isinstance(expr.op, ast.Div):
            lt = self.type_of(expr.left)
            if lt == ('ext', 'pathlib.Path'):
                return lt
        if isinstance(expr, ast.NamedExpr):
            return self.type_of(expr.value)
        if isinstance(expr, ast.Starred):
            return self.type_of(expr.value)
        return UNKNOWN

    def attr_type(self, base, attr: str):
        p = self.p
        if base[0] == 'class':
            ci = base[1]
            m = p.lookup_method(ci, attr, self.unit.cls)
            if m is not None:
                if m.is_property:
                    return p.ann_to_type(m.node.returns, m.module)
                return ('bound', base, m)
            f = p.lookup_field(ci, attr)
            if f is not None:
                owner, ann, default = f
                if ann is not None:
                    t = p.ann_to_type(ann, owner.module)
                    if t != UNKNOWN:
                        # a field typed by a Protocol with a class-valued default: prefer the default
                        if t[0] == 'type' and default is not None:
                            dt = ModuleEnv(p, owner.module).type_of(default)
                            if dt[0] == 'type':
                                return dt
                        return t
                if default is not None:
                    return ModuleEnv(p, owner.module).type_of(default)
            it = p.init_assigned_type(ci, attr)
            if it is not None and it != UNKNOWN:
                return it
            # protocol: try implementers
            if p.is_protocol(ci):
                for impl in p.implementers(ci):
                    t = self.attr_type(('class', impl), attr)
                    if t != UNKNOWN:
                        return t
            # methods provided by subclasses of a mixin (EventSourceMixin._get_event_managers)
            if not p.is_protocol(ci):
                for sub in p.classes.values():
                    if sub is not ci and ci in p.mro(sub):
                        m = p.lookup_method(sub, attr, self.unit.cls)
                        if m is not None and not m.is_property:
                            return ('bound', ('class', sub), m)
            # external base classes (UserDict.pop, nx.DiGraph.add_node ...)
            for ext in p.ext_bases(ci):
                if ext.split('.')[-1] in ('Protocol', 'Generic', 'ABC', 'object', 'Enum'):
                    continue
                return ('extattr', ext, attr)
            return UNKNOWN
        if base[0] == 'type':      # class object: classmethod / staticmethod / class attribute
            inner = base[1]
            if inner[0] == 'class':
                ci = inner[1]
                m = p.lookup_method(ci, attr, self.unit.cls)
                if m is not None:
                    return ('bound', base, m)
                f = p.lookup_field(ci, attr)
                if f is not None:
                    owner, ann, default = f
                    if ann is not None:
                        t = p.ann_to_type(ann, owner.module)
                        if t != UNKNOWN:
                            return t
                    if default is not None:
                        return ModuleEnv(p, owner.module).type_of(default)
            return UNKNOWN
        if base[0] == 'module':
            res = p.resolve_dotted_module(base[1], [attr])
            return self._global_type(res)
        if base[0] == 'extsym':
            return ('extsym', f'{base[1]}.{attr}')
        if base[0] == 'ext':
            return ('extattr', base[1], attr)
        if base[0] == 'extattr':
            return ('extattr', f'{base[1]}.{base[2]}', attr)
        if base[0] == 'union':
            for part in base[1]:
                t = self.attr_type(part, attr)
                if t != UNKNOWN:
                    return t
        if base[0] == 'dict' and attr in ('keys', 'values', 'items', 'get', 'pop', 'setdefault', 'update', 'copy', 'clear'):
            return ('extattr', 'builtins.dict', attr)
        if base[0] == 'seq':
            return ('extattr', 'builtins.seq', attr)
        return UNKNOWN

    # -- callee resolution ------------------------------------------------------------------
    def resolve_call(self, call: ast.Call) -> List[Tuple]:
        """Returns a list of targets:
           ('func', unit, recv_expr|None) | ('class', ci) | ('ext', dotted) | ('unknown', text)"""
        return self.resolve_callable(call.func)

    def resolve_callable(self, fexpr: ast.AST) -> List[Tuple]:
        p = self.p
        # super().method(...)
        if (isinstance(fexpr, ast.Attribute) and isinstance(fexpr.value, ast.Call)
                and isinstance(fexpr.value.func, ast.Name) and fexpr.value.func.id == 'super'
                and self.unit.cls is not None):
            mro = p.mro(self.unit.cls)[1:]
            for c in mro:
                if isinstance(c, ClassInfo):
                    if fexpr.attr in c.methods:
                        return [('func', c.methods[fexpr.attr], fexpr.value)]
                else:
                    return [('ext', f'{c[1]}.{fexpr.attr}')]
            return [('ext', f'builtins.object.{fexpr.attr}')]
        t = self.type_of(fexpr)
        return self.targets_of_type(t, fexpr)

    def targets_of_type(self, t, fexpr) -> List[Tuple]:
        p = self.p
        if t[0] == 'func':
            return [('func', t[1], None)]
        if t[0] == 'lambda':
            return [('func', t[1], None)]
        if t[0] == 'bound':
            recv = fexpr.value if isinstance(fexpr, ast.Attribute) else None
            unit = t[2]
            recv_type = t[1]
            # protocol receiver: dispatch to the implementers' methods
            if recv_type[0] == 'class' and p.is_protocol(recv_type[1]):
                impls = []
                for impl in p.implementers(recv_type[1]):
                    m = p.lookup_method(impl, unit.name, self.unit.cls)
                    if m is not None and m is not unit and m not in [i[1] for i in impls]:
                        impls.append(('func', m, recv))
                if impls:
                    return impls + [('proto', recv_type[1], unit.name)]
                return [('proto', recv_type[1], unit.name)]
            return [('func', unit, recv)]
        if t[0] == 'type':
            inner = t[1]
            if inner[0] == 'class':
                return [('class', inner[1])]
            if inner[0] == 'ext':
                return [('ext', inner[1])]
            return [('unknown', unparse(fexpr))]
        if t[0] == 'extsym':
            return [('ext', t[1])]
        if t[0] == 'extattr':
            # a method called on a value of an external class: an in-repo subclass of that class may be the dynamic type - its
            # own methods (new ones and overrides) are possible targets
            subs = []
            base = t[1].split('.')[-1]
            for ci in p.classes.values():
                if any(b.split('.')[-1] == base for b in p.ext_bases(ci)):
                    m = p.lookup_method(ci, t[2], self.unit.cls)
                    if m is not None and m not in [x[1] for x in subs]:
                        subs.append(('func', m, fexpr.value if isinstance(fexpr, ast.Attribute) else None))
            if subs:
                return subs + [('ext', f'{t[1]}.{t[2]}')]
            return [('ext', f'{t[1]}.{t[2]}')]
        if t[0] == 'partial':
            return [('partial', t)]
        if isinstance(fexpr, ast.Name):
            res = p.resolve_global(self.mod, fexpr.id)
            if res[0] == 'unknown' and fexpr.id not in self.local_defs():
                return [('ext', f'builtins.{fexpr.id}')]
        return [('unknown', unparse(fexpr))]


class ModuleEnv(FuncEnv):
    """Environment for module-level expressions (singletons, aliases, class-level defaults)."""

    def __init__(self, program: Program, mod: Module) -> None:
        self.p = program
        self.mod = mod
        self._locals = {}
        self._local_types = {}
        self._in_progress = set()
        self.unit = _PseudoUnit(mod)


class _PseudoUnit:
    def __init__(self, mod: Module) -> None:
        self.module = mod
        self.cls = None
        self.parent = None
        self.is_static = True
        self.is_classmethod = False
        self.node = ast.Lambda(args=ast.arguments(posonlyargs=[], args=[], kwonlyargs=[], kw_defaults=[], defaults=[]),
                               body=ast.Constant(value=None))
        self.fid = f'{mod.name}::<module>'
        self.name = '<module>'

    def params(self):
        return []
