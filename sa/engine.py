"""Analysis context shared by all rules: program, graphs of the run path, role tables."""
from __future__ import annotations

import ast
from typing import Dict, List, Optional, Tuple

from . import sym
from .cfg import Builder, Ev, Graph, Inst
from .program import AnalysisError, ClassInfo, FuncEnv, FuncUnit, Program, dotted, norm_stmt, unparse
from .roles import Roles, RunFaults

CHART_RUN = 'ml_pipeline_engine.chart::PipelineChart.run'
DAG_RUN = 'ml_pipeline_engine.dag.dag::DAG.run'


def resolve_all(p: Program, expr: ast.AST, inst, _depth: int = 0) -> List[Tuple[ast.AST, object]]:
    """All values a name may hold (through parameters and *every* local definition)."""
    e, i = sym.resolve_value(p, expr, inst)
    if isinstance(e, ast.Name) and _depth < 8:
        owner, defs = sym._owner_inst(i, e.id)
        if owner is not None and defs and all(d[0] in ('assign', 'annassign') for d in defs) and len(defs) > 1:
            out = []
            for d in defs:
                val = d[1] if d[0] == 'assign' else d[2]
                if val is not None:
                    out.extend(resolve_all(p, val, owner, _depth + 1))
            return out
        if owner is not None and defs and len(defs) == 1 and defs[0][0] == 'unpack' and defs[0][1] == 'assign' and len(defs[0][3]) == 1:
            # `a, b = helper(...)` / `a, b = x, y`: the element of the returned / displayed tuple
            idx = defs[0][3][0]
            out = []
            for v, vi in resolve_all(p, defs[0][2], owner, _depth + 1):
                if isinstance(v, ast.Tuple) and idx < len(v.elts):
                    out.extend(resolve_all(p, v.elts[idx], vi, _depth + 1))
                elif isinstance(v, ast.Call):
                    from .cfg import Builder, Inst
                    for t in FuncEnv.of(p, vi.unit).resolve_call(v):
                        if t[0] == 'func' and not t[1].is_async and t[1] not in vi.stack():
                            callee = Inst(t[1], vi, v, Builder.bind(None, v, t[1], vi, t[2], None, None))
                            for n in FuncEnv.of(p, t[1]).own_nodes():
                                if isinstance(n, ast.Return) and isinstance(n.value, ast.Tuple) and idx < len(n.value.elts):
                                    out.extend(resolve_all(p, n.value.elts[idx], callee, _depth + 1))
            if out:
                return out
    return [(e, i)]


def follow_values(p: Program, expr: ast.AST, inst, depth: int = 0, awaited: bool = True) -> List[Tuple[ast.AST, object]]:
    """Values an expression may hold: through locals (every definition, accumulate loops normalised) and through
    the return statements of in-repo helpers (synchronous, or coroutine functions awaited in place)."""
    from .cfg import Builder, Inst
    out = []
    for e, i in resolve_all(p, expr, inst):
        followed = False
        call = e.value if isinstance(e, ast.Await) else e
        if isinstance(call, ast.Call) and depth < 4:
            for t in FuncEnv.of(p, i.unit).resolve_call(call):
                if t[0] != 'func' or t[1] in i.stack():
                    continue
                if t[1].is_async != isinstance(e, ast.Await) or (t[1].is_async and not awaited):
                    continue
                callee = Inst(t[1], i, call, Builder.bind(None, call, t[1], i, t[2], None, None))
                for n in FuncEnv.of(p, t[1]).own_nodes():
                    if isinstance(n, ast.Return) and n.value is not None:
                        out.extend(follow_values(p, n.value, callee, depth + 1, awaited))
                        followed = True
        if not followed:
            out.append((e, i))
    return out


class Ctx:
    def __init__(self, root: str, depth: int = 8) -> None:
        self.root = root
        self.p = Program(root)
        self.roles = Roles(self.p)
        self.depth = depth
        self.faulty_subscripts: set = set()
        self._graphs: Dict[Tuple[str, int], Graph] = {}
        self._task_roots: Optional[Dict[str, List[Tuple[Graph, Ev]]]] = None
        self.notes: List[str] = []

    # ------------------------------------------------------------------ graphs
    def graph(self, fid: str, depth: Optional[int] = None) -> Graph:
        depth = depth or self.depth
        key = (fid, depth)
        if key not in self._graphs:
            unit = self.p.func(fid)
            b = Builder(self.p, RunFaults(self.p, self.faulty_subscripts), max_depth=depth)
            self._graphs[key] = b.build(unit)
        return self._graphs[key]

    def arm_faulty_subscripts(self) -> int:
        """Two-phase fault model: look-ups keyed by node results without a membership guard (rule ER-5)
        become fault sources; the graphs are rebuilt with them."""
        if getattr(self, '_armed', False):
            return len(self.faulty_subscripts)
        self._armed = True
        from .rules.er import hashed_user_values, unguarded_partial_lookups
        bad = {id(ev.node) for g, ev, verdict in unguarded_partial_lookups(self) if verdict.startswith('unguarded')}
        bad |= {id(ev.node) for g, ev in hashed_user_values(self)}
        if bad:
            self.faulty_subscripts |= bad
            self._graphs.clear()
            self._task_roots = None
        return len(bad)

    def graph_of(self, unit: FuncUnit, depth: Optional[int] = None) -> Graph:
        return self.graph(unit.fid, depth)

    # ------------------------------------------------------------------ entries
    def manager_class(self) -> ClassInfo:
        """The run manager class DAG.run instantiates (default of the `run_manager` field)."""
        dag_run = self.p.func(DAG_RUN)
        env = FuncEnv.of(self.p, dag_run)
        for n in env.own_nodes():
            if isinstance(n, ast.Call) and isinstance(n.func, ast.Attribute) and n.func.attr == 'run':
                for t in env.resolve_call(n):
                    if t[0] == 'func' and t[1].cls is not None and t[1].is_async:
                        return t[1].cls
        raise AnalysisError('cannot find the run manager class from DAG.run')

    def manager_run(self) -> FuncUnit:
        ci = self.manager_class()
        m = self.p.lookup_method(ci, 'run')
        if m is None:
            raise AnalysisError('run manager has no run()')
        return m

    def storage_class(self) -> ClassInfo:
        ci = self.manager_class()
        for name, (ann, default) in ci.fields.items():
            t = self.p.ann_to_type(ann, ci.module) if ann is not None else None
            if t and t[0] == 'class' and any('node_results' in c.fields for c in self.p.mro(t[1]) if isinstance(c, ClassInfo)):
                return t[1]
        raise AnalysisError('cannot find the node storage class of the run manager')

    # ------------------------------------------------------------------ task roots
    def spawn_sites(self, g: Graph) -> List[Tuple[Ev, List[Tuple[FuncUnit, ast.Call, Inst]]]]:
        """SPAWN events of a graph with the coroutine functions whose objects they receive."""
        cached = getattr(g, '_spawn_sites', None)
        if cached is not None:
            return cached
        out = []
        g._spawn_sites = out
        for ev in g.events('call'):
            if not self.roles.spawn(ev):
                continue
            c = ev.node
            if not c.args:
                for kw in c.keywords:
                    if kw.arg in ('coro',):
                        arg = kw.value
                        break
                else:
                    out.append((ev, []))
                    continue
            else:
                arg = c.args[0]
            out.append((ev, self._coro_roots(g, arg, ev.inst)))
        return out

    def _coro_roots(self, g: Graph, arg: ast.AST, inst, _depth: int = 0) -> list:
        """The coroutine functions whose coroutine objects may flow into `arg`: direct calls of async functions,
        and - through the inlined activation - the values returned by a synchronous helper that chooses one."""
        roots = []
        for e, i in resolve_all(self.p, arg, inst):
            if isinstance(e, ast.IfExp):
                roots.extend(self._coro_roots(g, e.body, i, _depth + 1))
                roots.extend(self._coro_roots(g, e.orelse, i, _depth + 1))
                continue
            if not isinstance(e, ast.Call):
                continue
            env = FuncEnv.of(self.p, i.unit)
            for t in env.resolve_call(e):
                if t[0] != 'func':
                    continue
                if t[1].is_async:
                    roots.append((t[1], e, i))
                elif _depth < 4:
                    subs = [x for x in self._insts(g) if x.parent is i and x.call is e and x.unit is t[1]]
                    for sub in subs:
                        for n in FuncEnv.of(self.p, t[1]).own_nodes():
                            if isinstance(n, ast.Return) and n.value is not None:
                                roots.extend(self._coro_roots(g, n.value, sub, _depth + 1))
        return roots

    @staticmethod
    def _insts(g: Graph) -> list:
        cache = getattr(g, '_all_insts', None)
        if cache is None:
            seen = {}
            for ev in g.evs:
                seen[ev.inst.iid] = ev.inst
            cache = list(seen.values())
            g._all_insts = cache
        return cache

    def task_roots(self) -> Dict[str, List[Tuple[Graph, Ev]]]:
        """fid of every coroutine function that is run as a task on the run path -> spawn sites."""
        if self._task_roots is not None:
            return self._task_roots
        found: Dict[str, List[Tuple[Graph, Ev]]] = {}
        work = [self.manager_run().fid]
        seen = set()
        while work:
            fid = work.pop()
            if fid in seen:
                continue
            seen.add(fid)
            g = self.graph(fid)
            for ev, roots in self.spawn_sites(g):
                if not roots:
                    if ev.inst.unit.cls is not self.manager_class():
                        # a task created outside the run manager around code that is not the engine's (a callback, a user
                        # coroutine): not a task root of the run; LK-1 reports the spawn itself
                        note = f'foreign spawn outside the run manager at {ev.where()}: {ev.text()}'
                        if note not in self.notes:
                            self.notes.append(note)
                        continue
                    raise AnalysisError(f'spawn site with unresolved coroutine at {ev.where()}: {ev.text()}')
                for unit, call, inst in roots:
                    found.setdefault(unit.fid, []).append((g, ev))
                    work.append(unit.fid)
        self._task_roots = found
        return found

    def run_graphs(self) -> Dict[str, Graph]:
        """Graphs of run() and of every task root (each analysed as the root of its own task)."""
        out = {self.manager_run().fid: self.graph(self.manager_run().fid)}
        for fid in sorted(self.task_roots()):
            out[fid] = self.graph(fid)
        return out

    # ------------------------------------------------------------------ role functions
    def desc_functions(self) -> List[FuncUnit]:
        if not hasattr(self, '_desc'):
            self._desc = self._desc_functions()
        return self._desc

    def _desc_functions(self) -> List[FuncUnit]:
        """Functions returning the (first-line, switch-expanded) descendants of their node parameter:
        they call networkx.descendants_at_distance(<graph>, <param>, 1) and return that list."""
        out = []
        for unit in self.p.functions.values():
            if isinstance(unit.node, ast.Lambda):
                continue
            env = FuncEnv.of(self.p, unit)
            for n in env.own_nodes():
                if isinstance(n, ast.Call):
                    tg = env.resolve_call(n)
                    if any(t[0] == 'ext' and t[1].endswith('descendants_at_distance') for t in tg):
                        params = unit.params()
                        if len(n.args) >= 3 and isinstance(n.args[1], ast.Name) and n.args[1].id in params \
                                and isinstance(n.args[2], ast.Constant) and n.args[2].value == 1:
                            out.append(unit)
                            break
        return out

    def has_error_functions(self) -> List[FuncUnit]:
        """Functions testing whether *any* node of a dag parameter holds an error result."""
        err = self.error_predicates()
        out = []
        for unit in self.p.functions.values():
            if isinstance(unit.node, ast.Lambda) or unit.cls is None:
                continue
            env = FuncEnv.of(self.p, unit)
            params = unit.params()
            ok = False
            for n in env.own_nodes():
                # iterates (something derived from) the nodes of a dag parameter
                if isinstance(n, (ast.comprehension, ast.For)):
                    for x in ast.walk(n.iter):
                        if isinstance(x, ast.Attribute) and x.attr == 'nodes' and isinstance(x.value, ast.Name) and x.value.id in params:
                            ok = True
                    # ... or the parameter itself (a graph or any collection of node ids)
                    if isinstance(n.iter, ast.Name) and n.iter.id in params[1:]:
                        ok = True
                    # ... or a local collection built from the nodes of a dag parameter (`ids = set(dag.nodes); ids |= ...`)
                    if isinstance(n.iter, ast.Name) and n.iter.id not in params:
                        for d in env.local_defs().get(n.iter.id, []):
                            v = d[1] if len(d) > 1 and isinstance(d[1], ast.AST) else None
                            if v is not None and any(isinstance(x, ast.Attribute) and x.attr == 'nodes' and isinstance(x.value, ast.Name)
                                                     and x.value.id in params for x in ast.walk(v)):
                                ok = True
            if not ok:
                continue
            calls_err = False
            for n in env.own_nodes():
                if isinstance(n, ast.Call):
                    for t in env.resolve_call(n):
                        if t[0] == 'func' and t[1] in err:
                            calls_err = True
            if calls_err:
                out.append(unit)
        return out

    def error_predicates(self) -> List[FuncUnit]:
        """Storage methods that test a node result for being an exception (isinstance BaseException)."""
        st = self.storage_class()
        out = []
        for m in st.methods.values():
            for n in ast.walk(m.node):
                if isinstance(n, ast.Call):
                    for a in list(n.args) + [k.value for k in n.keywords]:
                        if isinstance(a, ast.Tuple) and any(isinstance(e, ast.Name) and e.id in ('BaseException', 'Exception')
                                                            for e in a.elts):
                            out.append(m)
        if not out:
            # by what they answer: true for a stored exception object, false for a stored value and for a missing entry
            from .absint import AObj, ARaise, Interp, Oracle, make_storage
            for m in st.methods.values():
                a = m.node.args
                if m.name.startswith('__') or len(a.args) < 2 or len(a.args) - len(a.defaults) > 2 or a.vararg or a.kwarg:
                    continue
                try:
                    answers = []
                    for val in (AObj(('ext', 'builtins.ValueError'), {'args': ()}, tag='exc'), 7, None):
                        contents = {'node_results': {'K': ('visible', val)}} if val is not None else {}
                        storage = make_storage(self.p, st, contents)
                        answers.append(Interp(self.p, Oracle()).call_unit(m, ['K'], {}, storage))
                    if answers == [True, False, False]:
                        out.append(m)
                except (ARaise, AnalysisError, KeyError):
                    continue
        return out

    # ------------------------------------------------------------------ formatting
    def construct(self, ev_or_unit, node: Optional[ast.AST] = None, tag: Optional[str] = None) -> str:
        if isinstance(ev_or_unit, Ev):
            unit = ev_or_unit.inst.unit
            node = node or ev_or_unit.node
        else:
            unit = ev_or_unit
        text = tag if tag is not None else (norm_stmt(node) if node is not None else '')
        return f'{unit.module.name}::{unit.qualname}::{text}'
