"""Event-level control-flow graphs with bounded inlining of resolved in-repo callees.

Nodes are *events* (calls, await points, assignments, branches, ...) in evaluation order; edges are
labelled:  'n' normal, 'T'/'F' branch outcome (for loops: T = next item, F = exhausted),
'exc' an Exception-class fault propagates, 'cancel' a BaseException that is not an Exception
(cancellation) propagates.  `finally` bodies are duplicated per continuation (normal, return,
break/continue, each propagating exception kind); `return` inside `finally` therefore cancels the
pending exception exactly as CPython does.

Inlining: a call (or awaited call) of a resolved in-repo function is expanded in place (entry event,
body, 'ret' event) up to `max_depth` frames and never recursively; parameters are bound to the
caller's argument expressions so that keys can be compared symbolically (sym.py).  A call of an
`async def` that is not awaited is a coroutine *creation* ('coro' flag) and is not expanded.

Fault model (which events get 'exc' edges) is supplied by the caller through `fault_policy`:
the properties quantify over node bodies, collaborator calls, explicit raises - not over every
Python operation.  'cancel' edges leave every opaque await point and every `async with` entry.
"""
from __future__ import annotations

import ast
import builtins
from typing import Callable, Dict, List, Optional, Tuple

from .program import (AnalysisError, ClassInfo, FuncEnv, FuncUnit, Program, dotted, unparse)

Frontier = List[Tuple[int, str]]


class Inst:
    """One (inlined) activation of a function unit."""
    _count = 0

    def __init__(self, unit: FuncUnit, parent: Optional['Inst'], call: Optional[ast.Call],
                 binding: Dict[str, Tuple], lexical: Optional['Inst'] = None) -> None:
        Inst._count += 1
        self.iid = Inst._count
        self.unit = unit
        self.parent = parent
        self.call = call
        self.binding = binding          # param -> ('expr', ast, Inst) | ('unknown',) | ('pack', [...])
        self.lexical = lexical          # defining activation for closures
        self.depth = 0 if parent is None else parent.depth + 1

    def stack(self) -> List[FuncUnit]:
        out, cur = [], self
        while cur is not None:
            out.append(cur.unit)
            cur = cur.parent
        return out

    def chain(self) -> str:
        names = [u.qualname for u in reversed(self.stack())]
        return ' -> '.join(names)

    def root(self) -> 'Inst':
        cur = self
        while cur.parent is not None:
            cur = cur.parent
        return cur

    def __repr__(self) -> str:
        return f'<inst#{self.iid} {self.unit.qualname} d={self.depth}>'


class Ev:
    __slots__ = ('id', 'kind', 'node', 'inst', 'info')

    def __init__(self, id_: int, kind: str, node: Optional[ast.AST], inst: Inst, info: dict) -> None:
        self.id = id_
        self.kind = kind
        self.node = node
        self.inst = inst
        self.info = info

    @property
    def lineno(self) -> int:
        return getattr(self.node, 'lineno', 0) if self.node is not None else 0

    def where(self) -> str:
        return f'{self.inst.unit.module.relpath}:{self.lineno}'

    def text(self, limit: int = 100) -> str:
        if self.node is None:
            return self.kind
        s = ' '.join(unparse(self.node).split())
        return s if len(s) <= limit else s[:limit] + '…'

    def __repr__(self) -> str:
        return f'<ev#{self.id} {self.kind} {self.inst.unit.name}:{self.lineno} {self.text(50)}>'


_DESUGARED: Dict[int, ast.AST] = {}
_DESUGARED_KEEP: List[ast.AST] = []
_UNROLLED: Dict[int, Optional[List[ast.stmt]]] = {}


class Graph:
    def __init__(self, root: FuncUnit) -> None:
        self.root = root
        self.evs: List[Ev] = []
        self.succ: Dict[int, List[Tuple[int, str]]] = {}
        self.pred: Dict[int, List[Tuple[int, str]]] = {}
        self.entry = -1
        self.exit = -1            # normal return of the root
        self.rexit: Dict[str, int] = {}   # 'exc' / 'cancel' escape of the root
        self.root_inst: Optional[Inst] = None
        self.cut_calls: List[Ev] = []     # calls not expanded because of depth / recursion
        self.unresolved: List[Ev] = []

    def add_edge(self, a: int, b: int, label: str) -> None:
        lst = self.succ.setdefault(a, [])
        if (b, label) not in lst:
            lst.append((b, label))
            self.pred.setdefault(b, []).append((a, label))

    def events(self, kind: Optional[str] = None, pred: Optional[Callable[[Ev], bool]] = None) -> List[Ev]:
        out = []
        for ev in self.evs:
            if kind is not None and ev.kind != kind:
                continue
            if pred is not None and not pred(ev):
                continue
            out.append(ev)
        return out

    def reachable_from_entry(self) -> set:
        seen = {self.entry}
        stack = [self.entry]
        while stack:
            n = stack.pop()
            for m, _ in self.succ.get(n, ()):
                if m not in seen:
                    seen.add(m)
                    stack.append(m)
        return seen


# ---------------------------------------------------------------------------------------------
# Frames
# ---------------------------------------------------------------------------------------------

class Frame:
    def __init__(self, outer: Optional['Frame'], inst: Inst) -> None:
        self.outer = outer
        self.inst = inst


class FuncFrame(Frame):
    def __init__(self, outer, inst) -> None:
        super().__init__(outer, inst)
        self.returns: Frontier = []
        self.raises: List[Tuple[Frontier, Tuple]] = []


class LoopFrame(Frame):
    def __init__(self, outer, inst, header: int, after: int) -> None:
        super().__init__(outer, inst)
        self.header = header
        self.after = after


class TryFrame(Frame):
    def __init__(self, outer, inst, stmt: ast.Try, join: int) -> None:
        super().__init__(outer, inst)   # outer == frame for handlers (FinFrame or enclosing)
        self.stmt = stmt
        self.join = join
        self.cache: Dict = {}


class FinFrame(Frame):
    def __init__(self, outer, inst, stmt: ast.Try, join: int) -> None:
        super().__init__(outer, inst)
        self.stmt = stmt
        self.join = join
        self.cache: Dict = {}


class WithFrame(Frame):
    def __init__(self, outer, inst, stmt, item, join: int) -> None:
        super().__init__(outer, inst)
        self.stmt = stmt
        self.item = item
        self.join = join
        self.cache: Dict = {}


class HandlerFrame(Frame):
    """Marks that we are inside an except handler (for bare `raise`)."""

    def __init__(self, outer, inst, handler: ast.ExceptHandler) -> None:
        super().__init__(outer, inst)
        self.handler = handler


# ---------------------------------------------------------------------------------------------
# Exception class reasoning
# ---------------------------------------------------------------------------------------------

def builtin_exc(name: str):
    obj = getattr(builtins, name, None)
    if isinstance(obj, type) and issubclass(obj, BaseException):
        return obj
    return None


class ExcClasses:
    """Ancestor sets of exception classes (in-repo via the class table, builtins via the analysing
    interpreter's hierarchy)."""

    def __init__(self, program: Program) -> None:
        self.p = program

    def ancestors_of_ref(self, ref) -> Optional[set]:
        """ref: ClassInfo | ('ext', dotted)"""
        if isinstance(ref, ClassInfo):
            out = set()
            for c in self.p.mro(ref):
                if isinstance(c, ClassInfo):
                    out.add(c.name)
                else:
                    out |= self._ext_anc(c[1]) or {c[1].split('.')[-1]}
            return out
        if isinstance(ref, tuple) and ref[0] == 'ext':
            return self._ext_anc(ref[1])
        return None

    def _ext_anc(self, dotted_name: str) -> Optional[set]:
        last = dotted_name.split('.')[-1]
        if dotted_name in ('asyncio.CancelledError', 'asyncio.exceptions.CancelledError',
                           'concurrent.futures.CancelledError'):
            return {'CancelledError', 'BaseException', 'object'}
        if dotted_name in ('asyncio.TimeoutError',):
            return {'TimeoutError', 'Exception', 'BaseException', 'object'}
        cls = builtin_exc(last)
        if cls is not None:
            return {c.__name__ for c in cls.__mro__}
        return None

    def resolve_class_expr(self, expr: ast.AST, env: FuncEnv):
        """-> ClassInfo | ('ext', dotted) | None (dynamic)"""
        d = dotted(expr)
        if d is None:
            return None
        t = env.type_of(expr)
        if t[0] == 'type' and t[1][0] == 'class':
            return t[1][1]
        if t[0] == 'extsym':
            return ('ext', t[1])
        if isinstance(expr, ast.Name) and builtin_exc(expr.id) is not None and expr.id not in env.local_defs():
            return ('ext', f'builtins.{expr.id}')
        return None


# ---------------------------------------------------------------------------------------------
# Builder
# ---------------------------------------------------------------------------------------------

class FaultPolicy:
    """Decides which opaque calls may raise (Exception universe).  Default: none."""

    def call_may_raise(self, builder: 'Builder', call: ast.Call, targets: List[Tuple], inst: Inst,
                       awaited: bool) -> bool:  # pragma: no cover - overridden
        return False

    def inline(self, unit: FuncUnit) -> bool:
        return True

    def subscr_may_raise(self, node: ast.Subscript) -> bool:
        return False

    def member_may_raise(self, node: ast.Compare) -> bool:
        return False


class Builder:
    def __init__(self, program: Program, policy: Optional[FaultPolicy] = None, max_depth: int = 8,
                 max_nodes: int = 200000) -> None:
        self.p = program
        self.policy = policy or FaultPolicy()
        self.max_depth = max_depth
        self.max_nodes = max_nodes
        self.exc = ExcClasses(program)
        self.g: Graph = None  # type: ignore

    # ------------------------------------------------------------------ plumbing
    def new(self, kind: str, node, inst: Inst, **info) -> int:
        if len(self.g.evs) >= self.max_nodes:
            raise AnalysisError(f'graph of {self.g.root.fid} exceeds {self.max_nodes} events')
        ev = Ev(len(self.g.evs), kind, node, inst, info)
        self.g.evs.append(ev)
        self.g.succ.setdefault(ev.id, [])
        self.g.pred.setdefault(ev.id, [])
        return ev.id

    def connect(self, fr: Frontier, node: int, label: Optional[str] = None) -> None:
        for src, lab in fr:
            if label is not None and lab in ('T', 'F') and label != lab:
                # keep the branch outcome: T/F edge into a nop, then the overriding label
                src_ev = self.g.evs[src]
                mid = self.new('nop', src_ev.node, src_ev.inst, what='branch-arm')
                self.g.add_edge(src, mid, lab)
                self.g.add_edge(mid, node, label)
                continue
            self.g.add_edge(src, node, label or lab)

    def step(self, fr: Frontier, kind: str, node, inst: Inst, **info) -> Tuple[int, Frontier]:
        n = self.new(kind, node, inst, **info)
        self.connect(fr, n)
        return n, [(n, 'n')]

    # ------------------------------------------------------------------ entry point
    def build(self, unit: FuncUnit, self_binding: Optional[Dict[str, Tuple]] = None) -> Graph:
        self.g = Graph(unit)
        inst = Inst(unit, None, None, self_binding or {})
        self.g.root_inst = inst
        frame = FuncFrame(None, inst)
        entry = self.new('entry', unit.node, inst)
        self.g.entry = entry
        out = self.body(unit, [(entry, 'n')], frame)
        exit_ = self.new('exit', unit.node, inst)
        self.g.exit = exit_
        self.connect(out, exit_)
        self.connect(frame.returns, exit_)
        for kind in ('exc', 'cancel'):
            self.g.rexit[kind] = self.new('rexit', unit.node, inst, exc=kind)
        for fr, exc in frame.raises:
            self.connect(fr, self.g.rexit[exc[0]], exc[0])
        return self.g

    def body(self, unit: FuncUnit, fr: Frontier, frame: Frame) -> Frontier:
        node = unit.node
        if isinstance(node, ast.Lambda):
            fr = self.expr(node.body, fr, frame)
            n, fr = self.step(fr, 'return', node.body, frame.inst, value=node.body, implicit=True)
            self.return_to(fr, frame)
            return []
        return self.stmts(node.body, fr, frame)

    # ------------------------------------------------------------------ statements
    def stmts(self, body: List[ast.stmt], fr: Frontier, frame: Frame) -> Frontier:
        body = self._desugar_acquire_release(body, frame)
        body = self._desugar_literal_loops(body, frame)
        for st in body:
            if not fr:
                # unreachable code after return/raise: still skip (no events)
                break
            fr = self.stmt(st, fr, frame)
        return fr

    _LOCK_TYPES = ('asyncio.Condition', 'asyncio.Lock', 'asyncio.locks.Condition', 'asyncio.locks.Lock',
                   'asyncio.Semaphore', 'asyncio.BoundedSemaphore')

    def _desugar_acquire_release(self, body: List[ast.stmt], frame: Frame) -> List[ast.stmt]:
        """`await X.acquire(); try: B finally: X.release()` on an asyncio lock / condition is, by the
        documented equivalence, `async with X: B`: it is analysed as that statement so the lock rules see one
        critical section whatever spelling is used."""
        out: List[ast.stmt] = []
        i = 0
        changed = False
        while i < len(body):
            st = body[i]
            nxt = body[i + 1] if i + 1 < len(body) else None
            x = self._acquire_of(st)
            if x is not None and isinstance(nxt, ast.Try) and not nxt.handlers and not nxt.orelse \
                    and len(nxt.finalbody) == 1 and self._release_of(nxt.finalbody[0]) == unparse(x) \
                    and self._is_lock(x, frame):
                cache = _DESUGARED
                w = cache.get(id(st))
                if w is None:
                    w = ast.AsyncWith(items=[ast.withitem(context_expr=x, optional_vars=None)], body=nxt.body, type_comment=None)
                    ast.copy_location(w, st)
                    w.end_lineno = getattr(nxt, 'end_lineno', None)
                    w.end_col_offset = getattr(nxt, 'end_col_offset', None)
                    cache[id(st)] = w
                    _DESUGARED_KEEP.append(st)
                out.append(w)
                i += 2
                changed = True
                continue
            out.append(st)
            i += 1
        return out if changed else body

    def _desugar_literal_loops(self, body: List[ast.stmt], frame: Frame) -> List[ast.stmt]:
        """`for a, b in ((x1, y1), (x2, y2)): B` over a literal display of side-effect-free elements is the
        sequence B[a:=x1, b:=y1]; B[a:=x2, b:=y2] (no break / continue / rebinding in B, targets dead afterwards):
        a table-driven loop is analysed as the statements it stands for."""
        if not any(isinstance(st, ast.For) for st in body):
            return body
        out: List[ast.stmt] = []
        changed = False
        for idx, st in enumerate(body):
            rep = self._unrolled(st, body[idx + 1:], frame) if isinstance(st, ast.For) else None
            if rep is None:
                out.append(st)
            else:
                out.extend(rep)
                changed = True
        return out if changed else body

    def _unrolled(self, st: ast.For, rest: List[ast.stmt], frame: Frame) -> Optional[List[ast.stmt]]:
        key = id(st)
        if key in _UNROLLED:
            return _UNROLLED[key]
        res = None
        try:
            res = self._unroll(st, rest, frame)
        finally:
            _UNROLLED[key] = res
            _DESUGARED_KEEP.append(st)
        return res

    def _unroll(self, st: ast.For, rest: List[ast.stmt], frame: Frame) -> Optional[List[ast.stmt]]:
        import copy
        if st.orelse:
            return None
        it = st.iter
        env = FuncEnv.of(self.p, frame.inst.unit)
        if isinstance(it, ast.Name):
            defs = env.local_defs().get(it.id) or []
            if len(defs) == 1 and defs[0][0] == 'assign':
                it = defs[0][1]
            elif len(defs) == 1 and defs[0][0] == 'annassign' and defs[0][2] is not None:
                it = defs[0][2]
        if not isinstance(it, (ast.Tuple, ast.List)) or not it.elts or len(it.elts) > 8:
            return None

        def simple(e):
            if isinstance(e, (ast.Constant, ast.Name)):
                return True
            if isinstance(e, ast.Attribute):
                return simple(e.value)
            return False
        targets = [st.target] if isinstance(st.target, ast.Name) else (list(st.target.elts) if isinstance(st.target, (ast.Tuple, ast.List)) else None)
        if targets is None or not all(isinstance(t, ast.Name) for t in targets):
            return None
        names = [t.id for t in targets]
        rows = []
        for e in it.elts:
            if isinstance(st.target, ast.Name):
                if not simple(e):
                    return None
                rows.append([e])
            else:
                if not isinstance(e, (ast.Tuple, ast.List)) or len(e.elts) != len(names) or not all(simple(x) for x in e.elts):
                    return None
                rows.append(list(e.elts))
        for n in ast.walk(ast.Module(body=st.body, type_ignores=[])):
            if isinstance(n, (ast.Break, ast.Continue, ast.Return, ast.FunctionDef, ast.AsyncFunctionDef, ast.Lambda, ast.Yield, ast.YieldFrom)):
                return None
            if isinstance(n, ast.Name) and n.id in names and isinstance(n.ctx, (ast.Store, ast.Del)):
                return None
        # names written in the body must not feed the element expressions
        written = {n.id for n in ast.walk(ast.Module(body=st.body, type_ignores=[])) if isinstance(n, ast.Name) and isinstance(n.ctx, ast.Store)}
        for row in rows:
            for e in row:
                if any(isinstance(x, ast.Name) and x.id in written for x in ast.walk(e)):
                    return None
        for r in rest:
            if any(isinstance(n, ast.Name) and n.id in names for n in ast.walk(r)):
                return None

        class Sub(ast.NodeTransformer):
            def __init__(self, table):
                self.table = table

            def visit_Name(self, node):
                if isinstance(node.ctx, ast.Load) and node.id in self.table:
                    return ast.copy_location(copy.deepcopy(self.table[node.id]), node)
                return node
        out: List[ast.stmt] = []
        for row in rows:
            table = dict(zip(names, row))
            for b in st.body:
                nb = Sub(table).visit(copy.deepcopy(b))
                ast.fix_missing_locations(nb)
                out.append(nb)
        return out

    @staticmethod
    def _acquire_of(st) -> Optional[ast.AST]:
        if isinstance(st, ast.Expr) and isinstance(st.value, ast.Await) and isinstance(st.value.value, ast.Call):
            c = st.value.value
            if isinstance(c.func, ast.Attribute) and c.func.attr == 'acquire' and not c.args and not c.keywords:
                return c.func.value
        return None

    @staticmethod
    def _release_of(st) -> Optional[str]:
        if isinstance(st, ast.Expr) and isinstance(st.value, ast.Call):
            c = st.value
            if isinstance(c.func, ast.Attribute) and c.func.attr == 'release' and not c.args and not c.keywords:
                return unparse(c.func.value)
        return None

    def _is_lock(self, x: ast.AST, frame: Frame) -> bool:
        env = FuncEnv.of(self.p, frame.inst.unit)
        probe = ast.Call(func=ast.Attribute(value=x, attr='acquire', ctx=ast.Load()), args=[], keywords=[])
        try:
            tg = env.resolve_call(probe)
        except Exception:
            return False
        return any(t[0] == 'ext' and any(t[1].startswith(lt + '.') or t[1].endswith(lt.split('.')[-1] + '.acquire') for lt in self._LOCK_TYPES)
                   for t in tg)

    def stmt(self, st: ast.stmt, fr: Frontier, frame: Frame) -> Frontier:
        inst = frame.inst
        if isinstance(st, ast.Expr):
            return self.expr(st.value, fr, frame)
        if isinstance(st, ast.Assign):
            fr = self.expr(st.value, fr, frame)
            for tgt in st.targets:
                fr = self.target(tgt, st, fr, frame, st.value)
            return fr
        if isinstance(st, ast.AnnAssign):
            if st.value is None:
                return fr
            fr = self.expr(st.value, fr, frame)
            return self.target(st.target, st, fr, frame, st.value)
        if isinstance(st, ast.AugAssign):
            fr = self.expr(st.value, fr, frame)
            return self.target(st.target, st, fr, frame, st.value, aug=True)
        if isinstance(st, ast.Return):
            if st.value is not None:
                fr = self.expr(st.value, fr, frame)
            n, fr = self.step(fr, 'return', st, inst, value=st.value)
            self.return_to(fr, frame)
            return []
        if isinstance(st, ast.Raise):
            return self.raise_stmt(st, fr, frame)
        if isinstance(st, ast.If):
            fr = self.expr(st.test, fr, frame)
            b, _ = self.step(fr, 'branch', st.test, inst, test=st.test, stmt=st)
            t_out = self.stmts(st.body, [(b, 'T')], frame)
            f_out = self.stmts(st.orelse, [(b, 'F')], frame) if st.orelse else [(b, 'F')]
            return t_out + f_out
        if isinstance(st, ast.While):
            return self.while_stmt(st, fr, frame)
        if isinstance(st, (ast.For, ast.AsyncFor)):
            return self.for_stmt(st, fr, frame)
        if isinstance(st, ast.Try):
            return self.try_stmt(st, fr, frame)
        if isinstance(st, (ast.With, ast.AsyncWith)):
            return self.with_stmt(st, 0, fr, frame)
        if isinstance(st, ast.Break):
            n, fr = self.step(fr, 'break', st, inst)
            self.break_to(fr, frame)
            return []
        if isinstance(st, ast.Continue):
            n, fr = self.step(fr, 'continue', st, inst)
            self.continue_to(fr, frame)
            return []
        if isinstance(st, (ast.FunctionDef, ast.AsyncFunctionDef, ast.ClassDef)):
            n, fr = self.step(fr, 'closure', st, inst, unit=self.p.unit_of_node.get(id(st)))
            return fr
        if isinstance(st, ast.Delete):
            for tgt in st.targets:
                if isinstance(tgt, (ast.Subscript, ast.Attribute)):
                    fr = self.expr(tgt.value, fr, frame)
                n, fr = self.step(fr, 'del', st, inst, target=tgt)
            return fr
        if isinstance(st, ast.Assert):
            return self.expr(st.test, fr, frame)
        if isinstance(st, (ast.Pass, ast.Import, ast.ImportFrom, ast.Global, ast.Nonlocal)):
            return fr
        raise AnalysisError(f'unsupported statement {type(st).__name__} at {inst.unit.module.relpath}:{st.lineno}')

    def target(self, tgt, st, fr: Frontier, frame: Frame, value, aug: bool = False) -> Frontier:
        inst = frame.inst
        if isinstance(tgt, ast.Name):
            n, fr = self.step(fr, 'assign', st, inst, name=tgt.id, value=value, aug=aug)
            return fr
        if isinstance(tgt, (ast.Tuple, ast.List)):
            for i, elt in enumerate(tgt.elts):
                fr = self.target(elt, st, fr, frame, value)
            return fr
        if isinstance(tgt, ast.Starred):
            return self.target(tgt.value, st, fr, frame, value)
        if isinstance(tgt, ast.Subscript):
            fr = self.expr(tgt.value, fr, frame)
            fr = self.expr(tgt.slice, fr, frame)
            n, fr = self.step(fr, 'store', st, inst, target=tgt, value=value, aug=aug, how='item')
            return fr
        if isinstance(tgt, ast.Attribute):
            fr = self.expr(tgt.value, fr, frame)
            n, fr = self.step(fr, 'store', st, inst, target=tgt, value=value, aug=aug, how='attr')
            return fr
        return fr

    def while_stmt(self, st: ast.While, fr: Frontier, frame: Frame) -> Frontier:
        inst = frame.inst
        header = self.new('loophead', st, inst)
        self.connect(fr, header)
        after = self.new('nop', st, inst, what='after-loop')
        lf = LoopFrame(frame, inst, header, after)
        const_true = isinstance(st.test, ast.Constant) and bool(st.test.value)
        if const_true:
            body_in = [(header, 'n')]
        else:
            tfr = self.expr(st.test, [(header, 'n')], frame)
            b, _ = self.step(tfr, 'branch', st.test, inst, test=st.test, stmt=st)
            body_in = [(b, 'T')]
            else_out = self.stmts(st.orelse, [(b, 'F')], frame) if st.orelse else [(b, 'F')]
            self.connect(else_out, after)
        out = self.stmts(st.body, body_in, lf)
        self.connect(out, header, 'back')
        return [(after, 'n')]

    def for_stmt(self, st, fr: Frontier, frame: Frame) -> Frontier:
        inst = frame.inst
        fr = self.expr(st.iter, fr, frame)
        header = self.new('loop', st, inst, target=st.target, iter=st.iter, is_async=isinstance(st, ast.AsyncFor))
        self.connect(fr, header)
        after = self.new('nop', st, inst, what='after-loop')
        lf = LoopFrame(frame, inst, header, after)
        out = self.stmts(st.body, [(header, 'T')], lf)
        self.connect(out, header, 'back')
        if self._endless_iter(st.iter, frame):
            # itertools.count() / cycle() / repeat(x) never end: the loop is left by break / return / raise only
            self.g.evs[header].info['endless'] = True
            return [(after, 'n')] if self.g.pred.get(after) else []
        else_out = self.stmts(st.orelse, [(header, 'F')], frame) if st.orelse else [(header, 'F')]
        self.connect(else_out, after)
        return [(after, 'n')]

    def _endless_iter(self, it: ast.AST, frame: Frame) -> bool:
        if not isinstance(it, ast.Call):
            return False
        env = FuncEnv.of(self.p, frame.inst.unit)
        try:
            tg = env.resolve_call(it)
        except Exception:
            return False
        for t in tg:
            if t[0] == 'ext' and t[1] in ('itertools.count', 'itertools.cycle'):
                return True
            if t[0] == 'ext' and t[1] == 'itertools.repeat' and len(it.args) == 1 and not it.keywords:
                return True
        return False

    def try_stmt(self, st: ast.Try, fr: Frontier, frame: Frame) -> Frontier:
        inst = frame.inst
        join = self.new('nop', st, inst, what='after-try')
        after: Frame = frame
        fin = None
        if st.finalbody:
            fin = FinFrame(frame, inst, st, join)
            after = fin
        if st.handlers:
            body_frame: Frame = TryFrame(after, inst, st, join)
        else:
            body_frame = after
        body_out = self.stmts(st.body, fr, body_frame)
        else_out = self.stmts(st.orelse, body_out, after) if st.orelse else body_out
        self.leave_normally(else_out, after, frame, join)
        return [(join, 'n')]

    def leave_normally(self, fr: Frontier, after: Frame, frame: Frame, join: int) -> None:
        """Fallthrough out of a try body / handler: run the finally copy for 'normal', reach join."""
        if not fr:
            return
        if isinstance(after, FinFrame) and after is not frame:
            entry = after.cache.get('normal')
            if entry is None:
                entry = self.new('fin', after.stmt, after.inst, cont='normal')
                after.cache['normal'] = entry
                out = self.stmts(after.stmt.finalbody, [(entry, 'n')], after.outer)
                self.connect(out, join)
            self.connect(fr, entry)
        else:
            self.connect(fr, join)

    def with_stmt(self, st, idx: int, fr: Frontier, frame: Frame) -> Frontier:
        inst = frame.inst
        item = st.items[idx]
        is_async = isinstance(st, ast.AsyncWith)
        fr = self.expr(item.context_expr, fr, frame)
        enter = self.new('enter', st, inst, item=item, is_async=is_async, expr=item.context_expr)
        self.connect(fr, enter)
        if is_async:
            # acquiring may suspend: cancellation can surface here
            self.raise_to([(enter, 'cancel')], ('cancel', None), frame)
        join = self.new('nop', st, inst, what='after-with')
        wf = WithFrame(frame, inst, st, item, join)
        cur: Frontier = [(enter, 'n')]
        if item.optional_vars is not None:
            cur = self.target(item.optional_vars, st, cur, wf, item.context_expr)
        if idx + 1 < len(st.items):
            out = self.with_stmt(st, idx + 1, cur, wf)
        else:
            out = self.stmts(st.body, cur, wf)
        if out:
            leave = self.new('leave', st, inst, item=item, is_async=is_async, cont='normal', enter=enter)
            self.connect(out, leave)
            self.connect([(leave, 'n')], join)
        return [(join, 'n')]

    # ------------------------------------------------------------------ non-local exits
    def return_to(self, fr: Frontier, frame: Frame) -> None:
        while fr:
            if isinstance(frame, FinFrame):
                entry = frame.cache.get('return')
                if entry is None:
                    entry = self.new('fin', frame.stmt, frame.inst, cont='return')
                    frame.cache['return'] = entry
                    out = self.stmts(frame.stmt.finalbody, [(entry, 'n')], frame.outer)
                    self.return_to(out, frame.outer)
                self.connect(fr, entry)
                return
            if isinstance(frame, WithFrame):
                leave = frame.cache.get('return')
                if leave is None:
                    leave = self.new('leave', frame.stmt, frame.inst, item=frame.item,
                                     is_async=isinstance(frame.stmt, ast.AsyncWith), cont='return')
                    frame.cache['return'] = leave
                    self.return_to([(leave, 'n')], frame.outer)
                self.connect(fr, leave)
                return
            if isinstance(frame, FuncFrame):
                frame.returns.extend(fr)
                return
            frame = frame.outer

    def _loop_exit(self, fr: Frontier, frame: Frame, which: str) -> None:
        while fr:
            if isinstance(frame, LoopFrame):
                self.connect(fr, frame.after if which == 'break' else frame.header,
                             'n' if which == 'break' else 'back')
                return
            if isinstance(frame, FinFrame):
                key = (which,)
                entry = frame.cache.get(key)
                if entry is None:
                    entry = self.new('fin', frame.stmt, frame.inst, cont=which)
                    frame.cache[key] = entry
                    out = self.stmts(frame.stmt.finalbody, [(entry, 'n')], frame.outer)
                    self._loop_exit(out, frame.outer, which)
                self.connect(fr, entry)
                return
            if isinstance(frame, WithFrame):
                key = (which,)
                leave = frame.cache.get(key)
                if leave is None:
                    leave = self.new('leave', frame.stmt, frame.inst, item=frame.item,
                                     is_async=isinstance(frame.stmt, ast.AsyncWith), cont=which)
                    frame.cache[key] = leave
                    self._loop_exit([(leave, 'n')], frame.outer, which)
                self.connect(fr, leave)
                return
            if isinstance(frame, FuncFrame):
                raise AnalysisError(f'{which} outside loop in {frame.inst.unit.fid}')
            frame = frame.outer

    def break_to(self, fr: Frontier, frame: Frame) -> None:
        self._loop_exit(fr, frame, 'break')

    def continue_to(self, fr: Frontier, frame: Frame) -> None:
        self._loop_exit(fr, frame, 'continue')

    def raise_to(self, fr: Frontier, exc: Tuple, frame: Optional[Frame]) -> None:
        """Route an exception of kind exc=('exc'|'cancel', class-ref|None) outwards."""
        label = exc[0]
        kept: Frontier = []
        for n, lab in fr:
            if lab in ('T', 'F'):
                # the frontier ends in a branch arm (the end of a finally body that re-raises): keep the branch outcome
                src_ev = self.g.evs[n]
                mid = self.new('nop', src_ev.node, src_ev.inst, what='branch-arm')
                self.g.add_edge(n, mid, lab)
                n = mid
            kept.append((n, label))
        fr = kept
        while fr and frame is not None:
            if isinstance(frame, TryFrame):
                for h in frame.stmt.handlers:
                    m = self.match_handler(h, exc, frame.inst)
                    if m in ('yes', 'maybe'):
                        entry = frame.cache.get(id(h))
                        if entry is None:
                            entry = self.new('handler', h, frame.inst, handler=h, name=h.name)
                            frame.cache[id(h)] = entry
                            hf = HandlerFrame(frame.outer, frame.inst, h)
                            out = self.stmts(h.body, [(entry, 'n')], hf)
                            self.leave_normally(out, frame.outer, None, frame.join)
                        self.connect(fr, entry)
                        if m == 'yes':
                            return
                frame = frame.outer
                continue
            if isinstance(frame, FinFrame):
                key = ('raise', exc[0], self._exc_key(exc))
                entry = frame.cache.get(key)
                if entry is None:
                    entry = self.new('fin', frame.stmt, frame.inst, cont='raise', exc=exc)
                    frame.cache[key] = entry
                    out = self.stmts(frame.stmt.finalbody, [(entry, 'n')], frame.outer)
                    self.raise_to(out, exc, frame.outer)
                self.connect(fr, entry)
                return
            if isinstance(frame, WithFrame):
                key = ('raise', exc[0], self._exc_key(exc))
                leave = frame.cache.get(key)
                if leave is None:
                    leave = self.new('leave', frame.stmt, frame.inst, item=frame.item,
                                     is_async=isinstance(frame.stmt, ast.AsyncWith), cont='raise', exc=exc)
                    frame.cache[key] = leave
                    self.raise_to([(leave, label)], exc, frame.outer)
                self.connect(fr, leave)
                return
            if isinstance(frame, FuncFrame):
                frame.raises.append((fr, exc))
                return
            frame = frame.outer

    @staticmethod
    def _exc_key(exc: Tuple) -> str:
        ref = exc[1]
        if ref is None:
            return '*'
        if isinstance(ref, ClassInfo):
            return ref.qualname
        return str(ref)

    def match_handler(self, h: ast.ExceptHandler, exc: Tuple, inst: Inst) -> str:
        if h.type is None:
            return 'yes'
        env = FuncEnv.of(self.p, inst.unit)
        types = h.type.elts if isinstance(h.type, ast.Tuple) else [h.type]
        best = 'no'
        for texpr in types:
            ref = self.exc.resolve_class_expr(texpr, env)
            if ref is None:
                # dynamic class expression (retry_policy.exceptions): may catch Exception faults only
                res = 'maybe' if exc[0] == 'exc' else 'no'
            else:
                anc = self.exc.ancestors_of_ref(ref) or set()
                hname = ref.name if isinstance(ref, ClassInfo) else ref[1].split('.')[-1]
                if exc[0] == 'cancel':
                    if hname in ('BaseException', 'CancelledError'):
                        res = 'yes'           # the cancel universe is the CancelledError thrown by Task.cancel()
                    elif 'Exception' in anc:
                        res = 'no'
                    else:
                        res = 'maybe'     # CancelledError, KeyboardInterrupt, ...
                else:
                    if hname in ('BaseException', 'Exception'):
                        res = 'yes'
                    elif 'Exception' not in anc:
                        res = 'no'
                    elif exc[1] is None:
                        res = 'maybe'
                    else:
                        canc = self.exc.ancestors_of_ref(exc[1])
                        if canc is None:
                            res = 'maybe'
                        elif hname in canc:
                            res = 'yes'
                        else:
                            cname = exc[1].name if isinstance(exc[1], ClassInfo) else exc[1][1].split('.')[-1]
                            res = 'maybe' if cname in anc else 'no'
            if res == 'yes':
                return 'yes'
            if res == 'maybe':
                best = 'maybe'
        return best

    def raise_stmt(self, st: ast.Raise, fr: Frontier, frame: Frame) -> Frontier:
        inst = frame.inst
        if st.exc is not None:
            fr = self.expr(st.exc, fr, frame)
        n, fr = self.step(fr, 'raise', st, inst, exc=st.exc)
        kinds = self.raise_kinds(st, frame)
        self.g.evs[n].info['kinds'] = kinds
        for exc in kinds:
            self.raise_to([(n, exc[0])], exc, frame)
        return []

    def raise_kinds(self, st: ast.Raise, frame: Frame) -> List[Tuple]:
        inst = frame.inst
        if st.exc is None:
            # bare re-raise: the kinds the enclosing handler can hold
            f = frame
            while f is not None and not isinstance(f, HandlerFrame):
                if isinstance(f, FuncFrame):
                    f = None
                    break
                f = f.outer
            if f is None:
                return [('exc', None)]
            return self.handler_kinds(f.handler, inst)
        from .sym import resolve_value      # local import (cycle)
        expr, einst = resolve_value(self.p, st.exc, inst)
        env = FuncEnv.of(self.p, einst.unit)
        cexpr = expr.func if isinstance(expr, ast.Call) else expr
        ref = self.exc.resolve_class_expr(cexpr, env)
        if ref is not None:
            anc = self.exc.ancestors_of_ref(ref) or set()
            if 'Exception' in anc:
                return [('exc', ref)]
            if 'BaseException' in anc:
                return [('cancel', ref)]
        # a name bound by `except ... as name`
        if isinstance(expr, ast.Name):
            defs = FuncEnv.of(self.p, einst.unit).local_defs().get(expr.id, [])
            hk: List[Tuple] = []
            for d in defs:
                if d[0] == 'except':
                    h = ast.ExceptHandler(type=d[1], name=expr.id, body=[])
                    for k in self.handler_kinds(h, einst):
                        if k not in hk:
                            hk.append(k)
            if hk:
                return hk
        return [('exc', None)]

    def handler_kinds(self, h: ast.ExceptHandler, inst: Inst) -> List[Tuple]:
        if h.type is None:
            return [('exc', None), ('cancel', None)]
        env = FuncEnv.of(self.p, inst.unit)
        types = h.type.elts if isinstance(h.type, ast.Tuple) else [h.type]
        kinds: List[Tuple] = []
        for texpr in types:
            ref = self.exc.resolve_class_expr(texpr, env)
            if ref is None:
                k = [('exc', None)]
            else:
                anc = self.exc.ancestors_of_ref(ref) or set()
                name = ref.name if isinstance(ref, ClassInfo) else ref[1].split('.')[-1]
                if name == 'BaseException':
                    k = [('exc', None), ('cancel', None)]
                elif 'Exception' in anc:
                    k = [('exc', None if name == 'Exception' else ref)]
                else:
                    k = [('cancel', ref)]
            for x in k:
                if x not in kinds:
                    kinds.append(x)
        return kinds

    # ------------------------------------------------------------------ expressions
    def expr(self, e: Optional[ast.AST], fr: Frontier, frame: Frame) -> Frontier:
        if e is None or not fr:
            return fr
        inst = frame.inst
        if isinstance(e, (ast.Constant, ast.Name)):
            return fr
        if isinstance(e, ast.Attribute):
            return self.expr(e.value, fr, frame)
        if isinstance(e, ast.Call):
            return self.call(e, fr, frame, awaited=False)
        if isinstance(e, ast.Await):
            if isinstance(e.value, ast.Call):
                return self.call(e.value, fr, frame, awaited=True, await_node=e)
            fr = self.expr(e.value, fr, frame)
            n, fr = self.step(fr, 'await', e, inst, opaque=True)
            self.raise_to([(n, 'cancel')], ('cancel', None), frame)
            return fr
        if isinstance(e, ast.Subscript):
            fr = self.expr(e.value, fr, frame)
            fr = self.expr(e.slice, fr, frame)
            if isinstance(e.ctx, ast.Load):
                n, fr = self.step(fr, 'subscr', e, inst)
                if self.policy.subscr_may_raise(e):
                    self.g.evs[n].info['may_raise'] = True
                    self.raise_to([(n, 'exc')], ('exc', ('ext', 'builtins.KeyError')), frame)
            return fr
        if isinstance(e, ast.BoolOp):
            out: Frontier = []
            fr = self.expr(e.values[0], fr, frame)
            for v in e.values[1:]:
                out = out + fr
                fr = self.expr(v, fr, frame)
            return self._dedupe(out + fr)
        if isinstance(e, ast.IfExp):
            fr = self.expr(e.test, fr, frame)
            b, _ = self.step(fr, 'branch', e.test, inst, test=e.test, stmt=e)
            t = self.expr(e.body, [(b, 'T')], frame)
            f = self.expr(e.orelse, [(b, 'F')], frame)
            return self._dedupe(t + f)
        if isinstance(e, ast.Compare):
            fr = self.expr(e.left, fr, frame)
            for c in e.comparators:
                fr = self.expr(c, fr, frame)
            if any(isinstance(op, (ast.In, ast.NotIn)) for op in e.ops) and fr:
                # membership in a hash container hashes the left operand: a user value may be unhashable
                n, fr = self.step(fr, 'member', e, inst)
                if self.policy.member_may_raise(e):
                    self.g.evs[n].info['may_raise'] = True
                    self.raise_to([(n, 'exc')], ('exc', ('ext', 'builtins.TypeError')), frame)
            return fr
        if isinstance(e, ast.BinOp):
            fr = self.expr(e.left, fr, frame)
            return self.expr(e.right, fr, frame)
        if isinstance(e, ast.UnaryOp):
            return self.expr(e.operand, fr, frame)
        if isinstance(e, ast.Lambda):
            n, fr = self.step(fr, 'closure', e, inst, unit=self.p.unit_of_node.get(id(e)))
            return fr
        if isinstance(e, (ast.List, ast.Tuple, ast.Set)):
            for x in e.elts:
                fr = self.expr(x, fr, frame)
            return fr
        if isinstance(e, ast.Dict):
            for k, v in zip(e.keys, e.values):
                if k is not None:
                    fr = self.expr(k, fr, frame)
                fr = self.expr(v, fr, frame)
            return fr
        if isinstance(e, ast.Starred):
            return self.expr(e.value, fr, frame)
        if isinstance(e, ast.JoinedStr):
            for v in e.values:
                fr = self.expr(v, fr, frame)
            return fr
        if isinstance(e, ast.FormattedValue):
            return self.expr(e.value, fr, frame)
        if isinstance(e, ast.NamedExpr):
            fr = self.expr(e.value, fr, frame)
            n, fr = self.step(fr, 'assign', e, inst, name=e.target.id, value=e.value, aug=False)
            return fr
        if isinstance(e, (ast.ListComp, ast.SetComp, ast.GeneratorExp, ast.DictComp)):
            return self.comprehension(e, 0, fr, frame)
        if isinstance(e, ast.Slice):
            for part in (e.lower, e.upper, e.step):
                fr = self.expr(part, fr, frame)
            return fr
        if isinstance(e, (ast.Yield, ast.YieldFrom)):
            fr = self.expr(e.value, fr, frame)
            n, fr = self.step(fr, 'yield', e, inst)
            return fr
        raise AnalysisError(f'unsupported expression {type(e).__name__} at '
                            f'{inst.unit.module.relpath}:{getattr(e, "lineno", 0)}')

    @staticmethod
    def _dedupe(fr: Frontier) -> Frontier:
        out: Frontier = []
        for x in fr:
            if x not in out:
                out.append(x)
        return out

    def comprehension(self, e, idx: int, fr: Frontier, frame: Frame) -> Frontier:
        inst = frame.inst
        gen = e.generators[idx]
        fr = self.expr(gen.iter, fr, frame)
        header = self.new('loop', gen, inst, target=gen.target, iter=gen.iter, comp=e, is_async=bool(gen.is_async))
        self.connect(fr, header)
        cur: Frontier = [(header, 'T')]
        skip: Frontier = []
        for cond in gen.ifs:
            cur = self.expr(cond, cur, frame)
            b, _ = self.step(cur, 'branch', cond, inst, test=cond, stmt=gen)
            skip.append((b, 'F'))
            cur = [(b, 'T')]
        if idx + 1 < len(e.generators):
            cur = self.comprehension(e, idx + 1, cur, frame)
        else:
            if isinstance(e, ast.DictComp):
                cur = self.expr(e.key, cur, frame)
                cur = self.expr(e.value, cur, frame)
            else:
                cur = self.expr(e.elt, cur, frame)
            n, cur = self.step(cur, 'yieldelt', e, inst, comp=e)
        self.connect(cur + skip, header, 'back')
        return [(header, 'F')]

    # ------------------------------------------------------------------ calls
    def call(self, c: ast.Call, fr: Frontier, frame: Frame, awaited: bool, await_node=None) -> Frontier:
        from .sym import resolve_callable_value
        inst = frame.inst
        if isinstance(c.func, ast.Attribute):
            fr = self.expr(c.func.value, fr, frame)
        elif not isinstance(c.func, ast.Name):
            fr = self.expr(c.func, fr, frame)
        for a in c.args:
            fr = self.expr(a, fr, frame)
        for k in c.keywords:
            fr = self.expr(k.value, fr, frame)
        if not fr:
            return fr
        env = FuncEnv.of(self.p, inst.unit)
        targets = env.resolve_call(c)
        # calls of parameters / closure variables bound to functions, lambdas or partials
        hov = None
        if all(t[0] == 'unknown' for t in targets) or any(t[0] == 'partial' for t in targets):
            hov = resolve_callable_value(self.p, c.func, inst)
        funcs = [t for t in targets if t[0] == 'func']
        has_proto = any(t[0] == 'proto' for t in targets)
        # ---- higher-order value
        if hov is not None:
            unit, binding_base, lexical, extra_args = hov
            return self.inline_or_opaque(c, unit, fr, frame, awaited, await_node, targets,
                                         pre_bound=binding_base, lexical=lexical, extra_pos=extra_args)
        # ---- Condition.wait_for(predicate): the predicate runs before and after every suspension
        ext = [t[1] for t in targets if t[0] == 'ext']
        if ext and ext[0].endswith('Condition.wait_for') and awaited:
            return self.wait_for(c, fr, frame, await_node, targets)
        if funcs and not has_proto:
            if len(funcs) == 1:
                return self.inline_or_opaque(c, funcs[0][1], fr, frame, awaited, await_node, targets,
                                             recv=funcs[0][2])
            outs: Frontier = []
            for f in funcs:
                outs += self.inline_or_opaque(c, f[1], fr, frame, awaited, await_node, targets, recv=f[2])
            return self._dedupe(outs)
        if funcs and has_proto:
            outs = []
            for f in funcs:
                outs += self.inline_or_opaque(c, f[1], fr, frame, awaited, await_node, targets, recv=f[2])
            outs += self.opaque(c, fr, frame, awaited, await_node, targets)
            return self._dedupe(outs)
        return self.opaque(c, fr, frame, awaited, await_node, targets)

    def opaque(self, c: ast.Call, fr: Frontier, frame: Frame, awaited: bool, await_node, targets,
               cut: Optional[FuncUnit] = None, coro: bool = False) -> Frontier:
        inst = frame.inst
        n, fr = self.step(fr, 'call', c, inst, targets=targets, awaited=awaited, inlined=False, cut=cut, coro=coro)
        ev = self.g.evs[n]
        if cut is not None:
            self.g.cut_calls.append(ev)
        if all(t[0] == 'unknown' for t in targets):
            self.g.unresolved.append(ev)
        if coro:
            return fr
        may_raise = self.policy.call_may_raise(self, c, targets, inst, awaited)
        ev.info['may_raise'] = may_raise
        if may_raise and not awaited:
            self.raise_to([(n, 'exc')], ('exc', None), frame)
        if awaited:
            a, fr = self.step(fr, 'await', await_node or c, inst, opaque=True, call=n, may_raise=may_raise)
            self.raise_to([(a, 'cancel')], ('cancel', None), frame)
            if may_raise:
                self.raise_to([(a, 'exc')], ('exc', None), frame)
        return fr

    def inline_or_opaque(self, c: ast.Call, unit: FuncUnit, fr: Frontier, frame: Frame, awaited: bool,
                         await_node, targets, recv=None, pre_bound=None, lexical=None, extra_pos=None) -> Frontier:
        inst = frame.inst
        if unit.is_async and not awaited:
            # coroutine object creation, no execution here
            return self.opaque(c, fr, frame, False, None, targets, coro=True)
        if inst.depth + 1 > self.max_depth or unit in inst.stack() or not self.policy.inline(unit):
            return self.opaque(c, fr, frame, awaited, await_node, targets, cut=unit)
        binding = self.bind(c, unit, inst, recv, pre_bound, extra_pos)
        callee = Inst(unit, inst, c, binding, lexical=lexical)
        n, fr = self.step(fr, 'call', c, inst, targets=targets, awaited=awaited, inlined=True, callee=callee)
        ff = FuncFrame(None, callee)
        entry, fr = self.step(fr, 'entry', unit.node, callee, call=n)
        out = self.body(unit, fr, ff)
        ret = self.new('ret', c, inst, call=n, callee=callee)
        self.connect(out, ret)
        self.connect(ff.returns, ret)
        self.g.evs[n].info['ret'] = ret
        for rfr, exc in ff.raises:
            self.raise_to(rfr, exc, frame)
        return [(ret, 'n')]

    def bind(self, c: ast.Call, unit: FuncUnit, inst: Inst, recv, pre_bound, extra_pos) -> Dict[str, Tuple]:
        a = unit.node.args
        params = [x.arg for x in getattr(a, 'posonlyargs', [])] + [x.arg for x in a.args]
        binding: Dict[str, Tuple] = dict(pre_bound or {})
        pos_params = [p for p in params if p not in binding]
        is_method = unit.cls is not None and not unit.is_static and unit.parent is None \
            and not isinstance(unit.node, ast.Lambda)
        if is_method and params and params[0] not in binding:
            first = params[0]
            if recv is not None:
                binding[first] = ('expr', recv, inst)
            else:
                binding[first] = ('unknown',)
            pos_params = [p for p in pos_params if p != first]
        args = list(extra_pos or []) + [('expr', x, inst) for x in c.args]
        i = 0
        for arg in args:
            if arg[0] == 'expr' and isinstance(arg[1], ast.Starred):
                # *args unpack: remaining positionals unknown
                for p in pos_params[i:]:
                    binding.setdefault(p, ('unknown',))
                i = len(pos_params)
                if a.vararg:
                    binding[a.vararg.arg] = ('expr', arg[1].value, arg[2])
                break
            if i < len(pos_params):
                binding[pos_params[i]] = arg
                i += 1
            elif a.vararg:
                binding.setdefault(a.vararg.arg, ('pack', []))
                if binding[a.vararg.arg][0] == 'pack':
                    binding[a.vararg.arg][1].append(arg)
        kwonly = [x.arg for x in a.kwonlyargs]
        for kw in c.keywords:
            if kw.arg is None:
                if a.kwarg:
                    binding[a.kwarg.arg] = ('expr', kw.value, inst)
                continue
            if kw.arg in params or kw.arg in kwonly:
                binding[kw.arg] = ('expr', kw.value, inst)
            elif a.kwarg:
                binding.setdefault(a.kwarg.arg, ('kwpack', {}))
                if binding[a.kwarg.arg][0] == 'kwpack':
                    binding[a.kwarg.arg][1][kw.arg] = ('expr', kw.value, inst)
        # defaults
        defaults = list(a.defaults)
        dparams = params[len(params) - len(defaults):] if defaults else []
        for pname, d in zip(dparams, defaults):
            binding.setdefault(pname, ('default', d, unit))
        for pname, d in zip(kwonly, a.kw_defaults):
            if d is not None:
                binding.setdefault(pname, ('default', d, unit))
        for pname in params + kwonly:
            binding.setdefault(pname, ('unknown',))
        return binding

    def wait_for(self, c: ast.Call, fr: Frontier, frame: Frame, await_node, targets) -> Frontier:
        """`await cond.wait_for(pred)`:  loop { r = pred(); if r: break; await wait() }"""
        from .sym import resolve_callable_value
        inst = frame.inst
        n, fr = self.step(fr, 'call', c, inst, targets=targets, awaited=True, inlined=False, waitfor=True)
        head = self.new('nop', c, inst, what='wait_for-head')
        self.connect(fr, head)
        pred_expr = c.args[0] if c.args else None
        cur: Frontier = [(head, 'n')]
        hov = resolve_callable_value(self.p, pred_expr, inst) if pred_expr is not None else None
        self.g.evs[n].info['pred'] = hov
        if hov is not None:
            unit, binding_base, lexical, extra = hov
            fake = ast.Call(func=pred_expr, args=[], keywords=[])
            ast.copy_location(fake, c)
            cur = self.inline_or_opaque(fake, unit, cur, frame, False, None,
                                        [('func', unit, None)], pre_bound=binding_base, lexical=lexical,
                                        extra_pos=extra)
        else:
            self.g.unresolved.append(self.g.evs[n])
        b, _ = self.step(cur, 'branch', c, inst, test=None, stmt=c, what='wait_for-pred')
        a, afr = self.step([(b, 'F')], 'await', await_node or c, inst, opaque=True, call=n, wait=True)
        self.raise_to([(a, 'cancel')], ('cancel', None), frame)
        self.connect(afr, head, 'back')
        return [(b, 'T')]


# ---------------------------------------------------------------------------------------------
# Path queries
# ---------------------------------------------------------------------------------------------

def reach(g: Graph, sources, avoid=(), labels=None, stop=()) -> set:
    """Nodes reachable from `sources` (exclusive of the sources unless re-reached) without entering
    nodes in `avoid`; `labels`: allowed edge labels (None = all); `stop`: nodes that are reached but
    not expanded."""
    avoid = set(avoid)
    stop = set(stop)
    seen = set()
    stack = []
    for s in sources:
        stack.append(s)
    started = set(sources)
    while stack:
        n = stack.pop()
        if n in stop and n not in started:
            continue
        for m, lab in g.succ.get(n, ()):
            if labels is not None and lab not in labels:
                continue
            if m in avoid or m in seen:
                continue
            seen.add(m)
            stack.append(m)
        started.discard(n)
    return seen


def find_path(g: Graph, src: int, dsts, avoid=(), labels=None) -> Optional[List[int]]:
    """Some path src -> one of dsts avoiding `avoid` (BFS, shortest)."""
    dsts = set(dsts)
    avoid = set(avoid)
    prev = {src: None}
    queue = [src]
    qi = 0
    while qi < len(queue):
        n = queue[qi]
        qi += 1
        for m, lab in g.succ.get(n, ()):
            if labels is not None and lab not in labels:
                continue
            if m in prev or m in avoid:
                continue
            prev[m] = n
            if m in dsts:
                path = [m]
                while prev[path[-1]] is not None:
                    path.append(prev[path[-1]])
                return list(reversed(path))
            queue.append(m)
    return None


def describe_path(g: Graph, path: List[int], limit: int = 14) -> List[str]:
    import os
    limit = int(os.environ.get('SA_PATH_LIMIT', limit))        # debugging aid: the whole path
    out = []
    interesting = [i for i in path if g.evs[i].kind in ('call', 'await', 'branch', 'return', 'raise', 'handler',
                                                         'fin', 'store', 'exit', 'rexit', 'entry', 'loop')]
    if len(interesting) > limit:
        interesting = interesting[:limit // 2] + [-1] + interesting[-limit // 2:]
    for i in interesting:
        if i == -1:
            out.append('...')
            continue
        ev = g.evs[i]
        out.append(f'{ev.where()} [{ev.kind}] {ev.text(70)}')
    return out
