"""LK-* (C13): nothing is left running after a run ends or is cancelled."""
from __future__ import annotations

import ast
from typing import Dict, List, Optional, Set, Tuple

from .. import sym
from ..cfg import Ev, Graph, reach
from ..engine import CHART_RUN, DAG_RUN, Ctx
from ..paths import ALL_LABELS, EXC_LABELS, NORMAL_LABELS, Search
from ..program import AnalysisError, FuncEnv, FuncUnit, dotted, unparse
from ..report import Collector
from ..roles import SPAWN_EXT, is_ext
from .common import after_event_search, loop_region, path_text, awaited_in_frame


def _registry_adds(ctx: Ctx, g: Graph, spawn: Ev) -> Dict[int, object]:
    """Events that put the task created by `spawn` into a container: `.add(x)` / `.append(x)` / `.appendleft(x)` /
    `.insert(i, x)` / `.setdefault(x, ..)` calls and item stores `c[x] = ..` / `c[..] = x`.  -> event id -> term of the container."""
    out: Dict[int, object] = {}

    def is_task(expr: ast.AST, inst) -> bool:
        e, i = sym.resolve_value(ctx.p, expr, inst)
        return e is spawn.node or (isinstance(e, ast.Await) and e.value is spawn.node)
    for ev in g.events('call'):
        c = ev.node
        if not (isinstance(c, ast.Call) and isinstance(c.func, ast.Attribute)
                and c.func.attr in ('add', 'append', 'appendleft', 'insert', 'setdefault') and c.args):
            continue
        recv = sym.term(ctx.p, c.func.value, ev.inst)
        if not (isinstance(recv, tuple) and recv[0] == 'attr'):
            continue
        arg = c.args[1] if c.func.attr == 'insert' and len(c.args) > 1 else c.args[0]
        if is_task(arg, ev.inst):
            out[ev.id] = recv
    for ev in g.events('store'):
        if ev.info.get('how') != 'item':
            continue
        tgt = ev.info['target']
        recv = sym.term(ctx.p, tgt.value, ev.inst)
        if not (isinstance(recv, tuple) and recv[0] == 'attr'):
            continue
        val = ev.info.get('value')
        if is_task(tgt.slice, ev.inst) or (val is not None and is_task(val, ev.inst)):
            out[ev.id] = recv
    return out


def registry_term(ctx: Ctx):
    """The container that run()'s cleanup cancels: term of the iterable of the cancel loop."""
    g = ctx.graph(ctx.manager_run().fid)
    for lp in cancel_loops(ctx, g):
        return sym.term(ctx.p, _iter_source(lp.info['iter'], lp.inst.unit), lp.inst)
    return None


def _fallback_registry(ctx: Ctx):
    mgr = ctx.manager_class()
    for m in mgr.methods.values():
        for n in ast.walk(m.node):
            if isinstance(n, ast.Call) and isinstance(n.func, ast.Attribute) and n.func.attr in ('add', 'append') \
                    and isinstance(n.func.value, ast.Attribute) and isinstance(n.func.value.value, ast.Name) \
                    and n.func.value.value.id == 'self' and 'task' in n.func.value.attr:
                return ('attr', ('param', 'self'), n.func.value.attr)
    return None


def _iter_source(e: ast.AST, unit=None) -> ast.AST:
    """The container a loop really walks: a filter / copy of it (`[t for t in X if ...]`, list(X), tuple(X), reversed(X),
    filter(p, X)) walks elements of X."""
    for _ in range(4):
        if isinstance(e, (ast.ListComp, ast.GeneratorExp, ast.SetComp)) and len(e.generators) == 1 \
                and isinstance(e.elt, ast.Name) and isinstance(e.generators[0].target, ast.Name) and e.elt.id == e.generators[0].target.id:
            e = e.generators[0].iter
        elif isinstance(e, ast.Call) and isinstance(e.func, ast.Name) and e.func.id in ('list', 'tuple', 'reversed', 'sorted', 'set', 'iter') and e.args:
            e = e.args[0]
        elif isinstance(e, ast.Call) and isinstance(e.func, ast.Name) and e.func.id == 'filter' and len(e.args) == 2:
            e = e.args[1]
        elif isinstance(e, ast.Name) and unit is not None and not isinstance(unit.node, ast.Lambda):
            # a local that holds such a filter / copy (`pending = [t for t in tasks if ...]; for t in pending: ...`)
            vals = [a.value for a in ast.walk(unit.node) if isinstance(a, (ast.Assign, ast.AnnAssign)) and a.value is not None
                    and any(isinstance(x, ast.Name) and x.id == e.id for x in (a.targets if isinstance(a, ast.Assign) else [a.target]))]
            if len(vals) == 1 and isinstance(vals[0], (ast.ListComp, ast.GeneratorExp, ast.SetComp, ast.Call)):
                e = vals[0]
            else:
                break
        else:
            break
    return e


def cancel_loops(ctx: Ctx, g: Graph) -> List[Ev]:
    """Loops whose body cancels the loop variable (Task.cancel())."""
    out = []
    for lp in g.events('loop'):
        if lp.info.get('comp') is not None:
            continue
        region = loop_region(g, lp)
        key = ('elem', sym.term(ctx.p, lp.info['iter'], lp.inst))
        for m in region:
            ev = g.evs[m]
            if is_ext(ev, 'Task.cancel') and ctx.roles.recv_term(ev) == key:
                out.append(lp)
                break
    return out


def rule_spawn_registered(ctx: Ctx, out: Collector) -> None:
    """LK-1: every task-creating primitive in the two packages registers the task (on every path) in
    the registry that run()'s cleanup cancels."""
    reg = registry_term(ctx)
    if reg is None:
        # no cancel-all loop in run() (LK-2 reports it): the registry is the container tasks are added to
        reg = _fallback_registry(ctx)
        if reg is None:
            raise AnalysisError('neither a cancel-all loop nor a task registry found (LK anchors vanished)')
    n = 0
    for unit in list(ctx.p.functions.values()):
        env = FuncEnv.of(ctx.p, unit)
        has = False
        for node in env.own_nodes():
            if isinstance(node, ast.Call):
                for t in env.resolve_call(node):
                    if t[0] == 'ext' and (t[1] in SPAWN_EXT or t[1].endswith('.create_task')):
                        has = True
        if not has:
            continue
        g = ctx.graph(unit.fid)
        for ev in g.events('call'):
            if not ctx.roles.spawn(ev) or ev.inst.parent is not None:
                continue
            n += 1
            adds = {a for a, recv in _registry_adds(ctx, g, ev).items() if recv == reg}
            path = after_event_search(ctx, g, ev.id, adds, {g.exit}, NORMAL_LABELS)
            cons = ctx.construct(ev) + ' [spawn registered]'
            if unit.cls is not ctx.manager_class():
                out.bad('LK-1', cons, ev.where(), 'a task is created outside the run manager: it is not in the registry that '
                                                  'the run cancels when it ends')
            elif path is None:
                out.ok('LK-1', cons, ev.where(), f'the created task is added to {sym.show(reg)} on every path')
            else:
                out.bad('LK-1', cons, ev.where(), f'a task is created but a path returns without adding it to {sym.show(reg)}: '
                                                  f'it keeps running after run() has returned or was cancelled',
                        path_text(g, path))
    if n == 0:
        raise AnalysisError('no task-creating primitive found (LK-1 positive fixture vanished)')
    out.count('spawn_primitives', n)
    _rule_registry_strong(ctx, out, reg)


STRONG_CONTAINERS = {'builtins.set', 'builtins.list', 'builtins.dict', 'collections.deque', 'collections.OrderedDict',
                     'collections.defaultdict'}


def _rule_registry_strong(ctx: Ctx, out: Collector, reg) -> None:
    """LK-7: the registry is what keeps a helper task (and the exception it ended with) alive until run() has scanned
    it: asyncio itself holds tasks weakly, so the registry must be a strong container."""
    mgr = ctx.manager_class()
    if not (isinstance(reg, tuple) and reg[0] == 'attr'):
        raise AnalysisError(f'task registry {sym.show(reg)} is not a field of the run manager (LK-7 anchor vanished)')
    fld = reg[2]
    cons = f'{mgr.module.name}::{mgr.name}.{fld}::the task registry holds strong references'
    makers: List[Tuple[str, ast.AST, object]] = []          # (description, expression, FuncEnv / None)
    f = ctx.p.lookup_field(mgr, fld)
    from ..program import ModuleEnv
    menv = ModuleEnv(ctx.p, mgr.module)
    if f is not None and f[2] is not None:
        default = f[2]
        if isinstance(default, ast.Call) and (dotted(default.func) or '').split('.')[-1] == 'field':
            for k in default.keywords:
                if k.arg == 'default_factory':
                    makers.append(('default_factory', k.value, menv))
                if k.arg == 'default':
                    makers.append(('default', k.value, menv))
        else:
            makers.append(('default', default, menv))
    for m in mgr.methods.values():
        env = FuncEnv.of(ctx.p, m)
        for node in env.own_nodes():
            if isinstance(node, (ast.Assign, ast.AnnAssign)):
                tgts = node.targets if isinstance(node, ast.Assign) else [node.target]
                for t in tgts:
                    if isinstance(t, ast.Attribute) and t.attr == fld and isinstance(t.value, ast.Name) and t.value.id == 'self' \
                            and node.value is not None:
                        makers.append((f'{m.name}', node.value, env))
    if not makers:
        raise AnalysisError(f'no initialisation of {fld} found (LK-7 anchor vanished)')
    problems = []
    kinds = []
    for how, expr, env in makers:
        fn = expr.func if isinstance(expr, ast.Call) and how != 'default_factory' else expr
        name = None
        if isinstance(expr, (ast.Set, ast.List, ast.Dict, ast.SetComp, ast.ListComp, ast.DictComp)) and how != 'default_factory':
            name = 'builtins.' + type(expr).__name__.replace('Comp', '').lower()
        else:
            t = env.type_of(fn)
            if t[0] == 'extsym':
                name = t[1]
            elif t[0] == 'type' and t[1][0] == 'ext':
                name = t[1][1]
            elif t[0] == 'type' and t[1][0] == 'class':
                name = t[1][1].qualname
            else:
                d = dotted(fn) or unparse(fn)
                res = ctx.p.resolve_global(mgr.module, d.split('.')[0]) if d else ('unknown',)
                name = {'set': 'builtins.set', 'list': 'builtins.list', 'dict': 'builtins.dict'}.get(d, None)
                if name is None and res[0] == 'module':
                    name = f'{res[1]}.{".".join(d.split(".")[1:])}'
                if name is None and res[0] == 'ext':
                    name = res[1]
        kinds.append(f'{how}: {name}')
        if name is None:
            raise AnalysisError(f'cannot classify the container {unparse(expr)} of the task registry (LK-7)')
        if name.startswith('weakref.') or 'Weak' in name.split('.')[-1]:
            problems.append(f'{how} creates {name}')
        elif name not in STRONG_CONTAINERS:
            raise AnalysisError(f'unknown container {name} for the task registry (LK-7): neither a builtin strong container nor a weak one')
    # ER-8: run() reports the first failed task in the iteration order of the registry; that order must not depend on
    # the addresses of the task objects (hash order of a set), or identical runs report different errors
    cons8 = f'{mgr.module.name}::{mgr.name}.{fld}::the task registry iterates in creation order [ordered-registry]'
    unordered = [k for k in kinds if k.split(': ')[-1] in ('builtins.set', 'builtins.frozenset')]
    if not unordered:
        out.ok('ER-8', cons8, ctx.p.loc(mgr.module, mgr.node), '; '.join(kinds))
    else:
        out.bad('ER-8', cons8, ctx.p.loc(mgr.module, mgr.node),
                f'the registry scanned for the first error is an unordered container ({"; ".join(unordered)}): tasks hash by address, so '
                f'when two nodes have failed before run() looks, which error the run reports depends on the allocation history of the '
                f'process - the same chart with the same input returns different errors from run to run')
    if not problems:
        out.ok('LK-7', cons, ctx.p.loc(mgr.module, mgr.node), '; '.join(kinds))
    else:
        out.bad('LK-7', cons, ctx.p.loc(mgr.module, mgr.node),
                f'the registry of run tasks holds them weakly ({"; ".join(problems)}): a helper task referenced by nothing else is '
                f'collected as soon as it ends, so its exception is never seen by the error scan of run() (the failure is lost and '
                f'run() waits forever) and a pending one is destroyed instead of cancelled')


def rule_run_cleanup(ctx: Ctx, out: Collector) -> None:
    """LK-2: once run() has spawned, every exit of run() (return, exception, cancellation) passes the
    cancel-all loop over the whole registry.  LK-3: the loop cancels every task that is not done."""
    g = ctx.graph(ctx.manager_run().fid)
    loops = cancel_loops(ctx, g)
    if not loops:
        if not any(ctx.roles.spawn(ev) for ev in g.events('call')):
            raise AnalysisError('run() neither spawns nor cancels (LK-2 anchors vanished)')
        out.bad('LK-2', f'{g.root.module.name}::{g.root.qualname}::every exit after the root spawn cancels the registry',
                g.evs[g.entry].where(), 'run() spawns tasks but contains no loop that cancels the registered tasks: whatever is still '
                                        'running when run() returns, fails or is cancelled keeps running on the loop')
        return
    reg = sym.term(ctx.p, loops[0].info['iter'], loops[0].inst)
    barrier = {lp.id for lp in loops if sym.term(ctx.p, lp.info['iter'], lp.inst) == reg}
    goals = {g.exit, g.rexit['exc'], g.rexit['cancel']}
    n = 0
    for ev in g.events('call'):
        if not ctx.roles.spawn(ev):
            continue
        n += 1
        path = after_event_search(ctx, g, ev.id, barrier, goals, ALL_LABELS)
        cons = f'{g.root.module.name}::{g.root.qualname}::every exit after the root spawn cancels the registry'
        if path is None:
            out.ok('LK-2', cons, g.evs[g.entry].where(), 'return, exception and cancellation of run() all pass the cancel-all loop')
        else:
            last = g.evs[path[-1]]
            out.bad('LK-2', cons, ev.where(),
                    f'run() can end ({last.kind} {last.info.get("exc", "")}) after it has spawned tasks without cancelling the '
                    f'registry: the tasks keep running on the loop', path_text(g, path))
    if n == 0:
        raise AnalysisError('run() spawns nothing (LK-2 anchor vanished)')
    # the registry handed to the cancel loop is the one tasks are added to
    # LK-3
    for lp in loops:
        tsucc = [m for m, lab in g.succ[lp.id] if lab == 'T']
        region = loop_region(g, lp)
        key = ('elem', sym.term(ctx.p, lp.info['iter'], lp.inst))
        cancels = {m for m in region if is_ext(g.evs[m], 'Task.cancel') and ctx.roles.recv_term(g.evs[m]) == key}
        cons = ctx.construct(lp, lp.node, f'for {unparse(lp.info["target"])} in {unparse(lp.info["iter"])}: cancel if not done')
        leaves = [g.evs[m] for m in region if g.evs[m].kind in ('break', 'return', 'raise') and g.evs[m].inst is lp.inst]
        if leaves:
            out.bad('LK-3', cons, lp.where(), f'the cancel-all loop can stop early ({leaves[0].kind} at {leaves[0].where()}): '
                                              f'the remaining tasks are never cancelled')
            continue
        s = Search(ctx.p, g, NORMAL_LABELS)

        def estep(prev, lab, e, state, facts, key=key):
            # state 1: the path established that the task is done / cancelled
            if prev is not None and prev.kind == 'branch' and prev.info.get('test') is not None and lab in ('T', 'F'):
                if _implies_done(ctx, prev.info['test'], lab == 'T', prev.inst, key):
                    return 1
            if e.id in cancels:
                return None
            return state

        res = s.run([(t, 0, frozenset()) for t in tsucc], None, lambda e, st, f: e.id == lp.id and st == 0, edge_step=estep)
        if res is None:
            out.ok('LK-3', cons, lp.where(), 'every iteration cancels the task unless it is already done')
        else:
            out.bad('LK-3', cons, lp.where(), 'an iteration of the cancel-all loop can skip a task that is still running',
                    path_text(g, res[0]))


def _implies_done(ctx: Ctx, test: ast.AST, pol: bool, inst, key) -> bool:
    """The outcome `pol` of `test` holds only if the task `key` is done or cancelled (helpers are seen through)."""
    return _implies_done_term(sym.term(ctx.p, test, inst), pol, key)


def _implies_done_term(t, pol: bool, key) -> bool:
    if not isinstance(t, tuple) or not t:
        return False
    if t[0] == 'not':
        return _implies_done_term(t[1], not pol, key)
    if t[0] in ('and', 'or'):
        every = (t[0] == 'or') == pol          # or-true / and-false: every operand must imply it
        vals = [_implies_done_term(x, pol, key) for x in t[1]]
        return all(vals) if every else any(vals)
    if t[0] == 'call' and isinstance(t[1], str) and t[1] == 'ext:builtins.bool' and t[2]:
        return _implies_done_term(t[2][0], pol, key)
    if pol and t[0] == 'call' and isinstance(t[1], str) and t[1].split('.')[-1] in ('done', 'cancelled') and t[2] and t[2][0] == key:
        return True
    return False


def _cleanup_nodes(unit: FuncUnit) -> Set[int]:
    """ids of AST nodes inside `finally` bodies and inside handlers that catch cancellation."""
    out: Set[int] = set()
    for n in ast.walk(unit.node):
        if isinstance(n, ast.Try):
            for st in n.finalbody:
                for x in ast.walk(st):
                    out.add(id(x))
            for h in n.handlers:
                names = []
                if h.type is None:
                    names = ['BaseException']
                else:
                    for t in (h.type.elts if isinstance(h.type, ast.Tuple) else [h.type]):
                        names.append((dotted(t) or '').split('.')[-1])
                if any(x in ('BaseException', 'CancelledError') for x in names):
                    for st in h.body:
                        for x in ast.walk(st):
                            out.add(id(x))
    return out


def rule_cleanup_starts_nothing(ctx: Ctx, out: Collector) -> None:
    """LK-4: cleanup code (finally bodies, handlers that can catch cancellation) starts no work:
    no task creation, no node code, no collaborator call, no sleep."""
    graphs = dict(ctx.run_graphs())
    graphs[CHART_RUN] = ctx.graph(CHART_RUN, depth=max(ctx.depth, 10))
    cache: Dict[int, Set[int]] = {}
    seen = set()
    n = 0
    for fid, g in graphs.items():
        for ev in g.evs:
            if ev.kind not in ('fin', 'handler'):
                continue
        for ev in g.events('call'):
            # is ev inside cleanup code of its own or of an enclosing activation?
            inst = ev.inst
            node = ev.node
            owner = None
            while inst is not None:
                cn = cache.get(id(inst.unit))
                if cn is None:
                    cn = _cleanup_nodes(inst.unit)
                    cache[id(inst.unit)] = cn
                if id(node) in cn:
                    owner = inst.unit
                    break
                node = inst.call
                inst = inst.parent
                if node is None:
                    break
            if owner is None:
                continue
            n += 1
            what = None
            if ctx.roles.spawn(ev):
                what = 'creates a task'
            elif ctx.roles.foreign(ev):
                what = f'calls {ctx.roles.foreign(ev)} code'
            elif ctx.roles.sleep(ev):
                what = 'sleeps'
            if what is None:
                continue
            # collaborator calls in the *chart's* error handler are the documented completion event
            if owner.fid == CHART_RUN and ctx.roles.collab(ev) == 'event':
                continue
            cons = f'{owner.module.name}::{owner.qualname}::cleanup {what}: {ev.text(60)}'
            if cons in seen:
                continue
            seen.add(cons)
            out.bad('LK-4', cons, ev.where(), f'cleanup code of {owner.qualname} {what} ({ev.text(60)}): work is started while '
                                              f'the run is ending or being cancelled')
    cons = 'run path::cleanup code starts no work'
    out.count('cleanup_calls_examined', n)
    if not seen:
        out.ok('LK-4', cons, '', f'{n} calls inside finally bodies / cancellation handlers examined: none creates a task, runs '
                                 f'node or collaborator code or sleeps')
    if n == 0:
        raise AnalysisError('no cleanup code found on the run path (LK-4 anchor vanished)')


def rule_cancellation_surfaces(ctx: Ctx, out: Collector) -> None:
    """LK-5: no handler on the run path catches cancellation (BaseException / CancelledError / bare)
    without re-raising it; LK-6: no asyncio.shield, executor futures are awaited where created."""
    graphs = dict(ctx.run_graphs())
    graphs[CHART_RUN] = ctx.graph(CHART_RUN, depth=max(ctx.depth, 10))
    graphs[DAG_RUN] = ctx.graph(DAG_RUN)
    seen = set()
    handlers = 0
    for fid, g in graphs.items():
        for h in g.events('handler'):
            cons = ctx.construct(h, h.node.type if h.node.type is not None else h.node, None if h.node.type is not None else 'except:') \
                + ' [handler]'
            if cons in seen:
                continue
            seen.add(cons)
            handlers += 1
            catches_cancel = any(lab == 'cancel' for _, lab in g.pred.get(h.id, ()))
            # also syntactically: class names
            names = []
            if h.node.type is None:
                names = ['<bare>']
            else:
                for t in (h.node.type.elts if isinstance(h.node.type, ast.Tuple) else [h.node.type]):
                    names.append((dotted(t) or unparse(t)).split('.')[-1])
            syntactic = any(x in ('<bare>', 'BaseException', 'CancelledError') for x in names)
            if not (catches_cancel or syntactic):
                out.ok('LK-5', cons, h.where(), f'catches {", ".join(names)} only: cancellation passes through')
                continue
            # does every path from the handler re-raise?
            ends = reach(g, [h.id], labels=('n', 'T', 'F', 'back'))
            # the handler's own function goes on normally: it returns (or its inlined activation returns to the caller), falls
            # out of the try statement, or the task root exits - returns of helpers called *inside* the handler are not that
            def leaves_normally(e_) -> bool:
                if e_.kind == 'exit':
                    return True
                if e_.kind == 'return':
                    return e_.inst is h.inst
                if e_.kind == 'ret':
                    return e_.info.get('callee') is h.inst
                return e_.info.get('what') == 'after-try' and e_.inst is h.inst
            swallow = [m for m in ends if leaves_normally(g.evs[m])]
            if swallow:
                out.bad('LK-5', cons, h.where(), f'a handler on the run path catches cancellation ({", ".join(names)}) and does '
                                                 f'not re-raise it on every path: cancelling the run does not surface as '
                                                 f'CancelledError / the task keeps running')
            else:
                out.ok('LK-5', cons, h.where(), 'catches cancellation but always re-raises')
        for ev in g.events('call'):
            names = [t[1] for t in ev.info.get('targets', ()) if t[0] == 'ext']
            if 'asyncio.shield' in names:
                cons = ctx.construct(ev) + ' [shield]'
                if cons not in seen:
                    seen.add(cons)
                    out.bad('LK-6', cons, ev.where(), 'asyncio.shield detaches work from the cancellation of the run')
            if any(x.endswith('.run_in_executor') for x in names):
                cons = ctx.construct(ev) + ' [executor future awaited]'
                if cons not in seen:
                    seen.add(cons)
                    if awaited_in_frame(ctx, g, ev):
                        out.ok('LK-6', cons, ev.where(), 'the executor future is awaited in the frame that created it')
                    else:
                        out.bad('LK-6', cons, ev.where(), 'the executor future is detached from the frame that created it')
    if handlers < 3:
        raise AnalysisError(f'only {handlers} exception handlers found on the run path (LK-5 anchors vanished)')
