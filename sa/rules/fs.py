"""FS-* (C18 filesystem artifact store) and AS-* (C19 what the engine saves)."""
from __future__ import annotations

import ast
from typing import Dict, List, Optional, Set, Tuple

from .. import sym
from ..cfg import Ev, Graph, reach
from ..engine import Ctx
from ..guards import guards, parents, text
from ..paths import EXC_LABELS, Search
from ..program import AnalysisError, ClassInfo, FuncEnv, FuncUnit, dotted, unparse
from ..report import Collector
from .common import marker_fact, path_text, publishes

# stdlib facts (frozen): what kind of stream each serialisation primitive writes / reads
DUMP_KIND = {'pickle.dump': 'binary', 'json.dump': 'text', 'marshal.dump': 'binary', 'yaml.dump': 'text',
             'yaml.safe_dump': 'text'}
IO_KIND = {'io.BytesIO': 'binary', 'io.StringIO': 'text'}


def _store_class(ctx: Ctx) -> ClassInfo:
    for ci in ctx.p.classes_by_name.get('FileSystemArtifactStore', []):
        return ci
    raise AnalysisError('FileSystemArtifactStore not found')


def _serializers(ctx: Ctx) -> List[ClassInfo]:
    out = []
    for ci in ctx.p.classes.values():
        # the concrete serializers: classes of the module that have (or inherit) dump and leave nothing abstract
        if not ci.module.name.endswith('artifact_store.serializers') or ci.name == 'Serializer' or ctx.p.lookup_method(ci, 'dump') is None:
            continue
        abstract = set()
        for c in reversed([x for x in ctx.p.mro(ci) if isinstance(x, ClassInfo)]):
            for name, m in c.methods.items():
                if 'abstractmethod' in m.decorators:
                    abstract.add(name)
                else:
                    abstract.discard(name)
        if not abstract:
            out.append(ci)
    if len(out) < 2:
        raise AnalysisError('serializer classes not found')
    return out


def _unwrap(unit: FuncUnit) -> ast.AST:
    return unit.node


def rule_mode_agreement(ctx: Ctx, out: Collector) -> None:
    """FS-1: each serializer is handed a file opened in the mode its dump / load needs."""
    p = ctx.p
    st = _store_class(ctx)
    kinds = {}
    for ci in _serializers(ctx):
        dump = p.lookup_method(ci, 'dump')
        kind = None
        own_and_inherited = [m_ for c_ in p.mro(ci) if isinstance(c_, ClassInfo) for m_ in c_.methods.values()]
        for m_ in own_and_inherited:
            # the primitive may sit in a hook the (inherited) dump calls
            if p.lookup_method(ci, m_.name) is not m_:
                continue
            for n in ast.walk(m_.node):
                if isinstance(n, ast.Call):
                    d = dotted(n.func) or ''
                    if d in DUMP_KIND:
                        kind = DUMP_KIND[d]
        io_kind = None
        gio = p.lookup_method(ci, 'get_default_io')
        if gio is not None:
            for n in ast.walk(gio.node):
                if isinstance(n, ast.Call) and (dotted(n.func) or '') in IO_KIND:
                    io_kind = IO_KIND[dotted(n.func)]
        declared = None
        f = ci.fields.get('is_binary')
        if f is None:
            lf = p.lookup_field(ci, 'is_binary')
            f = (lf[1], lf[2]) if lf is not None else None
        if f is not None and isinstance(f[1], ast.Constant):
            declared = 'binary' if f[1].value else 'text'
        cons = f'{ci.module.name}::{ci.name}::stream kind of dump agrees with its declaration'
        if kind is None:
            raise AnalysisError(f'{ci.qualname}.dump: serialisation primitive not recognised')
        kinds[ci.name] = kind
        problems = []
        if io_kind is not None and io_kind != kind:
            problems.append(f'get_default_io is {io_kind} but dump writes {kind}')
        if declared is not None and declared != kind:
            problems.append(f'is_binary declares {declared} but dump writes {kind}')
        if not problems:
            out.ok('FS-1', cons, p.loc(dump, dump.node), f'dump writes {kind}' + (f', declared {declared}' if declared else ''))
        else:
            out.bad('FS-1', cons, p.loc(dump, dump.node), '; '.join(problems) + ': the store opens the file in the wrong mode for this format')
    # the store: the mode each serializer's file is opened with - decided in the file-system worlds, where a dump / load on a file
    # of the other kind raises TypeError as the real primitives do (whatever helpers compute the mode)
    from .fw import decide_laws
    laws, counts, keys_, fmts = decide_laws(ctx)
    mismatches = sorted({x for law in ('round trip', 'failed save', 'write once') for x in laws[law] if 'TypeError' in x})
    for mname in ('save', 'load'):
        m = st.methods.get(mname)
        if m is None:
            raise AnalysisError(f'FileSystemArtifactStore.{mname} not found')
        cons = f'{m.module.name}::{m.qualname}::open mode follows the serializer\'s stream kind'
        mine = [x for x in mismatches if (mname == 'save') == ('load gives' not in x)]
        if not mismatches:
            out.ok('FS-1', cons, p.loc(m, m.node), f'save / load of every format ({", ".join(fmts)}) opens its file in the kind the serializer '
                   f'needs: {counts["round trip"]} round trips in the file-system worlds, no TypeError')
        else:
            out.bad('FS-1', cons, p.loc(m, m.node), f'FileSystemArtifactStore.{mname}: ' + '; '.join((mine or mismatches)[:3])
                    + ': dump/load raises TypeError for that format')


def _mode_values(m: FuncUnit, mode: Optional[ast.AST]) -> Optional[Dict[str, str]]:
    """kind -> mode string.  Recognises a constant, or a variable bound by
    `mode, ... = (<b-mode>, ...) if <x>.is_binary else (<t-mode>, ...)` (or a plain conditional)."""
    if mode is None:
        return {'binary': 'r', 'text': 'r'}
    if isinstance(mode, ast.Constant) and isinstance(mode.value, str):
        return {'binary': mode.value, 'text': mode.value}
    if isinstance(mode, ast.IfExp):
        return _ifexp_modes(mode, None)
    if isinstance(mode, ast.Name):
        for n in ast.walk(m.node):
            if isinstance(n, ast.Assign):
                tgt = n.targets[0]
                if isinstance(tgt, ast.Name) and tgt.id == mode.id:
                    return _mode_values(m, n.value)
                if isinstance(tgt, ast.Tuple):
                    for i, e in enumerate(tgt.elts):
                        if isinstance(e, ast.Name) and e.id == mode.id and isinstance(n.value, ast.IfExp):
                            return _ifexp_modes(n.value, i)
    return None


def _mode_by_interpretation(ctx: Ctx, m: FuncUnit, mode: ast.AST) -> Optional[Dict[str, str]]:
    """kind -> mode string by abstract interpretation of the expression (and of the local definitions / helper
    methods it goes through) with the serializer's is_binary fixed to True / False."""
    from ..absint import AObj, Interp, Oracle, TOP, enumerate_outcomes
    p = ctx.p
    env0 = FuncEnv.of(p, m)
    defs = env0.local_defs()
    pm = parents(m.node)

    def serializer_like(name: str) -> bool:
        t = env0.name_type(name)
        if t[0] == 'class':
            return p.lookup_field(t[1], 'is_binary') is not None or p.lookup_method(t[1], 'is_binary') is not None
        return False

    def run_for(flag: bool):
        def run(oracle: Oracle):
            interp = Interp(p, oracle)
            self_obj = AObj(m.cls, {}) if m.cls is not None else None
            env = {'__unit__': m, '__module__': m.module, '__closure__': None, '__self__': self_obj}
            if self_obj is not None and m.params():
                env[m.params()[0]] = self_obj
            busy = set()

            def value_of(name: str):
                if name in env:
                    return env[name]
                if name in busy:
                    raise AnalysisError(f'cyclic definition of {name}')
                busy.add(name)
                ds = defs.get(name) or []
                if serializer_like(name):
                    v = AObj(env0.name_type(name)[1], {'is_binary': flag})
                elif len(ds) == 1 and ds[0][0] == 'assign':
                    v = ev(ds[0][1])
                elif len(ds) == 1 and ds[0][0] == 'unpack' and ds[0][1] == 'assign':
                    v = ev(ds[0][2])
                    for i in ds[0][3]:
                        if not isinstance(v, (tuple, list)) or i >= len(v):
                            raise AnalysisError(f'cannot unpack the definition of {name}')
                        v = v[i]
                else:
                    v = TOP
                busy.discard(name)
                env[name] = v
                return v

            def ev(expr):
                for n in ast.walk(expr):
                    if isinstance(n, ast.Name) and isinstance(n.ctx, ast.Load) and n.id in defs and n.id not in env:
                        value_of(n.id)
                return interp.eval(expr, env)
            return ev(mode)
        outs = enumerate_outcomes(run)
        vals = {o[1] for o in outs if o[0] == 'value'}
        if len(vals) != 1 or any(o[0] != 'value' for o in outs):
            return None
        v = next(iter(vals))
        return v if isinstance(v, str) else None
    try:
        b, t = run_for(True), run_for(False)
    except AnalysisError:
        return None
    if b is None or t is None:
        return None
    return {'binary': b, 'text': t}


def _ifexp_modes(e: ast.IfExp, idx: Optional[int]) -> Optional[Dict[str, str]]:
    def pick(x):
        if idx is not None and isinstance(x, ast.Tuple) and idx < len(x.elts):
            x = x.elts[idx]
        return x.value if isinstance(x, ast.Constant) and isinstance(x.value, str) else None
    t = unparse(e.test)
    a, b = pick(e.body), pick(e.orelse)
    if a is None or b is None:
        return None
    if 'is_binary' in t and not t.startswith('not '):
        return {'binary': a, 'text': b}
    if 'is_binary' in t:
        return {'binary': b, 'text': a}
    if 'PICKLE' in t:
        return {'binary': a, 'text': b} if '==' in t else {'binary': b, 'text': a}
    return None


def rule_rollback(ctx: Ctx, out: Collector) -> None:
    """FS-2: a save that fails while the value is being serialised leaves the key absent (and may be repeated), and leaves every
    other key as it was.  Decided over the file-system worlds (fw.py): `save` interpreted with a serializer that raises."""
    from .fw import report_laws
    report_laws(ctx, out, 'FS-2', ['failed save'], 'a failed dump removes the created file',
                'a save whose serializer raises does not leave the key absent - the key is not loadable and can never be saved again')


def rule_exact_key(ctx: Ctx, out: Collector) -> None:
    """FS-3: the node id is an exact key - what is saved under a key is found under that key and under no other (ids that are
    prefixes of each other, contain glob characters, a format suffix, or look like a hidden / scratch name of another id).
    FS-4: the existence test comes first and raises the documented errors: a second save is refused and leaves the value, a key
    never saved is reported absent.  Both decided over the file-system worlds (fw.py)."""
    from .fw import report_laws
    report_laws(ctx, out, 'FS-3', ['round trip'], 'look-up name == save name',
                'what is saved under a key is not what is loaded under it')
    report_laws(ctx, out, 'FS-3', ['no aliasing'], 'the node id never reaches a glob pattern',
                'distinct keys alias each other (a key finds, blocks or destroys the artifact of another key)')
    report_laws(ctx, out, 'FS-4', ['write once', 'shared directory'], 'save: existence test first, raising ArtifactAlreadyExists',
                'a second save under an existing key is not refused with ArtifactAlreadyExists, or changes the stored value')
    report_laws(ctx, out, 'FS-4', ['absent'], 'load: existence test first, raising ArtifactDoesNotExist',
                'load of a key that was never saved does not raise ArtifactDoesNotExist')


def _normalise_template(n: ast.JoinedStr) -> str:
    parts = []
    for v in n.values:
        if isinstance(v, ast.Constant):
            parts.append(str(v.value))
        elif isinstance(v, ast.FormattedValue):
            t = unparse(v.value)
            parts.append('{fmt}' if 'fmt' in t or 'format' in t.lower() else '{' + t + '}')
    return ''.join(parts)


# ---------------------------------------------------------------------------------------------
# AS: what the engine hands to the artifact store
# ---------------------------------------------------------------------------------------------

def _saved_for(ctx: Ctx, sv: Ev, gs, key_expr: Optional[ast.AST], val_expr: Optional[ast.AST]) -> Dict[str, object]:
    """For each class of published value (None, falsy, truthy, Recurrent marker, exception object): is the save reached?
    The guard conditions of the save are interpreted in a world where the store holds that value for the node and the saved
    expression evaluates to it.  -> class -> True (always) / False (never) / 'sometimes'."""
    from ..absint import AObj, ARaise, Interp, Oracle, TOP, enumerate_outcomes, value_token
    from .st import _abstract_world, _dag_class
    unit = sv.inst.unit
    fenv = FuncEnv.of(ctx.p, unit)
    dcls = _dag_class(ctx)
    val_names = {n.id for n in ast.walk(val_expr) if isinstance(n, ast.Name)} if val_expr is not None else set()
    key_names = {n.id for n in ast.walk(key_expr) if isinstance(n, ast.Name)} if key_expr is not None else set()
    res: Dict[str, object] = {}
    for vc in ('NONE', 'FALSY', 'TRUTHY', 'REC', 'EXC'):
        def run(oracle: Oracle, vc=vc):
            value = value_token(ctx.p, vc)
            mgr, storage, adag = _abstract_world(ctx, {'node_results': {'N': ('visible', value)},
                                                       'processed_nodes': {'N': ('visible', None)}}, dag_nodes=('N',), dest='N')
            env = {'__unit__': unit, '__closure__': None, '__module__': unit.module, '__self__': mgr}
            for name in fenv.local_defs():
                t = fenv.name_type(name)
                if name == 'self':
                    env[name] = mgr
                elif t[0] == 'class' and t[1] is dcls:
                    env[name] = adag
                elif name in val_names:
                    env[name] = value
                elif name in key_names:
                    env[name] = 'N'
                else:
                    env[name] = TOP
            interp = Interp(ctx.p, oracle)
            for e, pol in gs:
                try:
                    v = interp.truth(interp.eval(e, env))
                except ARaise:
                    return False
                if v != pol:
                    return False
            return True
        outs = {o[1] for o in enumerate_outcomes(run) if o[0] == 'value'}
        res[vc] = True if outs == {True} else (False if outs == {False} else 'sometimes')
    return res


def rule_saves(ctx: Ctx, out: Collector) -> None:
    """AS-1: a Recurrent marker / a contained failure is never saved.  AS-2: only the owner of an execution
    saves, and a value that a re-iteration can supersede is not saved immediately.  AS-3: what is saved is
    what is published."""
    n = 0
    seen = set()
    from .on import _marks
    for fid, g in ctx.run_graphs().items():
        saves = [ev for ev in g.events('call') if ctx.roles.collab(ev) == 'store' and ev.inst.unit.cls is ctx.manager_class()]
        pubs = publishes(ctx, g, ['node_results'])
        marks = _marks(ctx, g)
        for sv in saves:
            c = sv.node
            cons_base = ctx.construct(sv)
            if cons_base in seen:
                continue
            seen.add(cons_base)
            n += 1
            key = sym.term(ctx.p, c.args[0], sv.inst) if c.args else None
            val_expr = c.args[1] if len(c.args) > 1 else None
            val = sym.term(ctx.p, val_expr, sv.inst) if val_expr is not None else None
            # ---- AS-3
            same = [pb for pb in pubs if pb.key == key and pb.value == val]
            cons = cons_base + ' [saved (id, value) == published (id, value)]'
            if same:
                out.ok('AS-3', cons, sv.where(), f'{sym.show(key)}, {sym.show(val)}')
            else:
                out.bad('AS-3', cons, sv.where(), 'the artifact store receives a node id / value different from the one published to the '
                                                  'consumers')
            # ---- AS-1 / AS-6: the conditions under which the save is reached, evaluated for every class of published value
            gs = guards(sv.inst.unit.node, c)
            saved_for = _saved_for(ctx, sv, gs, c.args[0] if c.args else None, val_expr)
            cons = cons_base + ' [never a Recurrent marker]'
            if not saved_for['REC']:
                out.ok('AS-1', cons, sv.where(), 'the save is not reached for a Recurrent marker')
            else:
                out.bad('AS-1', cons, sv.where(), f'{sym.show(val)} is saved without excluding a Recurrent marker: an intermediate marker '
                                                  f'becomes the node\'s artifact, and with a write-once store the later final value is rejected')
            cons = cons_base + ' [never a contained failure]'
            if not saved_for['EXC']:
                out.ok('AS-1', cons, sv.where(), 'the save is not reached for an exception object')
            else:
                out.bad('AS-1', cons, sv.where(), f'{sym.show(val)} is saved without excluding exception objects: inside a one-of dag the '
                                                  f'contained failure of a losing candidate is saved as the node\'s artifact')
            cons = cons_base + ' [every final value is saved]'
            lost = [k for k in ('NONE', 'FALSY', 'TRUTHY') if saved_for[k] is not True]
            if not lost:
                out.ok('AS-6', cons, sv.where(), 'None, falsy and truthy final values all reach the save')
            else:
                names = {'NONE': 'None', 'FALSY': 'a falsy value (0, empty)', 'TRUTHY': 'an ordinary value'}
                out.bad('AS-6', cons, sv.where(), 'the condition guarding the save is false for ' + ', '.join(names[k] for k in lost)
                        + ': a node that was executed and whose consumers received that value has no artifact')
            # ---- AS-2: owner only
            barrier = {m_.ev.id for m_ in marks if m_.key == key}
            s = Search(ctx.p, g, EXC_LABELS)

            def step(e, st_, f, barrier=barrier):
                if e.id in barrier:
                    return None
                return 0
            res = s.run([(g.entry, 0, frozenset())], step, lambda e, st_, f, sv=sv: e.id == sv.id)
            cons = cons_base + ' [saved by the owner of the execution only]'
            if res is None:
                out.ok('AS-2', cons, sv.where(), 'every path to the save marked the node as processed')
            else:
                out.bad('AS-2', cons, sv.where(), 'the save is also reached by a second arrival (a scope that did not execute the node): the '
                                                  'node is saved twice and a write-once store fails the run', path_text(g, res[0]))
            # ---- AS-4: the save happens before the run can be told that the node is finished
            from .common import notify_points
            run_pts = [n_ for n_, k_, how_ in notify_points(ctx, g) if k_ == ('const', 'run')]
            after_notify = reach(g, run_pts, labels=EXC_LABELS) if run_pts else set()
            cons = cons_base + ' [saved before the run waiter is notified]'
            if sv.id in after_notify:
                out.bad('AS-4', cons, sv.where(), 'the artifact is saved only after the run waiter (and the consumers) were notified: run() can '
                                                  'return and cancel this task before the save happens, so an executed node - typically the '
                                                  'output node - is never saved although the run succeeds')
            else:
                out.ok('AS-4', cons, sv.where(), 'no notification of the run waiter precedes the save')
            # ---- AS-2b: immediate save although results can be re-armed
            from .common import hides
            can_rearm = any(fld == 'node_results' for _, fld, _k in hides(ctx, g)) or any(
                fld == 'node_results' for gg in ctx.run_graphs().values() for _, fld, _k in hides(ctx, gg))
            cons = cons_base + ' [not saved before the value is final]'
            if can_rearm:
                out.bad('AS-2', cons, sv.where(), 'every result is saved immediately, but a recurrent re-iteration re-arms and re-executes the '
                                                  'nodes of the subgraph: each of them is saved once per iteration, so any recurrent pipeline '
                                                  'fails with a write-once store (ArtifactAlreadyExists)')
            else:
                out.ok('AS-2', cons, sv.where(), 'results are never re-armed')
    if n == 0:
        raise AnalysisError('no artifact save found on the run path (AS anchors vanished)')


def rule_format_from_name(ctx: Ctx, out: Collector) -> None:
    """FS-7: the format of a found artifact is read off the file name the store wrote - also for ids for which pathlib's notion of
    a suffix is not the inverse of the template (`.pickle` for the id '', ids with dots).  Decided over the file-system worlds: the
    round trip of the keys '', 'a.b', 'a.pickle', '.X'."""
    from .fw import decide_laws, _store
    laws, counts, keys_, fmts = decide_laws(ctx)
    st = _store(ctx)
    dotted_keys = [k for k in keys_ if k == '' or '.' in k]
    bad = sorted({x for x in laws['round trip'] if any(x.startswith(f'key {k!r},') for k in dotted_keys)})
    cons = f'{st.module.name}::{st.name}::the format of a found artifact is read off the file name, not off Path.suffix [format-from-name]'
    where = ctx.p.loc(st.module, st.node)
    if not dotted_keys:
        raise AnalysisError('file-system worlds without a dotted / empty key (FS-7 anchor vanished)')
    if not bad:
        out.ok('FS-7', cons, where, f'round trip of {dotted_keys} in every format')
    else:
        out.bad('FS-7', cons, where, 'a key whose file name pathlib does not split like the template `<id>.<format>` is saved (a second save is '
                'refused) but cannot be loaded: ' + '; '.join(bad[:3]))
