"""Recurrent worlds: the driver of a recurrent subgraph (the coroutine that re-runs the subgraph while its destination keeps
asking) is interpreted over scripted subgraph runs.  The driver, the storage, the sub-dag construction and the unlocking helpers
are interpreted as written; replaced are

  <run the sub-dag>(dag=...)           follows the script of the scenario: per run a Recurrent marker with new data, a final value,
                                       or "a node of the subgraph failed" (an exception object appears in the result store)
  <run a node>(..., force_default=True) logs the request for the destination's default and publishes the DEFAULT token
  the lock manager                     logs who is notified

Rules (C11 "bounded re-execution; consumers see only the final result"):
  RC-1   the subgraph is run at most max_iterations times, each time with the data of the marker that asked for it
  RC-4   when the iterations are exhausted the destination yields its default under use_default - in every kind of dag - and
         otherwise the documented RecurrentSubgraphDoesNotHaveResultError: raised (after waking run()) in a plain dag, stored as
         the destination's contained failure with its waiters notified in a one-of dag
  RC-8   the hand-over entry of the start node is gone when the driver has finished regularly
  RC-11  (semantic twin) the running mark is released when the driver has finished regularly; a second request while it is
         running does nothing
"""
from __future__ import annotations

import ast
from typing import Any, Dict, List, Optional, Tuple

from ..absint import AClass, AExt, AObj, ARaise, Interp, Oracle, TOP, enumerate_outcomes, make_storage
from ..engine import Ctx
from ..program import AnalysisError, ClassInfo, FuncEnv, FuncUnit
from ..report import Collector


def _driver(ctx: Ctx):
    from .oo import _iteration_loops, _runs_launch_loop
    from .common import loop_region
    from ..paths import EXC_LABELS
    for fid, g in ctx.run_graphs().items():
        for lp in _iteration_loops(ctx, g):
            if lp.inst.parent is not None:
                continue
            region = loop_region(g, lp, labels=EXC_LABELS)
            runners = [g.evs[m].info['callee'].unit for m in sorted(region) if g.evs[m].kind == 'call' and g.evs[m].info.get('inlined')
                       and g.evs[m].info.get('callee') is not None and _runs_launch_loop(ctx, g, g.evs[m])]
            forced = []
            for ev in g.events('call'):
                c = ev.node
                if isinstance(c, ast.Call) and ev.info.get('callee') is not None and any(
                        k.arg and 'default' in k.arg and isinstance(k.value, ast.Constant) and k.value.value is True for k in c.keywords):
                    forced.append(ev.info['callee'].unit)
            if runners:
                return g.root, runners[0], (forced[0] if forced else None)
    # the iterations are not a `for ... in range(...)`: the task root that reads the bound of the destination off the graph and
    # runs a sub-dag in its own activation
    for fid, g in ctx.run_graphs().items():
        root = g.root
        if root.cls is not ctx.manager_class() or not any(isinstance(n, ast.Attribute) and n.attr == 'max_iterations' for n in ast.walk(root.node)):
            continue
        runners = [ev.info['callee'].unit for ev in g.events('call') if ev.inst.parent is None and ev.info.get('inlined')
                   and ev.info.get('callee') is not None and _runs_launch_loop(ctx, g, ev)]
        forced = []
        for ev in g.events('call'):
            c = ev.node
            if isinstance(c, ast.Call) and ev.info.get('callee') is not None and any(
                    k.arg and 'default' in k.arg and isinstance(k.value, ast.Constant) and k.value.value is True for k in c.keywords):
                forced.append(ev.info['callee'].unit)
        if runners:
            return root, runners[0], (forced[0] if forced else None)
    raise AnalysisError('the driver of a recurrent subgraph (iteration loop running a sub-dag) was not found (RC anchors vanished)')


class Scenario:
    def __init__(self, script, use_default: bool, is_oneof: bool, max_iterations: int = 3, pre_active: bool = False) -> None:
        self.script = script          # per run of the sub-dag: 'again' | 'value' | 'error'
        self.use_default, self.is_oneof, self.max_iterations, self.pre_active = use_default, is_oneof, max_iterations, pre_active


def observe(ctx: Ctx, sc: Scenario) -> Dict[str, Any]:
    p = ctx.p
    driver, run_dag, run_node = _driver(ctx)
    mgr_cls, st_cls = ctx.manager_class(), ctx.storage_class()
    rec_cls = next((ci for ci in p.classes_by_name.get('Recurrent', []) if ci.module.name.startswith('ml_pipeline_engine')), None)
    dag_cls = next((ci for ci in p.classes_by_name.get('DiGraph', []) if ci.module.name.startswith('ml_pipeline_engine')), None)
    if rec_cls is None or dag_cls is None:
        raise AnalysisError('Recurrent / DiGraph class not found (RC anchors vanished)')
    captured: Dict[str, Any] = {}

    def run(oracle: Oracle):
        log: Dict[str, list] = {'runs': [], 'default': [], 'notify': [], 'handed': []}
        captured.clear()
        captured.update({'log': log, 'outcome': None})
        interp0 = Interp(p, oracle)
        menv = {'__module__': mgr_cls.module, '__unit__': None, '__closure__': None}
        k_start = interp0.eval(ast.parse('NodeField.start_node', mode='eval').body, menv)
        k_max = interp0.eval(ast.parse('NodeField.max_iterations', mode='eval').body, menv)
        nodes = {'I': {}, 'S': {}, 'M': {}, 'D': {k_start: 'S', k_max: sc.max_iterations}, 'C': {}}
        edges = {('I', 'S'): {}, ('S', 'M'): {}, ('M', 'D'): {}, ('D', 'C'): {}}
        graph = AObj(('ext', 'networkx.DiGraph'), {'nodes': nodes, 'edges': edges, 'graph': {'name': 'main'}}, tag='graph')
        dest_cls = AObj(('ext', 'NodeClass'), {'use_default': sc.use_default, 'name': 'd'}, tag='D-class')
        storage = make_storage(p, st_cls, {})
        the_dag = AObj(('ext', 'DAG'), {'graph': graph, 'node_map': {'D': dest_cls, 'S': TOP, 'M': TOP, 'C': TOP, 'I': TOP}, 'input_node': 'I',
                                        'output_node': 'C'}, tag='DAG')
        from .common import lock_world
        lock, lock_stubs = lock_world(ctx, lambda kind, name: log['notify'].append((kind, name)))
        ext = {}
        mgr = AObj(mgr_cls, {'dag': the_dag, 'ctx': TOP, '_lock_manager': lock, '_alias_run_method': 'run'}, tag='manager')
        for name, (ann, default) in mgr_cls.fields.items():
            t_ = p.ann_to_type(ann, mgr_cls.module) if ann is not None else None
            if t_ and t_[0] == 'class' and t_[1] is st_cls:
                mgr.attrs[name] = storage
            elif t_ and t_[0] == 'seq':
                mgr.attrs[name] = [] if 'List' in ast.unparse(ann) or 'list' in ast.unparse(ann) else set()
            elif t_ and t_[0] == 'dict':
                mgr.attrs[name] = {}
        outer = AObj(dag_cls, {'nodes': ['S', 'M', 'D', 'C'], 'dest': 'C', 'source': 'I', 'is_oneof': sc.is_oneof, 'is_recurrent': False,
                               'is_nested_oneof': False}, tag='outer-dag')
        counter = {'n': 0}
        data_of = lambda i: AObj(('ext', 'Value'), {}, tag=f'data-{i}')      # noqa: E731
        first_marker = AObj(rec_cls, {'data': data_of(0)}, tag='marker-0')
        final = AObj(('ext', 'Value'), {}, tag='final-value')
        default = AObj(('ext', 'Value'), {}, tag='DEFAULT')
        captured.update({'storage': storage, 'mgr': mgr, 'final': final, 'default': default})
        api_pub = None

        def set_result(key, value):
            from ..absint import hidden_dict_api
            hd = storage.attrs['node_results']
            Interp(p, Oracle()).call_unit(hidden_dict_api(p, hd.cls)['publish'], [key, value], {}, hd)

        def run_dag_stub(interp, a, k, s_):
            sub = k.get('dag', a[0] if a else None)
            i = counter['n']
            counter['n'] += 1
            if i > 20:
                raise _Endless()
            handed = {kk: dict(v) if isinstance(v, dict) else v for kk, v in mgr.attrs.items() if 'additional' in kk}
            log['runs'].append({'nodes': sorted(sub.attrs['nodes']) if isinstance(sub, AObj) and 'nodes' in sub.attrs else None,
                                'recurrent': sub.attrs.get('is_recurrent') if isinstance(sub, AObj) else None,
                                'oneof': sub.attrs.get('is_oneof') if isinstance(sub, AObj) else None,
                                'handed': handed})
            step = sc.script[min(i, len(sc.script) - 1)]
            if step == 'error':
                # the real run of a recurrent sub-dag re-arms (hides) its nodes first; then M fails and D is never reached
                from ..absint import hidden_dict_api
                hd = storage.attrs['node_results']
                Interp(p, Oracle()).call_unit(hidden_dict_api(p, hd.cls)['hide'], ['D'], {}, hd)
                set_result('M', AObj(('ext', 'builtins.ValueError'), {'args': ()}, tag='EXC'))
                return None
            if step == 'again':
                m = AObj(rec_cls, {'data': data_of(i + 1)}, tag=f'marker-{i + 1}')
                set_result('D', m)
                return m
            set_result('D', final)
            return final

        def run_node_stub(interp, a, k, s_):
            log['default'].append({kk: (vv if not isinstance(vv, AObj) else vv.tag) for kk, vv in k.items()})
            set_result(k.get('node_id', a[1] if len(a) > 1 else None), default)
            return None
        stubs = {run_dag.fid: run_dag_stub, **lock_stubs}
        if run_node is not None:
            stubs[run_node.fid] = run_node_stub
        interp = Interp(p, oracle, stubs=stubs, ext_stubs=ext)
        # the destination has just returned the first marker
        set_result('D', first_marker)
        if sc.pre_active:
            from .ha import _tuple_key_methods
            acq, _rel = _tuple_key_methods(ctx)
            for fid_ in acq:
                interp.call_unit(p.functions[fid_], ['S', 'D'], {}, storage)
        params = driver.params()[1:]
        env = FuncEnv.of(p, driver)
        kwargs = {}
        for pn in params:
            t_ = env.name_type(pn)
            if t_[0] == 'class' and t_[1] is rec_cls:
                kwargs[pn] = first_marker
            elif t_[0] == 'class' and t_[1] is dag_cls:
                kwargs[pn] = outer
            else:
                kwargs[pn] = 'D'
        try:
            interp.call_unit(driver, [], kwargs, mgr)
        except _Endless:
            captured['outcome'] = ('endless',)
            return None
        except ARaise as ex:
            captured['outcome'] = ('raise', ex.what)
            raise
        captured['outcome'] = ('returns',)
        return None
    outs = enumerate_outcomes(run)
    if len(outs) != 1:
        return {'undecided': f'{len(outs)} outcomes'}
    return dict(captured)


class _Endless(BaseException):
    pass


def _present(hd: AObj, key) -> Optional[Any]:
    return hd.attrs['data'].get(key)


def rule_recurrent_worlds(ctx: Ctx, out: Collector) -> None:
    from ..absint import presence_of
    driver, run_dag, run_node = _driver(ctx)
    p = ctx.p
    base = f'{driver.module.name}::{driver.qualname}'
    where = p.loc(driver, driver.node)
    problems: Dict[str, List[str]] = {'RC-1': [], 'RC-4': [], 'RC-8': [], 'RC-11': []}
    table: Dict[str, str] = {}

    def obs(label, sc):
        o = observe(ctx, sc)
        if 'undecided' in o:
            raise AnalysisError(f'recurrent world "{label}": {o["undecided"]}')
        st = o['storage']
        res = _present(st.attrs['node_results'], 'D')
        table[label] = f'{o["outcome"]}; {len(o["log"]["runs"])} run(s); default requests {len(o["log"]["default"])}; D holds {getattr(res, "tag", res)!r}'
        return o

    def regular_end(o, label):
        st, mgr = o['storage'], o['mgr']
        if ('S', 'D') in st.attrs['processed_nodes'].attrs['data'] or any(isinstance(k, tuple) for k in st.attrs['processed_nodes'].attrs['data']):
            problems['RC-11'].append(f'{label}: the running mark of the subgraph is still set when the driver has finished')
        for kk, v in mgr.attrs.items():
            if 'additional' in kk and isinstance(v, dict) and v:
                problems['RC-8'].append(f'{label}: the hand-over entry {sorted(map(str, v))} is still set when the driver has finished')

    # ---- one more iteration, then a final value
    o = obs('one re-iteration, then a value', Scenario(['value'], use_default=False, is_oneof=False))
    runs = o['log']['runs']
    if len(runs) != 1 or o['outcome'] != ('returns',):
        problems['RC-1'].append(f'the destination asked once: the subgraph is run {len(runs)} time(s), the driver {o["outcome"]}')
    else:
        r0 = runs[0]
        if r0['nodes'] != ['D', 'M', 'S']:
            problems['RC-1'].append(f'the re-executed sub-dag consists of {r0["nodes"]}, declared S -> M -> D')
        if r0['recurrent'] is not True:
            problems['RC-1'].append('the re-executed sub-dag is not flagged recurrent (its processed nodes would be skipped)')
        handed = [v for d in r0['handed'].values() if isinstance(d, dict) for v in d.values()]
        if [getattr(x, 'tag', x) for x in handed] != ['data-0']:
            problems['RC-1'].append(f'the run is handed {[getattr(x, "tag", x) for x in handed]}, the marker carried data-0')
    regular_end(o, 'one re-iteration, then a value')
    # ---- the destination keeps asking
    for oneof in (False, True):
        for use_default in (False, True):
            kind = 'one-of dag' if oneof else 'plain dag'
            label = f'keeps asking, {kind}, use_default={use_default}'
            o = obs(label, Scenario(['again'], use_default=use_default, is_oneof=oneof, max_iterations=3))
            runs = o['log']['runs']
            if o['outcome'] == ('endless',) or len(runs) != 3:
                problems['RC-1'].append(f'{label}: max_iterations=3, the subgraph is run {len(runs)} time(s)')
            else:
                tags = [[getattr(x, 'tag', x) for d in r['handed'].values() if isinstance(d, dict) for x in d.values()] for r in runs]
                if tags != [['data-0'], ['data-1'], ['data-2']]:
                    problems['RC-1'].append(f'{label}: the runs are handed {tags}; every run must get the data of the marker that asked for it')
            st = o['storage']
            res = _present(st.attrs['node_results'], 'D')
            if use_default:
                if len(o['log']['default']) != 1 or o['outcome'] != ('returns',) or res is not o['default']:
                    problems['RC-4'].append(f'{label}: the default is requested {len(o["log"]["default"])} time(s), the driver {o["outcome"]}, '
                                            f'the destination holds {getattr(res, "tag", res)!r} (must be its default value)')
                elif o['log']['default'][0].get('force_default') is not True:
                    problems['RC-4'].append(f'{label}: the node is run again without force_default')
            else:
                if o['log']['default']:
                    problems['RC-4'].append(f'{label}: the default is produced although the node does not opt in')
                if oneof:
                    ok = o['outcome'] == ('returns',) and isinstance(res, AObj) and 'RecurrentSubgraphDoesNotHaveResult' in res.tag \
                        and any(n_ == 'unlock_condition' and k_ == 'D' for n_, k_ in o['log']['notify']) \
                        and any(n_ == 'unlock_condition' and k_ == 'C' for n_, k_ in o['log']['notify'])
                    if not ok:
                        problems['RC-4'].append(f'{label}: the driver {o["outcome"]}, the destination holds {getattr(res, "tag", res)!r}, notified '
                                                f'{sorted({str(k_) for n_, k_ in o["log"]["notify"]})} (must store the documented error as the '
                                                f'contained failure and notify the destination\'s waiters and consumers)')
                else:
                    ok = o['outcome'][0] == 'raise' and 'RecurrentSubgraphDoesNotHaveResult' in o['outcome'][1] \
                        and any(n_ == 'unlock_condition' and k_ == 'run' for n_, k_ in o['log']['notify'])
                    if not ok:
                        problems['RC-4'].append(f'{label}: the driver {o["outcome"]}, notified {sorted({str(k_) for n_, k_ in o["log"]["notify"]})} '
                                                f'(must wake run() and raise RecurrentSubgraphDoesNotHaveResultError)')
            if o['outcome'] == ('returns',):
                regular_end(o, label)
    # ---- the bound itself: 0, 1 and 2 re-executions allowed, the destination keeps asking
    for bound in (0, 1, 2):
        label = f'keeps asking, max_iterations={bound}, use_default'
        o = obs(label, Scenario(['again'], use_default=True, is_oneof=False, max_iterations=bound))
        runs = o['log']['runs']
        if o['outcome'] == ('endless',) or len(runs) != bound:
            problems['RC-1'].append(f'{label}: the subgraph is run {len(runs)} time(s)')
        res = _present(o['storage'].attrs['node_results'], 'D')
        if len(o['log']['default']) != 1 or res is not o['default']:
            problems['RC-4'].append(f'{label}: the default is requested {len(o["log"]["default"])} time(s), the destination holds {getattr(res, "tag", res)!r}')
    # ---- a second request while the subgraph is running
    o = obs('second request while running', Scenario(['value'], use_default=False, is_oneof=False, pre_active=True))
    if o['log']['runs']:
        problems['RC-11'].append('a second request for a running subgraph runs it again')
    titles = {
        'RC-1': ('the subgraph is re-run at most max_iterations times, each run with the data of the marker that asked for it [recurrent world]',
                 'the re-execution of the subgraph is not what the declaration says'),
        'RC-4': ('exhaustion: the default under use_default in every kind of dag, else the documented error [recurrent world]',
                 'when the iterations are exhausted the destination does not get the documented outcome'),
        'RC-8': ('the hand-over entry is removed when the subgraph has finished [recurrent world]',
                 'the additional_data of a finished subgraph stays behind for the next execution of the start node'),
        'RC-11': ('the running mark is released on every regular completion [recurrent world]',
                  'the subgraph stays marked as running: later requests for it are dropped and the run hangs'),
    }
    for rid, (title, consequence) in titles.items():
        cons = f'{base}::{title}'
        if not problems[rid]:
            out.ok(rid, cons, where, f'{len(table)} scripted worlds', table=table if rid == 'RC-4' else {})
        else:
            out.bad(rid, cons, where, f'{consequence}: ' + '; '.join(sorted(set(problems[rid]))[:3]), table=table,
                    props={'C11', 'C02'} if rid == 'RC-11' else None)


def error_exit_worlds(ctx: Ctx) -> Tuple[FuncUnit, List[str], Dict[str, str]]:
    """RC-9 over worlds: a re-iteration fails (an error appears in the store of a node of the subgraph).  Afterwards the destination
    has an outcome its consumers can see (a visible result, its waiters notified) or the driver raised."""
    from ..absint import presence_of
    driver, run_dag, run_node = _driver(ctx)
    problems, table = [], {}
    for oneof in (False, True):
        label = f'a re-iteration fails, {"one-of" if oneof else "plain"} dag'
        o = observe(ctx, Scenario(['error'], use_default=False, is_oneof=oneof))
        if 'undecided' in o:
            raise AnalysisError(f'recurrent world "{label}": {o["undecided"]}')
        hd = o['storage'].attrs['node_results']
        state = presence_of(hd, 'D', ctx.p)
        table[label] = f'the driver {o["outcome"]}; the destination\'s result is {state}'
        if not (o['outcome'] and o['outcome'][0] == 'raise') and state != 'visible':
            problems.append(f'{label}: the driver {o["outcome"][0] if o["outcome"] else "?"}, the destination\'s result is {state}')
    return driver, problems, table
