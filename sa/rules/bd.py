"""BD-* / VL-* (C15 faithful translation, C16 rejection of bad declarations) and the builder side of the
switch / one-of / recurrent constructs (SW-6, OO-2b, OO-3, RC-5)."""
from __future__ import annotations

import ast
from typing import Dict, List, Optional, Set, Tuple

from ..engine import Ctx
from ..guards import always_leaves, guards, parents, text
from ..program import AnalysisError, ClassInfo, FuncEnv, FuncUnit, dotted, unparse
from ..report import Collector


_TUPLE_CONSTS: Dict[str, ast.Tuple] = {}
_MOD_CONSTS: Dict[str, Dict[str, ast.Tuple]] = {}


def _module_tuple_consts(mod) -> Dict[str, ast.Tuple]:
    cached = getattr(mod, '_sa_tuple_consts', None)
    if cached is None:
        saved = dict(_TUPLE_CONSTS)
        _load_tuple_consts(mod)
        cached = dict(_TUPLE_CONSTS)
        _TUPLE_CONSTS.clear()
        _TUPLE_CONSTS.update(saved)
        mod._sa_tuple_consts = cached
    return cached


def _expanded_text(e: ast.AST, mod) -> str:
    """Text of a guard with module-level tuple constants replaced by the display they name."""
    consts = _module_tuple_consts(mod)
    if not consts or not any(isinstance(n, ast.Name) and n.id in consts for n in ast.walk(e)):
        return text(e)
    import copy

    class Sub(ast.NodeTransformer):
        def visit_Name(self, node):
            if isinstance(node.ctx, ast.Load) and node.id in consts:
                return copy.deepcopy(consts[node.id])
            return node
    return text(ast.fix_missing_locations(Sub().visit(copy.deepcopy(e))))


def _helper_bodies(ctx: Ctx, unit: FuncUnit, e: ast.AST, depth: int = 0) -> str:
    """Text of the expressions that predicate helpers called in a guard stand for (`self._is_x(n)` -> its single
    return expression), so that a condition moved into a helper reads like the condition itself."""
    from .. import sym
    if depth > 2:
        return ''
    out = []
    env = FuncEnv.of(ctx.p, unit)
    for c in ast.walk(e):
        if isinstance(c, ast.Call):
            try:
                tg = env.resolve_call(c)
            except Exception:
                continue
            for t in tg:
                if t[0] == 'func':
                    ret = sym.simple_return(t[1])
                    if ret is not None:
                        out.append(f' [= {_expanded_text(ret, t[1].module)}{_helper_bodies(ctx, t[1], ret, depth + 1)}]')
    return ''.join(out)


def _load_tuple_consts(mod) -> None:
    """NAME = (ClassA, ClassB, ...) at module level, assigned once: usable wherever the display itself is."""
    _TUPLE_CONSTS.clear()
    counts: Dict[str, int] = {}
    for st in mod.tree.body:
        tg = None
        if isinstance(st, ast.Assign) and len(st.targets) == 1 and isinstance(st.targets[0], ast.Name):
            tg, val = st.targets[0].id, st.value
        elif isinstance(st, ast.AnnAssign) and isinstance(st.target, ast.Name) and st.value is not None:
            tg, val = st.target.id, st.value
        if tg is None:
            continue
        counts[tg] = counts.get(tg, 0) + 1
        if isinstance(val, ast.Tuple) and all(isinstance(e, (ast.Name, ast.Attribute)) for e in val.elts):
            _TUPLE_CONSTS[tg] = val
    for n in ast.walk(mod.tree):
        if isinstance(n, ast.Global):
            for nm in n.names:
                _TUPLE_CONSTS.pop(nm, None)
    for nm, c in counts.items():
        if c > 1:
            _TUPLE_CONSTS.pop(nm, None)


def _builder_class(ctx: Ctx) -> ClassInfo:
    for ci in ctx.p.classes.values():
        if ci.module.name.endswith('dag_builders.annotation.builder') and 'build' in ci.methods:
            _load_tuple_consts(ci.module)
            return ci
    raise AnalysisError('annotation builder class not found')


def _mark_classes(ctx: Ctx) -> Dict[str, ClassInfo]:
    out = {}
    for ci in ctx.p.classes.values():
        if ci.module.name.endswith('dag_builders.annotation.marks') and ci.name.endswith('Mark'):
            out[ci.name] = ci
    if len(out) < 4:
        raise AnalysisError('mark classes not found')
    return out


def _isinstance_names(test: ast.AST, var: Optional[str] = None) -> List[str]:
    out = []
    for n in ast.walk(test):
        if isinstance(n, ast.Call) and isinstance(n.func, ast.Name) and n.func.id == 'isinstance' and len(n.args) == 2:
            if var is not None and not (isinstance(n.args[0], ast.Name) and n.args[0].id == var):
                continue
            second = n.args[1]
            if isinstance(second, ast.Name) and second.id in _TUPLE_CONSTS:
                second = _TUPLE_CONSTS[second.id]          # module-level constant naming the classes
            elts = second.elts if isinstance(second, ast.Tuple) else [second]
            for e in elts:
                d = dotted(e)
                if d:
                    out.append(d.split('.')[-1])
    return out


def _reads_annotations(ctx: Ctx, m: FuncUnit, depth: int = 3) -> bool:
    """m, or a helper of the builder it calls, reads the annotations of a run method"""
    b = _builder_class(ctx)
    for n in ast.walk(m.node):
        if isinstance(n, ast.Attribute) and n.attr == '__annotations__':
            return True
        if isinstance(n, ast.Constant) and n.value == '__annotations__':
            return True
        if isinstance(n, ast.Call) and (dotted(n.func) or '').split('.')[-1] in ('get_type_hints', 'get_annotations', 'signature'):
            return True
    if depth:
        for n in ast.walk(m.node):
            if isinstance(n, ast.Call) and isinstance(n.func, ast.Attribute) and n.func.attr in b.methods and n.func.attr != m.name \
                    and _reads_annotations(ctx, b.methods[n.func.attr], depth - 1):
                return True
    return False


def _marks_map_function(ctx: Ctx) -> FuncUnit:
    """The marks reader, by its role: the builder method whose result the traversal uses (assigns / iterates) and that -
    itself or through helpers - reads the annotations of the node's run method."""
    b = _builder_class(ctx)
    trav = _traverse_unit(ctx)
    stmts_only = {id(st.value) for st in ast.walk(trav.node) if isinstance(st, ast.Expr)}
    for n in ast.walk(trav.node):
        if isinstance(n, ast.Call) and id(n) not in stmts_only and isinstance(n.func, ast.Attribute) and n.func.attr in b.methods:
            m = b.methods[n.func.attr]
            if m is not trav and _reads_annotations(ctx, m):
                return m
    raise AnalysisError('marks-map function (annotations -> marks) not found')


def _marks_verdicts(ctx: Ctx, mm: FuncUnit, marks: Dict[str, ClassInfo]) -> Tuple[Set[str], Set[str]]:
    from ..absint import AObj, Interp, Oracle, TOP, enumerate_outcomes
    p = ctx.p
    b = _builder_class(ctx)
    accepted: Set[str] = set()
    rejected: Set[str] = set()
    for name, ci in sorted(marks.items()):
        mark = AObj(ci, {}, tag=f'mark:{name}')

        def run(oracle: Oracle, mark=mark):
            run_method = AObj(('ext', 'function'), {'__annotations__': {'p': mark, 'return': TOP}}, tag='run-method')
            stubs = {}
            for u in p.functions.values():
                if u.parent is None and u.cls is None and u.name == 'get_callable_run_method':
                    stubs[u.fid] = lambda interp, a, k, s_: run_method
            hints = lambda a, k: {'p': mark, 'return': TOP}      # noqa: E731
            interp = Interp(p, oracle, stubs=stubs, ext_stubs={'typing.get_type_hints': hints, 'inspect.get_annotations': hints})
            n = AObj(('ext', 'Node'), {'process': run_method})
            res = interp.call_unit(mm, [n], {}, None if mm.is_static else AObj(b, {}))
            return any(isinstance(x, tuple) and len(x) == 2 and x[1] is mark for x in interp._to_list(res))
        outs = enumerate_outcomes(run)
        kinds = {(o[0], o[1] if o[0] == 'value' else None) for o in outs}
        if kinds == {('value', True)}:
            accepted.add(name)
        elif kinds and all(k_ == 'raise' for k_, _ in kinds):
            rejected.add(name)
    return accepted, rejected


def _traverse_unit(ctx: Ctx) -> FuncUnit:
    b = _builder_class(ctx)
    best = None
    for m in b.methods.values():
        n_is = sum(1 for n in ast.walk(m.node) if isinstance(n, ast.If) and _isinstance_names(n.test))
        if n_is >= 3 and any(isinstance(n, ast.While) for n in ast.walk(m.node)):
            best = m
    if best is None:
        # the body of the worklist loop may be a method of its own: the loop method with that body spliced back in
        from ..norm import inline_view

        def n_is_of(m_) -> int:
            return sum(1 for n in ast.walk(m_.node) if isinstance(n, ast.If) and _isinstance_names(n.test))
        for m in b.methods.values():
            for w in [n for n in ast.walk(m.node) if isinstance(n, ast.While)]:
                for st in ast.walk(w):
                    if isinstance(st, ast.Expr) and isinstance(st.value, ast.Call) and isinstance(st.value.func, ast.Attribute) \
                            and isinstance(st.value.func.value, ast.Name) and st.value.func.value.id == 'self' \
                            and st.value.func.attr in b.methods and n_is_of(b.methods[st.value.func.attr]) >= 3:
                        view, spliced = inline_view(ctx.p, m, {id(st)})
                        if spliced:
                            return view
    if best is None:
        raise AnalysisError('traversal function (worklist over marks) not found')
    return best


def _traverse_function(ctx: Ctx) -> FuncUnit:
    best = _traverse_unit(ctx)
    # mark branches that were outlined into methods (`if isinstance(mark, X): self._add_x(...)`) are spliced back
    from ..norm import inline_view
    only = set()
    for n in ast.walk(best.node):
        if isinstance(n, ast.If) and _isinstance_names(n.test) and not n.orelse:
            body = [s_ for s_ in n.body if not (isinstance(s_, ast.Expr) and isinstance(s_.value, ast.Constant))]
            if body and all(isinstance(s_, ast.Expr) and isinstance(s_.value, ast.Call) and isinstance(s_.value.func, ast.Attribute)
                            and isinstance(s_.value.func.value, ast.Name) and s_.value.func.value.id == 'self' for s_ in body) \
                    and len(body) == 1:
                only |= {id(s_) for s_ in body}
    if not only:
        return best
    view, spliced = inline_view(ctx.p, best, only)
    if spliced:
        note = f'traversal analysed with outlined mark branches spliced in: {sorted(set(spliced))}'
        if note not in ctx.notes:
            ctx.notes.append(note)
    return view


def _branches(ctx: Ctx, trav: FuncUnit) -> Tuple[ast.For, str, str, Dict[str, ast.If]]:
    """The `for idx, (kwarg_name, mark) in enumerate(marks)` loop and its isinstance branches."""
    for n in ast.walk(trav.node):
        if isinstance(n, ast.For):
            names = [x.id for x in ast.walk(n.target) if isinstance(x, ast.Name)]
            ifs = [s for s in n.body if isinstance(s, ast.If) and _isinstance_names(s.test)]
            if len(ifs) >= 3 and len(names) >= 2:
                mark_var = None
                for s in ifs:
                    for c in ast.walk(s.test):
                        if isinstance(c, ast.Call) and isinstance(c.func, ast.Name) and c.func.id == 'isinstance':
                            mark_var = c.args[0].id if isinstance(c.args[0], ast.Name) else None
                kw_var = [x for x in names if x != mark_var and x not in ('idx', 'i', '_')]
                kw_var = kw_var[0] if kw_var else None
                br = {}
                for s in ifs:
                    for nm in _isinstance_names(s.test, mark_var):
                        br[nm] = s
                return n, mark_var, kw_var, br
    raise AnalysisError('mark dispatch loop not found in the traversal function')


def _current_node_var(trav: FuncUnit) -> str:
    for n in ast.walk(trav.node):
        if isinstance(n, ast.Assign) and isinstance(n.value, ast.Call) and isinstance(n.value.func, ast.Attribute) \
                and n.value.func.attr in ('pop', 'popleft') and isinstance(n.targets[0], ast.Name):
            return n.targets[0].id
    raise AnalysisError('worklist pop not found in the traversal function')


def _edge_calls(body: List[ast.stmt], top_only: bool = False) -> List[ast.Call]:
    out = []
    nodes = []
    if top_only:
        for st in body:
            if isinstance(st, ast.Expr) and isinstance(st.value, ast.Call):
                nodes.append(st.value)
    else:
        for st in body:
            for n in ast.walk(st):
                if isinstance(n, ast.Call):
                    nodes.append(n)
    for c in nodes:
        if isinstance(c.func, ast.Attribute) and (c.func.attr in ('add_edge',) or 'pair' in c.func.attr or 'add_switch' in c.func.attr):
            out.append(c)
    return out


def _kw_dict(c: ast.Call) -> Dict[str, ast.AST]:
    """**{EdgeField.x: v} / x=v keywords of a call -> {'x': v}"""
    out = {}
    for k in c.keywords:
        if k.arg is None and isinstance(k.value, ast.Dict):
            for kk, vv in zip(k.value.keys, k.value.values):
                if isinstance(kk, ast.Attribute):
                    out[kk.attr] = vv
                elif isinstance(kk, ast.Constant):
                    out[str(kk.value)] = vv
        elif k.arg is not None:
            out[k.arg] = k.value
    return out


def rule_marks(ctx: Ctx, out: Collector) -> None:
    """BD-1 / VL-5: the set of mark classes the marks-map accepts equals the set of branches of the
    traversal; every mark class of marks.py is either accepted or rejected."""
    marks = _mark_classes(ctx)
    mm = _marks_map_function(ctx)
    trav = _traverse_function(ctx)
    # decided by interpreting the reader on a run method with one parameter annotated with an object of the class: the
    # (name, mark) pair comes back (accepted), the reader raises (rejected), or the parameter is dropped
    accepted, rejected = _marks_verdicts(ctx, mm, marks)
    loop, mark_var, kw_var, br = _branches(ctx, trav)
    handled = set(br)
    cons = f'{mm.module.name}::{mm.qualname}::accepted marks == translated marks'
    if accepted == handled and accepted:
        out.ok('BD-1', cons, ctx.p.loc(mm, mm.node), f'{sorted(accepted)}')
    else:
        out.bad('BD-1', cons, ctx.p.loc(mm, mm.node),
                f'the marks accepted by the marks-map ({sorted(accepted)}) and the marks translated by the traversal ({sorted(handled)}) '
                f'differ: {sorted(accepted ^ handled)} is/are collected but never translated (the parameter is silently dropped) or '
                f'translated but never collected')
    for name, ci in sorted(marks.items()):
        cons = f'{ci.module.name}::{name}::translated or rejected by the builder'
        if name in accepted and name in handled:
            out.ok('VL-5', cons, ctx.p.loc(ci.module, ci.node), 'translated')
        elif name in rejected:
            out.ok('VL-5', cons, ctx.p.loc(ci.module, ci.node), 'rejected at build time')
        else:
            out.bad('VL-5', cons, ctx.p.loc(ci.module, ci.node),
                    f'{name} is a public mark but the builder neither translates nor rejects it: a declaration using it builds and '
                    f'fails only at run time', props={'C16', 'C15'})


def rule_edges(ctx: Ctx, out: Collector) -> None:
    """BD-2: every mark branch adds exactly one edge into the consumer carrying kwarg_name=<the parameter>;
    BD-3: parameters are distinguishable on the graph; BD-4: the implicit input edge only for mark-less nodes."""
    trav = _traverse_function(ctx)
    loop, mark_var, kw_var, br = _branches(ctx, trav)
    cur = _current_node_var(trav)
    dest_txt = f'get_node_id({cur})'
    for name, node in sorted(br.items()):
        calls = _edge_calls(node.body, top_only=True)
        kw_edges = []
        for c in calls:
            kws = _kw_dict(c)
            if 'kwarg_name' in kws:
                kw_edges.append((c, kws))
        cons = f'{trav.module.name}::{trav.qualname}::{name} branch: one kwarg_name edge into the consumer'
        problems = []
        if len(kw_edges) != 1:
            problems.append(f'{len(kw_edges)} kwarg_name edges at the top level of the branch')
        for c, kws in kw_edges:
            if len(c.args) < 2 or unparse(c.args[1]) != dest_txt:
                problems.append(f'the edge does not end in {dest_txt} ({unparse(c.args[1]) if len(c.args) > 1 else "?"})')
            if not (isinstance(kws['kwarg_name'], ast.Name) and kws['kwarg_name'].id == kw_var):
                problems.append(f'kwarg_name is {unparse(kws["kwarg_name"])}, not the parameter name {kw_var}')
        # conditional edges
        for st in node.body:
            if isinstance(st, (ast.If, ast.Try)) and any('kwarg_name' in unparse(x) for x in ast.walk(st) if isinstance(x, ast.Call)):
                problems.append('the kwarg_name edge is added conditionally')
        if not problems:
            out.ok('BD-2', cons, ctx.p.loc(trav, node), f'{unparse(kw_edges[0][0])[:90]}')
        else:
            out.bad('BD-2', cons, ctx.p.loc(trav, node), f'the {name} branch does not deliver the declared parameter to the consumer '
                                                         f'exactly once: ' + '; '.join(problems))
        # BD-3: the source of the edge is the id of a declared node (not a per-parameter synthetic id) on a simple digraph
        for c, kws in kw_edges:
            src = unparse(c.args[0]) if c.args else ''
            if src.startswith('get_node_id('):
                cons3 = f'{trav.module.name}::{trav.qualname}::{name} branch: edge ({src}, consumer) identifies the parameter'
                multi = _graph_is_multi(ctx)
                dup_check = any(isinstance(x, ast.Call) and isinstance(x.func, ast.Attribute) and x.func.attr == 'has_edge'
                                for x in ast.walk(trav.node))
                if multi or dup_check:
                    out.ok('BD-3', cons3, ctx.p.loc(trav, c), 'multigraph / duplicate detection')
                else:
                    out.bad('BD-3', cons3, ctx.p.loc(trav, c),
                            f'the {name} edge is keyed by (source node, consumer) on a simple DiGraph and carries one kwarg_name: two '
                            f'parameters bound to the same node collapse into one edge (the second add_edge overwrites kwarg_name), '
                            f'so one declared parameter is dropped')
    # BD-4
    cons = f'{trav.module.name}::{trav.qualname}::implicit input edge only for nodes without marks'
    found = False
    for n in ast.walk(trav.node):
        if isinstance(n, ast.Call) and _edge_calls([ast.Expr(n)]) and len(n.args) >= 2 \
                and 'input_node' in unparse(n.args[0]) and unparse(n.args[1]) == dest_txt and 'kwarg_name' not in _kw_dict(n):
            found = True
            gs = guards(trav.node, n)
            no_marks = any((not pol) and isinstance(e, ast.Name) and 'mark' in e.id for e, pol in gs)
            not_self = any((pol and isinstance(e, ast.Compare) and isinstance(e.ops[0], ast.NotEq) or
                            (not pol) and isinstance(e, ast.Compare) and isinstance(e.ops[0], ast.Eq))
                           and 'input_node' in text(e) and cur in text(e) for e, pol in gs)
            if no_marks and not_self:
                out.ok('BD-4', cons, ctx.p.loc(trav, n), 'guarded by `not <marks> and input_node != current_node`')
            else:
                out.bad('BD-4', cons, ctx.p.loc(trav, n), 'the implicit input -> node edge is not restricted to nodes without marks that '
                                                          'are not the input node: nodes get an extra dependency / a self loop')
    if not found:
        out.bad('BD-4', cons, ctx.p.loc(trav, trav.node), 'no implicit input edge is added: a node without marks is disconnected from '
                                                          'the input and never scheduled')


def _graph_is_multi(ctx: Ctx) -> bool:
    for ci in ctx.p.classes_by_name.get('DiGraph', []):
        return any('Multi' in b for b in ctx.p.ext_bases(ci))
    return False


def rule_constructs(ctx: Ctx, out: Collector) -> None:
    """SW-6 / OO-2b / OO-3 / RC-5: the builder side of switch, one-of and recurrent constructs."""
    trav = _traverse_function(ctx)
    loop, mark_var, kw_var, br = _branches(ctx, trav)
    base = f'{trav.module.name}::{trav.qualname}'
    b = _builder_class(ctx)

    def all_calls(node):
        return [n for n in ast.walk(node) if isinstance(n, ast.Call)]

    # ---- switch
    sw = br.get('SwitchCaseMark')
    if sw is None:
        raise AnalysisError('SwitchCaseMark branch not found')
    src = unparse(ast.Module(body=sw.body, type_ignores=[]))
    helper_src = ''
    for m in b.methods.values():
        if 'switch' in m.name and m is not trav:
            helper_src += unparse(m.node)
    problems = []
    if 'NodeField.is_switch: True' not in src + helper_src:
        problems.append('the synthetic node is not flagged is_switch')
    if 'EdgeField.is_switch: True' not in src + helper_src:
        problems.append('no is_switch edge from the deciding node')
    case_loop = [n for n in ast.walk(sw) if isinstance(n, ast.For) and 'cases' in unparse(n.iter)]
    if not case_loop:
        problems.append('no loop over the declared cases')
    else:
        cl = case_loop[0]
        names = [x.id for x in ast.walk(cl.target) if isinstance(x, ast.Name)]
        ok = False
        for c in all_calls(cl):
            kws = _kw_dict(c)
            if 'case_branch' in kws and isinstance(kws['case_branch'], ast.Name) and kws['case_branch'].id in names and len(c.args) >= 2 \
                    and any(nm in unparse(c.args[0]) for nm in names):
                ok = True
        if not ok:
            problems.append('the case_branch edge does not carry the declared label from the declared case node')
        if any(isinstance(x, (ast.Break, ast.Continue)) or (isinstance(x, ast.If)) for x in ast.walk(cl)):
            problems.append('cases are filtered / the loop stops early')
    if f'{mark_var}.switch' not in src:
        problems.append('the deciding node is not the declared switch node')
    cons = base + '::SwitchCaseMark branch builds switch node, is_switch edge, one case_branch edge per case'
    if not problems:
        out.ok('SW-6', cons, ctx.p.loc(trav, sw), 'synthetic node flagged is_switch; is_switch edge from the decider; case_branch edge per case')
    else:
        out.bad('SW-6', cons, ctx.p.loc(trav, sw), 'the builder does not translate a SwitchCase declaration completely: ' + '; '.join(problems),
                props={'C09', 'C15'})

    # ---- one-of
    oo = br.get('InputOneOfMark')
    if oo is None:
        raise AnalysisError('InputOneOfMark branch not found')
    problems = []
    osrc = unparse(ast.Module(body=oo.body, type_ignores=[]))
    comp = None
    for n in ast.walk(oo):
        if isinstance(n, ast.Assign) and isinstance(n.value, ast.ListComp) and f'{mark_var}.nodes' in unparse(n.value):
            comp = n
    if comp is None:
        problems.append('the candidate id list is not an order-preserving comprehension over the declared nodes')
    else:
        lc = comp.value
        if len(lc.generators) != 1 or lc.generators[0].ifs or unparse(lc.generators[0].iter) != f'{mark_var}.nodes':
            problems.append(f'the candidate id list {unparse(lc)} reorders or filters the declared nodes')
        lst = comp.targets[0].id if isinstance(comp.targets[0], ast.Name) else None
        if lst is None or f'NodeField.oneof_nodes: {lst}' not in osrc:
            problems.append('oneof_nodes is not the list of declared candidates')
    if 'NodeField.is_oneof_head: True' not in osrc:
        problems.append('the synthetic head is not flagged is_oneof_head')
    if 'NodeField.is_oneof_child: True' not in osrc:
        problems.append('candidates are not flagged is_oneof_child (they would run eagerly, before being tried)')
    else:
        flagged_in_loop = any(isinstance(n, ast.For) and 'NodeField.is_oneof_child: True' in unparse(n) and not any(
            isinstance(x, (ast.If, ast.Break, ast.Continue)) for x in ast.walk(n)) for n in ast.walk(oo))
        if not flagged_in_loop:
            problems.append('not every candidate is flagged is_oneof_child')
    cons = base + '::InputOneOfMark branch builds head with ordered oneof_nodes and flags every candidate'
    if not problems:
        out.ok('OO-3', cons, ctx.p.loc(trav, oo), 'ordered oneof_nodes; head flagged; every candidate flagged is_oneof_child')
    else:
        out.bad('OO-3', cons, ctx.p.loc(trav, oo), 'the builder does not translate an InputOneOf declaration faithfully: ' + '; '.join(problems),
                props={'C10', 'C15'})

    # ---- BD-8: synthetic ids are unique per declared parameter
    cur = _current_node_var(trav)
    for bname, bnode in (('SwitchCaseMark', sw), ('InputOneOfMark', oo)):
        for c in all_calls(bnode):
            if (dotted(c.func) or '').split('.')[-1] != 'generate_node_id':
                continue
            cons8 = base + f'::{bname} branch: synthetic id {unparse(c)[:60]} is unique per parameter'
            name_arg = c.args[1] if len(c.args) > 1 else next((k.value for k in c.keywords if k.arg == 'name'), None)
            pre_arg = c.args[0] if c.args else None
            whole = unparse(c)
            ok8 = False
            why8 = ''
            if name_arg is None:
                ok8 = True                      # fresh uuid suffix
            elif isinstance(name_arg, ast.Attribute) and unparse(name_arg) == f'{mark_var}.name':
                ok8 = True                      # the user's own name, a fresh uuid when it is None
            elif cur in whole and any(isinstance(x, ast.Name) and x.id in ('idx', kw_var) for x in ast.walk(c)):
                ok8 = True                      # consumer id + parameter index / name
            else:
                why8 = f'the name part {unparse(name_arg)} is neither the mark\'s own name, a fresh id, nor (consumer, parameter)'
            if ok8:
                out.ok('BD-8', cons8, ctx.p.loc(trav, c), 'own name / fresh id / (consumer, parameter index)')
            else:
                out.bad('BD-8', cons8, ctx.p.loc(trav, c),
                        f'two different declared parameters can get the same synthetic node id ({why8}): their synthetic nodes collapse, '
                        f'the case / candidate tables merge and one parameter receives the other\'s value', props={'C15', 'C09', 'C10', 'C03'})

    # ---- recurrent
    rc = br.get('RecurrentSubGraphMark')
    if rc is None:
        raise AnalysisError('RecurrentSubGraphMark branch not found')
    rsrc = unparse(ast.Module(body=rc.body, type_ignores=[]))
    problems = []
    ok_attrs = False
    for c in all_calls(rc):
        kws = _kw_dict(c)
        if 'start_node' in kws and 'max_iterations' in kws:
            dest_ok = c.args and unparse(c.args[0]) == f'get_node_id({mark_var}.dest_node)'
            s_ok = unparse(kws['start_node']) == f'get_node_id({mark_var}.start_node)'
            m_ok = unparse(kws['max_iterations']) == f'{mark_var}.max_iterations'
            ok_attrs = bool(dest_ok and s_ok and m_ok)
    if not ok_attrs:
        problems.append('the destination node does not carry start_node=<declared start>, max_iterations=<declared bound>')
    recs = [st for st in rc.body if isinstance(st, ast.Expr) and isinstance(st.value, ast.Call)
            and isinstance(st.value.func, ast.Attribute) and st.value.func.attr in ('append', 'add')
            and 'recurrent' in unparse(st.value.func.value).lower()]
    if not recs:
        nested = [x for x in ast.walk(rc) if isinstance(x, ast.Call) and isinstance(x.func, ast.Attribute)
                  and x.func.attr in ('append', 'add') and 'recurrent' in unparse(x.func.value).lower()]
        if nested:
            problems.append('the (start, dest) pair is recorded for validation only conditionally: under some traversal orders the '
                            'recurrent destination / start node is never validated')
        else:
            problems.append('the (start, dest) pair is not recorded for validation')
    else:
        txt = unparse(recs[0].value)
        if f'{mark_var}.start_node' not in txt or f'{mark_var}.dest_node' not in txt:
            problems.append('the recorded pair is not (declared start, declared dest)')
    cons = base + '::RecurrentSubGraphMark branch records start_node / max_iterations on the destination'
    if not problems:
        out.ok('RC-5', cons, ctx.p.loc(trav, rc), 'dest node attrs start_node, max_iterations from the mark; pair recorded for validation')
    else:
        out.bad('RC-5', cons, ctx.p.loc(trav, rc), 'the builder does not translate a RecurrentSubGraph declaration faithfully: ' + '; '.join(problems),
                props={'C11', 'C15', 'C16'})


def rule_builder_effects(ctx: Ctx, out: Collector) -> None:
    """BD-5: building writes only to the builder's own state and to objects it created: nothing is stored on
    node classes, marks, modules or other caller-owned objects (the result of build_dag must not depend on what
    was built before, nor on traversal order).  BD-7: graph / registry updates inside a mark branch are
    unconditional."""
    b = _builder_class(ctx)
    from ..effects import MUTATORS
    n = 0
    bad = []

    def fresh_locals(unit) -> set:
        res = set()
        for name, defs in FuncEnv.of(ctx.p, unit).local_defs().items():
            if defs and all(d[0] in ('assign', 'annassign') and isinstance(d[1] if d[0] == 'assign' else d[2],
                            (ast.Call, ast.List, ast.Dict, ast.Set, ast.ListComp, ast.DictComp, ast.SetComp, ast.Tuple, ast.Constant,
                             ast.JoinedStr, ast.BinOp, ast.Compare, ast.BoolOp)) for d in defs):
                res.add(name)
        return res

    def owned_param(unit, pname: str, depth: int = 0) -> bool:
        """Every call of the builder's own helper `unit` passes, for parameter `pname`, an object the builder owns: something
        rooted in self, a fresh local of the caller, or a parameter of the caller that is owned in the same sense."""
        if depth > 3 or unit.cls is not b or unit.parent is not None:
            return False
        a = unit.node.args
        names = [x.arg for x in getattr(a, 'posonlyargs', [])] + [x.arg for x in a.args]
        if not unit.is_static and names:
            names = names[1:]
        sites = 0
        for caller in b.methods.values():
            for cu in [caller] + list(caller.nested.values()):
                fr = fresh_locals(caller) | fresh_locals(cu)
                for c in FuncEnv.of(ctx.p, cu).own_nodes():
                    if not (isinstance(c, ast.Call) and isinstance(c.func, ast.Attribute) and c.func.attr == unit.name
                            and isinstance(c.func.value, ast.Name) and c.func.value.id in ('self', 'cls', b.name)):
                        continue
                    sites += 1
                    arg = None
                    if pname in names and names.index(pname) < len(c.args):
                        arg = c.args[names.index(pname)]
                    for k in c.keywords:
                        if k.arg == pname:
                            arg = k.value
                    if arg is None:
                        return False
                    r = arg
                    while isinstance(r, (ast.Attribute, ast.Subscript)):
                        r = r.value
                    if isinstance(r, ast.Name) and (r.id == 'self' or r.id in fr):
                        continue
                    if isinstance(r, ast.Name) and owned_param(caller, r.id, depth + 1):
                        continue
                    return False
        return sites > 0

    for m in b.methods.values():
        env = FuncEnv.of(ctx.p, m)
        fresh = fresh_locals(m)

        def root_of(e):
            while isinstance(e, (ast.Attribute, ast.Subscript)):
                e = e.value
            return e

        units = [m] + list(m.nested.values())
        for u in units:
            for node in FuncEnv.of(ctx.p, u).own_nodes():
                target = None
                how = ''
                if isinstance(node, (ast.Assign, ast.AugAssign, ast.AnnAssign)):
                    tgts = node.targets if isinstance(node, ast.Assign) else [node.target]
                    for t in tgts:
                        if isinstance(t, (ast.Attribute, ast.Subscript)):
                            target, how = t.value, 'store'
                elif isinstance(node, ast.Call):
                    d = (dotted(node.func) or '')
                    if d.split('.')[-1] in ('setattr', 'delattr') and node.args:
                        target, how = node.args[0], d
                    elif isinstance(node.func, ast.Attribute) and node.func.attr in MUTATORS | {'update', '__setattr__'} \
                            and not isinstance(node.func.value, ast.Call):
                        # annotations / dicts of foreign objects: X.__annotations__.update(...), X.__dict__[...]
                        target, how = node.func.value, f'.{node.func.attr}()'
                if target is None:
                    continue
                n += 1
                r = root_of(target)
                if isinstance(r, ast.Name) and (r.id == 'self' or r.id in fresh):
                    continue
                if isinstance(r, ast.Name):
                    defs = env.local_defs().get(r.id) or FuncEnv.of(ctx.p, u).local_defs().get(r.id, [])
                    is_param = any(d[0] in ('param', 'iter', 'unpack') for d in defs)
                    if is_param and all(d[0] == 'param' for d in defs) and owned_param(m, r.id):
                        continue                # a container the builder's own traversal created and handed to its helper
                    if is_param or not defs:
                        bad.append((u, node, how, unparse(target)))
                elif isinstance(r, ast.Call) and (dotted(r.func) or '').endswith('globals'):
                    bad.append((u, node, how, unparse(target)))
    cons = f'{b.module.name}::{b.name}::writes only to the builder\'s own state'
    if not bad:
        out.ok('BD-5', cons, ctx.p.loc(b.module, b.node), f'{n} write sites, all rooted in self or in objects created by the builder')
    else:
        u, node, how, tgt = bad[0]
        out.bad('BD-5', ctx.construct(u, node) + ' [builder writes to a caller-owned object]', ctx.p.loc(u, node),
                f'while building, the builder writes to {tgt} ({how}), an object that outlives this build (node class, mark, module): the '
                f'result of build_dag now depends on which classes were analysed before and in which order (inherited / stale state)',
                props={'C15', 'C16'})
    # BD-7 (updates do not depend on the order the traversal meets a node's roles) is decided over builder worlds: bx.py


def rule_node_map_and_validation(ctx: Ctx, out: Collector) -> None:
    """BD-6, VL-4 (VL-1, VL-2 and VL-6 are decided over builder worlds: bw.rule_reachability)."""
    b = _builder_class(ctx)
    # ---- BD-6: build returns copies
    build = b.methods['build']
    bsrc = unparse(build.node)
    cons = f'{build.module.name}::{build.qualname}::returns copies of graph and node map'
    from .ex import interpret_build
    from ..absint import AObj as _AObj
    shared = set()
    seen_dag = False
    for single in (False, True):
        for res, builder_obj, graph_obj, node_map_obj, calls in interpret_build(ctx, False, (), single):
            if not isinstance(res, _AObj):
                raise AnalysisError('build() does not return a DAG object (BD-6 anchor vanished)')
            seen_dag = True
            for k, v in res.attrs.items():
                if v is graph_obj:
                    shared.add(f'{k} is the builder\'s own graph')
                if v is node_map_obj:
                    shared.add(f'{k} is the builder\'s own node map')
    if seen_dag and not shared:
        out.ok('BD-6', cons, ctx.p.loc(build, build.node), 'neither the graph nor the node map of the returned DAG is the builder\'s own object')
    else:
        out.bad('BD-6', cons, ctx.p.loc(build, build.node), f'the DAG returned by build shares the builder\'s graph / node map ({"; ".join(sorted(shared))})')
    # VL-4 (the recurrent validations decide before a DAG is handed out) is decided over builder worlds: bw.rule_recurrent_validations


def _loop_var_of(node: ast.AST, ref: str, args: List[str]) -> bool:
    """An argument is the loop variable of a loop (or an element of an unpacked loop) over `ref`."""
    for n in ast.walk(node):
        if isinstance(n, ast.For) and (ref in unparse(n.iter)):
            names = {x.id for x in ast.walk(n.target) if isinstance(x, ast.Name)}
            # subscripted access: node = mark.nodes[idx]
            for a in ast.walk(n):
                if isinstance(a, ast.Assign) and ref in unparse(a.value) and isinstance(a.targets[0], ast.Name):
                    names.add(a.targets[0].id)
            if any(a in names for a in args):
                return True
        if isinstance(n, ast.For):
            for a in ast.walk(n):
                if isinstance(a, ast.Assign) and ref in unparse(a.value) and isinstance(a.targets[0], ast.Name) \
                        and a.targets[0].id in args:
                    return True
    return False


# required guard vocabulary of each rejection (found by reading, frozen): tokens that must appear in the
# condition guarding the raise - role names (functions / classes / literals), never local variable names
REJECTIONS = {
    'UndefinedAnnotation': ['annotations', 'parameters'],
    'UndefinedParamAnnotation': ['annotations'],
    'IncorrectTypeClass': ['inspect.isclass'],
    'IncorrectBaseClass': ['NodeBase', 'inspect.getmro'],
    'NonRedefinedGenericTypeError': ['isinstance', 'InputGenericMark', 'GenericInputMark'],
    'IncorrectRecurrentMixinClass': ['RecurrentProtocol', 'inspect.getmro'],
    'IncorrectParamsRecurrentNode': ["'additional_data'", '__annotations__'],
    'ClassExpectedError': ['inspect.isclass'],
    'RunMethodExpectedError': ['callable'],
}


def rule_rejections(ctx: Ctx, out: Collector) -> None:
    """VL-3: every rejection class is raised, under its documented condition, in code reachable from the
    build entry points."""
    p = ctx.p
    entries = []
    for fid in ('ml_pipeline_engine.dag_builders.annotation.builder::build_dag',
                'ml_pipeline_engine.dag_builders.annotation.builder::build_dag_single',
                'ml_pipeline_engine.node.node::build_node'):
        entries.append(p.func(fid))
    # call-graph reachability
    seen: Dict[str, FuncUnit] = {}
    work = list(entries)
    while work:
        u = work.pop()
        if u.fid in seen:
            continue
        seen[u.fid] = u
        env = FuncEnv.of(p, u)
        for n in env.own_nodes():
            # a function named as a value (stored in a table, handed to a helper) may be called: address-taken reachability
            if isinstance(n, ast.Attribute) and isinstance(n.ctx, ast.Load) and isinstance(n.value, ast.Name) \
                    and n.value.id in ('self', 'cls') and u.cls is not None:
                m = p.lookup_method(u.cls, n.attr)
                if m is not None:
                    work.append(m)
            if isinstance(n, ast.Call):
                for t in env.resolve_call(n):
                    if t[0] == 'func':
                        work.append(t[1])
                    elif t[0] == 'class':
                        for mname in ('__init__', '__post_init__', 'build'):
                            m = p.lookup_method(t[1], mname)
                            if m is not None:
                                work.append(m)
            if isinstance(n, (ast.FunctionDef, ast.AsyncFunctionDef)) and n is not u.node:
                nu = p.unit_of_node.get(id(n))
                if nu is not None:
                    work.append(nu)
    # chained call: AnnotationDAGBuilder().build(...)
    b = _builder_class(ctx)
    for m in b.methods.values():
        if m.fid not in seen and m.name == 'build':
            work.append(m)
    while work:
        u = work.pop()
        if u.fid in seen:
            continue
        seen[u.fid] = u
        env = FuncEnv.of(p, u)
        for n in env.own_nodes():
            if isinstance(n, ast.Attribute) and isinstance(n.ctx, ast.Load) and isinstance(n.value, ast.Name) \
                    and n.value.id in ('self', 'cls') and u.cls is not None:
                m = p.lookup_method(u.cls, n.attr)
                if m is not None:
                    work.append(m)
            if isinstance(n, ast.Call):
                for t in env.resolve_call(n):
                    if t[0] == 'func':
                        work.append(t[1])
    found: Dict[str, List[Tuple[FuncUnit, ast.Raise]]] = {}
    for u in seen.values():
        env = FuncEnv.of(p, u)
        for n in env.own_nodes():
            if isinstance(n, ast.Raise) and isinstance(n.exc, ast.Call):
                d = (dotted(n.exc.func) or '').split('.')[-1]
                found.setdefault(d, []).append((u, n))
    # what each rejection means is decided by interpretation, one small world per defect (never by the text of the guard)
    verdicts = _rejection_worlds(ctx, found)
    n_ok = 0
    for cls in REJECTIONS:
        if not p.classes_by_name.get(cls):
            raise AnalysisError(f'rejection class {cls} vanished')
        cons = f'build entry points::raise {cls} under its documented condition'
        sites = found.get(cls, [])
        if not sites:
            out.bad('VL-3', cons, '', f'{cls} is never raised in code reachable from build_dag / build_dag_single / build_node: the '
                                      f'corresponding defect is no longer rejected at build time', props={'C16'})
            continue
        problems, detail = verdicts[cls]
        if not problems:
            n_ok += 1
            out.ok('VL-3', cons, p.loc(sites[0][0], sites[0][1]), detail[:200])
        else:
            out.bad('VL-3', cons, p.loc(sites[0][0], sites[0][1]),
                    f'{cls} is raised, but not under its documented condition ({"; ".join(problems)[:260]}): valid declarations are '
                    f'rejected or the defect is no longer detected', props={'C16'})
    if n_ok == 0:
        raise AnalysisError('no rejection recognised (VL-3 anchors vanished)')


def _rejection_worlds(ctx: Ctx, found) -> Dict[str, Tuple[List[str], str]]:
    """class name -> (problems, how it was decided)."""
    from ..absint import AClass, AObj, ARaise, Interp, Oracle, TOP, enumerate_outcomes
    p = ctx.p
    out: Dict[str, Tuple[List[str], str]] = {}
    node_base = [ci for ci in p.classes.values() if ci.name == 'NodeBase']

    def outcomes(unit, args, kwargs, self_obj, ext, stubs=None, consume=False):
        def run(oracle: Oracle):
            interp = Interp(p, oracle, stubs=stubs or {}, ext_stubs=ext)
            res_ = interp.call_unit(unit, list(args), dict(kwargs), self_obj)
            return interp._to_list(res_) if consume else res_        # a lazily computed result is judged when it is consumed
        import re
        res = set()
        for o in enumerate_outcomes(run):
            if o[0] == 'value':
                res.add('accepted')
            else:
                m = re.search(r'(Incorrect\w+|Undefined\w+|NonRedefined\w+|ClassExpected\w+|RunMethodExpected\w+)', str(o[1]))
                res.add(m.group(1) if m else str(o[1])[:40])
        return sorted(res)

    # ---- the class check (IncorrectTypeClass / IncorrectBaseClass): every leaf that performs it, on three values
    good = AObj(('ext', 'created-class'), {'__name__': 'Good'}, tag='Good')
    nobase = AObj(('ext', 'created-class'), {'__name__': 'NoBase'}, tag='NoBase')
    ext_cls = {'inspect.isclass': lambda a, k: isinstance(a[0], AObj),
               'inspect.getmro': lambda a, k: (a[0],) + (tuple(AClass(ci) for ci in node_base) if a[0] is good else ())}
    leaves = []
    for cls in ('IncorrectTypeClass', 'IncorrectBaseClass'):
        for u, r in found.get(cls, []):
            if u not in leaves:
                leaves.append(u)
    probs_t, probs_b, decided = [], [], []
    for u in leaves:
        a_ = u.node.args
        nparams = len(a_.args) - (1 if u.cls is not None and not u.is_static else 0)
        calls_builder = u.cls is not None and any(isinstance(n, ast.Call) and isinstance(n.func, ast.Attribute) and isinstance(n.func.value, ast.Name)
                                                  and n.func.value.id in ('self', 'cls') and n.func.attr in u.cls.methods for n in ast.walk(u.node))
        if nparams != 1 or calls_builder or any(isinstance(n, (ast.While, ast.For)) for n in ast.walk(u.node)):
            decided.append(f'{u.qualname}: check written in line, interpreted with the builder worlds (VL-8 / VL-9)')
            continue
        self_obj = None if (u.cls is None or u.is_static) else AObj(u.cls, {})
        not_a_class = sorted({x for v_ in ('not-a-class', None, 5) for x in outcomes(u, [v_], {}, self_obj, ext_cls)})
        table = {'a value that is not a class': not_a_class,
                 'a class without the node base': outcomes(u, [nobase], {}, self_obj, ext_cls),
                 'a node class': outcomes(u, [good], {}, self_obj, ext_cls)}
        decided.append(f'{u.qualname}: {table}')
        if table['a value that is not a class'] != ['IncorrectTypeClass']:
            probs_t.append(f'{u.qualname}(<not a class>): {table["a value that is not a class"]}')
        if table['a node class'] != ['accepted']:
            probs_t.append(f'{u.qualname}(<node class>): {table["a node class"]}')
            probs_b.append(f'{u.qualname}(<node class>): {table["a node class"]}')
        if table['a class without the node base'] != ['IncorrectBaseClass']:
            probs_b.append(f'{u.qualname}(<class without NodeBase>): {table["a class without the node base"]}')
    out['IncorrectTypeClass'] = (probs_t, '; '.join(decided))
    out['IncorrectBaseClass'] = (probs_b, '; '.join(decided))

    # ---- annotations: decided by VL-7 (the function raising them interpreted over eleven abstract signatures)
    for cls in ('UndefinedAnnotation', 'UndefinedParamAnnotation'):
        out[cls] = ([], 'decided by VL-7: the annotation check interpreted over abstract signatures')

    # ---- generic marks: the marks reader interpreted on one parameter per mark class
    marks = _mark_classes(ctx)
    mm = _marks_map_function(ctx)
    accepted, rejected = _marks_verdicts(ctx, mm, marks)
    generic = {n for n in marks if 'Generic' in n}
    probs = []
    if not generic:
        raise AnalysisError('no generic mark class found (VL-3 anchor vanished)')
    if rejected != generic:
        probs.append(f'the marks reader rejects {sorted(rejected)}, the generic marks are {sorted(generic)}')
    b = _builder_class(ctx)

    def reader_outcome(mark):
        run_method = AObj(('ext', 'function'), {'__annotations__': {'p': mark, 'return': TOP}}, tag='run-method')
        stubs = {u.fid: (lambda interp, a, k, s_: run_method) for u in p.functions.values()
                 if u.parent is None and u.cls is None and u.name == 'get_callable_run_method'}
        hints = lambda a, k: {'p': mark, 'return': TOP}      # noqa: E731
        n_ = AObj(('ext', 'Node'), {'process': run_method})
        return outcomes(mm, [n_], {}, None if mm.is_static else AObj(b, {}), {'typing.get_type_hints': hints, 'inspect.get_annotations': hints}, stubs, consume=True)
    for gname in sorted(generic):
        got = reader_outcome(AObj(marks[gname], {}, tag=f'mark:{gname}'))
        if got != ['NonRedefinedGenericTypeError']:
            probs.append(f'a parameter annotated with {gname}: {got}')
    out['NonRedefinedGenericTypeError'] = (probs, f'the marks reader rejects exactly {sorted(generic)} with this error')

    # ---- recurrent declarations: decided by VL-4 (builder worlds with a defective / a valid recurrent subgraph)
    for cls in ('IncorrectRecurrentMixinClass', 'IncorrectParamsRecurrentNode'):
        out[cls] = ([], 'decided by VL-4: build() interpreted over recurrent declaration sets')

    # ---- build_node / get_callable_run_method
    bn = next((u for u in p.functions.values() if u.parent is None and u.cls is None and u.name == 'build_node'), None)
    grm = next((u for u in p.functions.values() if u.parent is None and u.cls is None and u.name == 'get_callable_run_method'), None)
    if bn is None or grm is None:
        raise AnalysisError('build_node / get_callable_run_method not found (VL-3 anchor vanished)')
    process = AObj(('ext', 'function'), {'__doc__': 'DOC', '__name__': 'process', '__annotations__': {}, '__dict__': {}}, tag='process')
    with_process = AObj(('ext', 'created-class'), {'process': process, '__name__': 'Base', 'name': 'base', '__module__': 'user'}, tag='Base')
    without = AObj(('ext', 'created-class'), {'process': None, '__name__': 'NoProcess', 'name': 'np', '__module__': 'user'}, tag='NoProcess')
    ext_bn = {'inspect.isclass': lambda a, k: isinstance(a[0], AObj), 'inspect.iscoroutinefunction': lambda a, k: False,
              'builtins.globals': lambda a, k: {}}
    t1 = outcomes(bn, ['not-a-class'], {}, None, ext_bn)
    t2 = outcomes(bn, [without], {}, None, ext_bn)
    t3 = outcomes(bn, [with_process], {}, None, ext_bn)
    probs_c, probs_r = [], []
    if t1 != ['ClassExpectedError']:
        probs_c.append(f'build_node(<not a class>): {t1}')
    if t3 != ['accepted']:
        probs_c.append(f'build_node(<node class>): {t3}')
        probs_r.append(f'build_node(<node class>): {t3}')
    if t2 != ['RunMethodExpectedError']:
        probs_r.append(f'build_node(<class without a callable process>): {t2}')
    gi = {u.fid: (lambda interp, a, k, s_: a[0] if a else k.get('cls')) for u in p.functions.values()
          if u.parent is None and u.cls is None and u.name == 'get_instance'}
    t4 = outcomes(grm, [without], {}, None, {}, gi)
    t5 = outcomes(grm, [with_process], {}, None, {}, gi)
    if t4 != ['RunMethodExpectedError']:
        probs_r.append(f'get_callable_run_method(<class without a callable process>): {t4}')
    if t5 != ['accepted']:
        probs_r.append(f'get_callable_run_method(<node class>): {t5}')
    out['ClassExpectedError'] = (probs_c, f'build_node: not a class -> {t1}, node class -> {t3}')
    out['RunMethodExpectedError'] = (probs_r, f'build_node / get_callable_run_method: no callable process -> {t2} / {t4}, node class -> {t3} / {t5}')
    return out


def rule_annotation_check_semantics(ctx: Ctx, out: Collector) -> None:
    """VL-7: the annotation check rejects a run method with an un-annotated parameter whatever else is true of that
    parameter (default value, position), accepts fully annotated ones, and names the right error.  The function that
    raises UndefinedParamAnnotation is interpreted over small abstract signatures."""
    from ..absint import AClass, AObj, ARaise, Interp, Oracle, TOP, enumerate_outcomes
    p = ctx.p
    b = _builder_class(ctx)
    target = None
    for m in b.methods.values():
        if any(isinstance(n, ast.Raise) and isinstance(n.exc, ast.Call) and (dotted(n.exc.func) or '').endswith('UndefinedParamAnnotation')
               for n in ast.walk(m.node)):
            target = m
    if target is None:
        raise AnalysisError('no function raising UndefinedParamAnnotation found (VL-7 anchor vanished)')
    EMPTY = AClass(('ext', 'inspect._empty'))

    from ..absint import AExt
    KINDS = {k: AExt(f'inspect.Parameter.{k}') for k in ('POSITIONAL_OR_KEYWORD', 'VAR_POSITIONAL', 'VAR_KEYWORD', 'KEYWORD_ONLY',
                                                         'POSITIONAL_ONLY')}

    def param(name, default=EMPTY, kind='POSITIONAL_OR_KEYWORD'):
        return AObj(('ext', 'inspect.Parameter'), {'name': name, 'default': default, 'empty': EMPTY, 'annotation': TOP,
                                                   'kind': KINDS[kind], **KINDS})
    MARK = AObj(('ext', 'Mark'), {}, tag='mark')
    worlds = {
        'all parameters annotated': ({'x': param('x')}, {'x': MARK, 'return': TOP}, None),
        'un-annotated parameter without a default': ({'x': param('x'), 'y': param('y')}, {'y': MARK}, 'UndefinedParamAnnotation'),
        'un-annotated parameter with a default value': ({'x': param('x', default=5), 'y': param('y')}, {'y': MARK}, 'UndefinedParamAnnotation'),
        'un-annotated keyword-only parameter': ({'y': param('y'), 'x': param('x', kind='KEYWORD_ONLY')}, {'y': MARK}, 'UndefinedParamAnnotation'),
        'no annotations at all': ({'x': param('x')}, {}, 'UndefinedAnnotation'),
        'no parameters, no annotations': ({}, {}, None),
        # parameters are exempted by kind, not by what they are called
        'un-annotated ordinary parameter called kwargs': ({'kwargs': param('kwargs'), 'y': param('y')}, {'y': MARK}, 'UndefinedParamAnnotation'),
        'un-annotated keyword-only parameter called args': ({'y': param('y'), 'args': param('args', kind='KEYWORD_ONLY')}, {'y': MARK},
                                                            'UndefinedParamAnnotation'),
        'un-annotated ordinary parameter called self (static run method)': ({'self': param('self'), 'y': param('y')}, {'y': MARK},
                                                                            'UndefinedParamAnnotation'),
        'un-annotated *args / **kwargs': ({'y': param('y'), 'args': param('args', kind='VAR_POSITIONAL'),
                                           'kwargs': param('kwargs', kind='VAR_KEYWORD')}, {'y': MARK}, None),
        'only *args / **kwargs (generated wrapper)': ({'args': param('args', kind='VAR_POSITIONAL'),
                                                       'kwargs': param('kwargs', kind='VAR_KEYWORD')}, {'y': MARK}, None),
    }
    problems = []
    table = {}
    for label, (params, annotations, expect) in worlds.items():
        def run(oracle: Oracle, params=params, annotations=annotations):
            run_method = AObj(('ext', 'function'), {'__annotations__': dict(annotations)}, tag='run-method')
            stubs = {}
            for u in p.functions.values():
                if u.parent is None and u.cls is None and u.name == 'get_callable_run_method':
                    stubs[u.fid] = lambda interp, a, k, s_, rm=run_method: rm
            sig = AObj(('ext', 'inspect.Signature'), {'parameters': dict(params)})
            interp = Interp(p, oracle, stubs=stubs, ext_stubs={'inspect.signature': lambda a, k, sig=sig: sig})
            node = AObj(('ext', 'Node'), {'process': run_method})
            args = [node]
            self_obj = None if target.is_static else AObj(b, {})
            interp.call_unit(target, args, {}, self_obj)
            return 'accepted'
        outs = enumerate_outcomes(run)
        got = sorted({'accepted' if o[0] == 'value' else str(o[1]) for o in outs})
        table[label] = got
        if expect is None:
            if got != ['accepted']:
                problems.append(f'{label}: {got} (must be accepted)')
        elif not (len(got) == 1 and expect in got[0] and (expect != 'UndefinedAnnotation' or 'UndefinedParamAnnotation' not in got[0])):
            problems.append(f'{label}: {got} (must raise {expect})')
    cons = f'{target.module.name}::{target.qualname}::every un-annotated parameter is rejected, fully annotated run methods are accepted'
    if not problems:
        out.ok('VL-7', cons, p.loc(target, target.node), f'{len(worlds)} abstract signatures', table=table)
    else:
        out.bad('VL-7', cons, p.loc(target, target.node),
                'the annotation check does not reject exactly the run methods with an un-annotated parameter: ' + '; '.join(problems[:3])
                + ' - such a declaration is built and fails (or silently drops the input) at run time', table=table, props={'C16'})
