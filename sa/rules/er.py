"""ER-* (C05): failures are reported faithfully."""
from __future__ import annotations

import ast
from typing import Dict, List, Optional, Set, Tuple

from .. import sym
from ..cfg import Ev, Graph, reach
from ..engine import CHART_RUN, DAG_RUN, Ctx, resolve_all
from ..guards import decompose, guards, text
from ..paths import ALL_LABELS, EXC_LABELS, NORMAL_LABELS, Search
from ..program import AnalysisError, ClassInfo, FuncEnv, FuncUnit, dotted, unparse
from ..report import Collector
from ..roles import is_ext
from .common import in_loop_body, path_text


def _run_units(ctx: Ctx) -> List[FuncUnit]:
    """Every function that appears (as an activation) in a graph of the run path."""
    seen: Dict[str, FuncUnit] = {}
    graphs = dict(ctx.run_graphs())
    graphs[CHART_RUN] = ctx.graph(CHART_RUN, depth=max(ctx.depth, 10))
    for g in graphs.values():
        for ev in g.events('entry'):
            seen[ev.inst.unit.fid] = ev.inst.unit
    return list(seen.values())


def rule_task_typestate(ctx: Ctx, out: Collector) -> None:
    """ER-1: Task.exception() / Task.result() only where done() and not cancelled() are established."""
    n = 0
    for unit in _run_units(ctx):
        env = FuncEnv.of(ctx.p, unit)
        for node in env.own_nodes():
            if not (isinstance(node, ast.Call) and isinstance(node.func, ast.Attribute)
                    and node.func.attr in ('exception', 'result')):
                continue
            tg = env.resolve_call(node)
            if not any(t[0] == 'ext' and t[1] in ('asyncio.Task.exception', 'asyncio.Task.result',
                                                  'asyncio.Future.exception', 'asyncio.Future.result') for t in tg):
                continue
            n += 1
            recv = text(node.func.value)
            gs = guards(unit.node, node)
            done = any(pol and isinstance(e, ast.Call) and isinstance(e.func, ast.Attribute) and e.func.attr == 'done'
                       and text(e.func.value) == recv for e, pol in gs)
            not_cancelled = any((not pol) and isinstance(e, ast.Call) and isinstance(e.func, ast.Attribute)
                                and e.func.attr == 'cancelled' and text(e.func.value) == recv for e, pol in gs)
            cons = f'{unit.module.name}::{unit.qualname}::{text(node)} [guards: done, not cancelled]'
            if done and not_cancelled:
                out.ok('ER-1', cons, ctx.p.loc(unit, node), 'guarded by done() and not cancelled()')
            else:
                missing = []
                if not done:
                    missing.append('done()')
                if not not_cancelled:
                    missing.append('not cancelled()')
                out.bad('ER-1', cons, ctx.p.loc(unit, node),
                        f'{text(node)} is evaluated without {" and ".join(missing)} being established: on a task the engine '
                        f'cancelled itself it raises CancelledError (or InvalidStateError), which becomes the outcome of the run')
    if n == 0:
        raise AnalysisError('no Task.exception()/result() call found on the run path (ER-1 anchor vanished)')


def rule_chart_wraps(ctx: Ctx, out: Collector) -> None:
    """ER-2: PipelineChart.run converts every Exception of the entrypoint into
    PipelineResult(value=None, error=<that exception>) and returns it; nothing else is caught."""
    unit = ctx.p.func(CHART_RUN)
    g = ctx.graph(CHART_RUN, depth=max(ctx.depth, 10))
    cons_base = f'{unit.module.name}::{unit.qualname}'
    # (a) no Exception escapes except from collaborator (event manager) calls
    collab_src = set()
    for ev in g.evs:
        src = ev
        if ev.kind == 'await' and ev.info.get('call') is not None:
            src = g.evs[ev.info['call']]
        if src.kind == 'call' and ctx.roles.collab(src) == 'event':
            collab_src.add(ev.id)
    s = Search(ctx.p, g, EXC_LABELS)

    def eok(ev, lab, mev):
        return not (lab == 'exc' and ev.id in collab_src)

    res = s.run([(g.entry, 0, frozenset())], lambda e, st, f: 0, lambda e, st, f: e.id == g.rexit['exc'], edge_ok=eok)
    cons = cons_base + '::no Exception escapes run()'
    if res is None:
        out.ok('ER-2', cons, ctx.p.loc(unit, unit.node), 'every Exception raised under the entrypoint is caught by run()')
    else:
        out.bad('ER-2', cons, ctx.p.loc(unit, unit.node), 'an Exception raised by the entrypoint (not by an event manager) can '
                                                          'escape PipelineChart.run instead of being returned as the error result',
                path_text(g, res[0]))
    # (a'), (b), (c): what run() returns in each situation its contract distinguishes (success, failing / cancelled entrypoint,
    # failing user constructor) is decided over chart worlds - whatever helpers run() is split into
    from .cw import rule_chart_worlds_result
    rule_chart_worlds_result(ctx, out)


def _returned_expr(block, ret: ast.Return) -> ast.AST:
    """`x = E; ...; return x` in one block -> E."""
    v = ret.value
    if isinstance(v, ast.Name) and block and ret in block:
        for st in reversed(block[:block.index(ret)]):
            if isinstance(st, ast.Assign) and len(st.targets) == 1 and isinstance(st.targets[0], ast.Name) \
                    and st.targets[0].id == v.id:
                return st.value
    return v


def _enclosing_block(root: ast.AST, node: ast.AST):
    from ..guards import parents
    par = parents(root).get(id(node))
    for f in ('body', 'orelse', 'finalbody'):
        blk = getattr(par, f, None)
        if isinstance(blk, list) and node in blk:
            return blk
    return None


def _first_error_functions(ctx: Ctx) -> List[FuncUnit]:
    """Functions that hand out the exception of a failed task: they read Task.exception() themselves, or return what
    such a function returned (helpers layered on top of each other)."""
    cached = getattr(ctx, '_first_error_units', None)
    if cached is not None:
        return cached
    out: List[FuncUnit] = []
    units = _run_units(ctx)
    for unit in units:
        env = FuncEnv.of(ctx.p, unit)
        for node in env.own_nodes():
            if isinstance(node, ast.Call):
                if any(t[0] == 'ext' and t[1] in ('asyncio.Task.exception', 'asyncio.Future.exception') for t in env.resolve_call(node)):
                    if unit not in out:
                        out.append(unit)
    changed = True
    rounds = 0
    while changed and rounds < 4:
        changed = False
        rounds += 1
        for unit in units:
            if unit in out or isinstance(unit.node, ast.Lambda):
                continue
            env = FuncEnv.of(ctx.p, unit)
            from ..cfg import Inst
            root = Inst(unit, None, None, {})
            for node in env.own_nodes():
                if not (isinstance(node, ast.Return) and node.value is not None):
                    continue
                for e, i in resolve_all(ctx.p, node.value, root):
                    c = e
                    if isinstance(c, ast.Call) and any(t[0] == 'func' and t[1] in out for t in FuncEnv.of(ctx.p, i.unit).resolve_call(c)):
                        out.append(unit)
                        changed = True
                        break
                if unit in out:
                    break
    ctx._first_error_units = out
    return out


def rule_result_after_error_test(ctx: Ctx, out: Collector) -> None:
    """ER-3: the output value is returned only after the error test over all registered tasks was negative."""
    fe = {u.fid for u in _first_error_functions(ctx)}
    if not fe:
        raise AnalysisError('no function reading Task.exception() found (ER-3 anchor vanished)')
    g = ctx.graph(ctx.manager_run().fid)
    n = 0
    for r in g.events('return'):
        v = r.info.get('value')
        if v is None:
            continue
        t = sym.term(ctx.p, v, r.inst)

        def reads_output(s):
            if not (isinstance(s, tuple) and s and s[0] == 'call' and len(s) > 2 and len(s[2]) > 1):
                return False
            if not (isinstance(s[1], str) and s[1].split('.')[-1] in ('get', '__getitem__', 'pop')):
                return False         # a value read, not a presence test
            recv = s[2][0]
            if not (isinstance(recv, tuple) and recv and recv[0] == 'attr' and recv[2] == 'node_results'):
                return False
            return any(isinstance(a, tuple) and a and a[0] == 'attr' and a[2] == 'output_node' for a in s[2][1:])

        if not sym.mentions(t, reads_output):
            continue
        if r.inst.unit.cls is not ctx.manager_class():
            continue
        n += 1
        s = Search(ctx.p, g, EXC_LABELS)

        def estep(prev, lab, e, state, facts):
            if prev is not None and prev.kind == 'branch' and prev.info.get('test') is not None and lab in ('T', 'F'):
                parts = []
                decompose(prev.info['test'], lab == 'T', parts)
                for gx, pol in parts:
                    if isinstance(gx, ast.BoolOp):
                        continue
                    is_none_test = isinstance(gx, ast.Compare) and len(gx.ops) == 1 and isinstance(gx.ops[0], (ast.Is, ast.Eq)) \
                        and isinstance(gx.comparators[0], ast.Constant) and gx.comparators[0].value is None
                    subject = gx.left if is_none_test else gx
                    tt = sym.term(ctx.p, subject, prev.inst)
                    if not sym.mentions(tt, lambda s: isinstance(s, tuple) and s[0] == 'call' and s[1] in fe):
                        continue
                    # "no error": the error value is falsy / is None
                    if (is_none_test and pol) or (not is_none_test and not pol):
                        return 1
            if e.kind == 'await':
                return 0            # anything may have failed while suspended: the test must be repeated
            return state

        res = s.run([(g.entry, 0, frozenset())], None, lambda e, st, f, r=r: e.id == r.id and st == 0, edge_step=estep)
        cons = ctx.construct(r) + ' [value returned only after a negative error test]'
        if res is None:
            out.ok('ER-3', cons, r.where(), 'dominated by the negative error test over all tasks, no suspension in between')
        else:
            out.bad('ER-3', cons, r.where(), 'the output value can be returned without (or before) testing the registered tasks '
                                             'for an error: a run whose required node failed returns a value', path_text(g, res[0]))
    if n == 0:
        raise AnalysisError('no return of the output node result found in run() (ER-3 anchor vanished)')


def _exception_class_ok(ctx: Ctx, expr: ast.AST, inst) -> Optional[str]:
    """Classify a raise operand.  Returns a description if acceptable, None otherwise."""
    for e, i in resolve_all(ctx.p, expr, inst):
        ok = None
        if isinstance(e, ast.Name):
            owner, defs = sym._owner_inst(i, e.id)
            if owner is not None and defs and all(d[0] == 'except' for d in defs):
                ok = 'a caught exception'
            elif owner is not None and owner.parent is None and defs and all(d[0] == 'param' for d in defs):
                ok = 'a parameter of the root'
        if isinstance(e, ast.Call):
            env = FuncEnv.of(ctx.p, i.unit)
            for t in env.resolve_call(e):
                if t[0] == 'class':
                    ci = t[1]
                    mods = ci.module.name
                    if mods.endswith('errors') or 'errors' in mods.split('.'):
                        ok = f'documented error {ci.name}'
                    elif any(isinstance(c, tuple) and c[1].split('.')[-1] in ('Exception', 'BaseException') for c in ctx.p.mro(ci)):
                        ok = f'engine error class {ci.name}'
                if t[0] == 'ext' and t[1] == 'builtins.RuntimeError' and 'parallelism' in i.unit.module.name:
                    ok = 'documented pool RuntimeError'
                if t[0] == 'func':
                    fe = {u.fid for u in _first_error_functions(ctx)}
                    if t[1].fid in fe:
                        ok = 'the exception of a failed task'
                if t[0] == 'ext' and t[1] in ('asyncio.Task.exception', 'asyncio.Future.exception'):
                    ok = 'the exception of a failed task'
        if ok is None:
            return None
        last = ok
    return last


def rule_raise_provenance(ctx: Ctx, out: Collector) -> None:
    """ER-4: every `raise` on the run path re-raises something caught, raises the exception of a failed
    task, or constructs a documented engine error."""
    graphs = dict(ctx.run_graphs())
    graphs[DAG_RUN] = ctx.graph(DAG_RUN)
    seen = set()
    n = 0
    for fid, g in graphs.items():
        reachable = g.reachable_from_entry()
        for ev in g.events('raise'):
            if ev.id not in reachable:
                continue
            cons = ctx.construct(ev)
            st = ev.node
            if st.exc is None:
                if cons not in seen:
                    seen.add(cons)
                    n += 1
                    out.ok('ER-4', cons, ev.where(), 'bare re-raise')
                continue
            what = _exception_class_ok(ctx, st.exc, ev.inst)
            key = (cons, what is None)
            if what is None:
                if (cons, True) in seen:
                    continue
                seen.add((cons, True))
                n += 1
                out.bad('ER-4', cons, ev.where(), f'`{text(st)}` raises {text(st.exc)} (reached through {ev.inst.chain()}), which is '
                                                  f'neither a caught exception, the exception of a failed task nor a documented '
                                                  f'engine error: an engine-internal artefact becomes the outcome of the run')
            else:
                if cons in seen or (cons, True) in seen:
                    continue
                seen.add(cons)
                n += 1
                out.ok('ER-4', cons, ev.where(), what)
    if n < 4:
        raise AnalysisError(f'only {n} raise statements found on the run path (ER-4 anchors vanished)')


def _tainted(ctx: Ctx, t) -> bool:
    """The term depends on a node result (read of node_results) or on the return value of node code."""
    def pred(s):
        if isinstance(s, tuple) and s and s[0] == 'call' and len(s) > 2 and s[2]:
            recv = s[2][0]
            if isinstance(recv, tuple) and recv and recv[0] == 'attr' and recv[2] == 'node_results':
                return True
            if isinstance(s[1], str) and s[1].endswith(('::run_node', '::get_callable_run_method')):
                return True
        return False
    return sym.mentions(t, pred)


def unguarded_partial_lookups(ctx: Ctx) -> List[Tuple[Graph, Ev, str]]:
    """Subscript look-ups / Enum conversions on keys derived from node results without a membership guard."""
    res = []
    seen = set()
    for fid, g in ctx.run_graphs().items():
        reachable = g.reachable_from_entry()
        for ev in g.evs:
            if ev.id not in reachable:
                continue
            if ev.kind == 'subscr':
                node = ev.node
                env = FuncEnv.of(ctx.p, ev.inst.unit)
                bt = env.type_of(node.value)
                # direct item access on a result store: the entry is missing whenever the owner of the node
                # failed or has not published yet
                base_t = sym.term(ctx.p, node.value, ev.inst)
                if isinstance(base_t, tuple) and base_t and base_t[0] == 'attr' and base_t[2] in ctx.storage_class().fields \
                        and ev.inst.unit.cls is ctx.manager_class():
                    key = (ev.inst.unit.fid, text(node))
                    if key not in seen:
                        seen.add(key)
                        gs = guards(ev.inst.unit.node, node)
                        cont, k = text(node.value), text(node.slice)
                        guarded = any(pol and isinstance(e, ast.Compare) and len(e.ops) == 1 and isinstance(e.ops[0], ast.In)
                                      and text(e.left) == k and text(e.comparators[0]) == cont for e, pol in gs)
                        in_try = _inside_try_catching(ev.inst.unit.node, node, ('KeyError', 'LookupError', 'Exception'))
                        res.append((g, ev, 'guarded' if guarded else ('caught' if in_try else 'unguarded-store')))
                    continue
                if bt[0] != 'dict':
                    continue
                # defaultdict-style stores never raise
                if not any(_tainted(ctx, sym.term(ctx.p, e, i)) for e, i in resolve_all(ctx.p, node.slice, ev.inst)):
                    continue
                key = (ev.inst.unit.fid, text(node))
                if key in seen:
                    continue
                seen.add(key)
                gs = guards(ev.inst.unit.node, node)
                cont, k = text(node.value), text(node.slice)
                guarded = any(pol and _is_membership_of(env, e, k, cont) for e, pol in gs)
                in_try = _inside_try_catching(ev.inst.unit.node, node, ('KeyError', 'LookupError', 'Exception'))
                res.append((g, ev, 'guarded' if guarded else ('caught' if in_try else 'unguarded')))
    return res


def _is_membership_of(env: FuncEnv, e: ast.AST, k: str, cont: str, depth: int = 0) -> bool:
    """`e` being true implies `k in cont`: the membership test itself, or a local flag every definition of which is
    either that test or the constant False (`try: flag = k in cont except TypeError: flag = False`)."""
    if isinstance(e, ast.Compare) and len(e.ops) == 1 and isinstance(e.ops[0], ast.In):
        return text(e.left) == k and text(e.comparators[0]) == cont
    if isinstance(e, ast.Call) and depth < 2:
        # a predicate helper: every value it returns is the membership test on its own parameters, or False
        targets = [t for t in env.resolve_call(e) if t[0] == 'func']
        if len(targets) != 1 or targets[0][1].is_async:
            return False
        h = targets[0][1]
        a = h.node.args
        params = [x.arg for x in getattr(a, 'posonlyargs', [])] + [x.arg for x in a.args]
        if params and params[0] in ('self', 'cls') and not h.is_static:
            params = params[1:]
        actual = {pn: text(av) for pn, av in zip(params, e.args) if not isinstance(av, ast.Starred)}
        actual.update({kw.arg: text(kw.value) for kw in e.keywords if kw.arg})
        pk = [pn for pn, tv in actual.items() if tv == k]
        pc = [pn for pn, tv in actual.items() if tv == cont]
        if len(pk) != 1 or len(pc) != 1:
            return False
        henv = FuncEnv.of(env.p, h)
        if any(d_[0] != 'param' for pn in (pk[0], pc[0]) for d_ in henv.local_defs().get(pn, [])):
            return False            # a parameter that is rebound is not the caller's value any more
        tests = 0
        for n in henv.own_nodes():
            if isinstance(n, ast.Return):
                v = n.value
                if v is None or (isinstance(v, ast.Constant) and not v.value):
                    continue
                if _is_membership_of(henv, v, pk[0], pc[0], depth + 1):
                    tests += 1
                    continue
                return False
        return tests > 0
    if isinstance(e, ast.Name) and depth < 2:
        defs = env.local_defs().get(e.id, [])
        if not defs or not all(d[0] == 'assign' for d in defs):
            return False
        tests = 0
        for d in defs:
            v = d[1]
            if isinstance(v, ast.Constant) and v.value is False:
                continue
            if _is_membership_of(env, v, k, cont, depth + 1):
                tests += 1
                continue
            return False
        return tests > 0
    return False


def hashed_user_values(ctx: Ctx) -> List[Tuple[Graph, Ev]]:
    """Membership tests `<value derived from a node result> in <dict / set>`: the value is hashed, and a node may
    return an unhashable one (list, dict): a TypeError raised by engine code inside a task."""
    res = []
    seen = set()
    for fid, g in ctx.run_graphs().items():
        for ev in g.events('member'):
            node = ev.node
            if id(node) in seen or len(node.ops) != 1:
                continue
            env = FuncEnv.of(ctx.p, ev.inst.unit)
            ct = env.type_of(node.comparators[0])
            if ct[0] == 'seq' and not isinstance(_container_expr(ctx, node.comparators[0], ev.inst), (ast.Set, ast.SetComp)):
                hint = unparse(_container_expr(ctx, node.comparators[0], ev.inst))
                if not hint.startswith(('set(', 'frozenset(')):
                    continue            # list / tuple membership compares, it does not hash
            if ct[0] in ('ext', 'extsym') and 'str' in str(ct):
                continue
            if not any(_tainted(ctx, sym.term(ctx.p, e, i)) for e, i in resolve_all(ctx.p, node.left, ev.inst)):
                continue
            seen.add(id(node))
            res.append((g, ev))
    return res


def _container_expr(ctx: Ctx, expr: ast.AST, inst) -> ast.AST:
    e, i = sym.resolve_value(ctx.p, expr, inst)
    return e


def _inside_try_catching(root: ast.AST, node: ast.AST, names) -> bool:
    from ..guards import parents
    pm = parents(root)
    cur = node
    while id(cur) in pm:
        par = pm[id(cur)]
        if isinstance(par, ast.Try) and cur in par.body:
            for h in par.handlers:
                if h.type is None:
                    return True
                for t in (h.type.elts if isinstance(h.type, ast.Tuple) else [h.type]):
                    if (dotted(t) or '').split('.')[-1] in names:
                        return True
        cur = par
    return False


def rule_partial_lookups(ctx: Ctx, out: Collector) -> None:
    """ER-5: no partial look-up on a key derived from a node result without a dominating membership guard."""
    items = unguarded_partial_lookups(ctx)
    for g, ev, verdict in items:
        cons = ctx.construct(ev) + ' [look-up keyed by a node result]'
        if verdict == 'guarded':
            out.ok('ER-5', cons, ev.where(), 'dominated by a membership test of the same key in the same container')
        elif verdict == 'caught':
            out.ok('ER-5', cons, ev.where(), 'inside a try that catches the look-up error')
        elif verdict == 'unguarded-store':
            out.bad('ER-5', ctx.construct(ev) + ' [item access on a result store]', ev.where(),
                    f'{ev.text()} indexes a result store directly: the entry is absent when the node\'s owner failed (or has not '
                    f'published yet), the KeyError ends the task and becomes a possible outcome of the run instead of the node\'s '
                    f'real exception', props={'C05', 'C02'})
        else:
            out.bad('ER-5', cons, ev.where(),
                    f'{ev.text()} looks up a key that comes from a node result without a membership guard: a value no case / '
                    f'entry matches raises an engine-internal KeyError inside a task (outcome is a lookup error, or a hang when '
                    f'the task does not notify run())', props={'C02', 'C05', 'C09'})
    # hashing of a value that comes from a node result (membership in a dict / set): an unhashable value raises TypeError
    for g, ev in hashed_user_values(ctx):
        cons = ctx.construct(ev) + ' [a node result is hashed]'
        if _inside_try_catching(ev.inst.unit.node, ev.node, ('TypeError',)):
            out.ok('ER-5', cons, ev.where(), 'the TypeError of an unhashable value is handled where the value is hashed')
        else:
            out.bad('ER-5', cons, ev.where(),
                    f'{ev.text()} hashes a value that comes from a node result: for an unhashable one (a list, a dict) the engine\'s own '
                    f'TypeError ends the task and becomes the outcome of the run (or a hang when the task does not notify run()) '
                    f'instead of the documented error', props={'C05', 'C09', 'C02'})
    out.count('tainted_lookups', len(items))
    if not items:
        raise AnalysisError('no look-up keyed by a node result found (ER-5 anchor vanished: the switch label look-up)')


def rule_errors_as_values(ctx: Ctx, out: Collector) -> None:
    """ER-6: a caught exception becomes a *value* (is returned) only in errors-as-values dags (is_oneof);
    everywhere else the handler re-raises it unchanged."""
    n = 0
    seen = set()
    for fid, g in ctx.run_graphs().items():
        for r in g.events('return'):
            v = r.info.get('value')
            if v is None or r.inst.unit.cls is not ctx.manager_class():
                continue
            t = sym.term(ctx.p, v, r.inst)
            if not (isinstance(t, tuple) and t[0] == 'caught'):
                continue
            cons = ctx.construct(r) + ' [exception returned as a value]'
            if cons in seen:
                continue
            seen.add(cons)
            n += 1
            gs = guards(r.inst.unit.node, r.node)
            ok = any(pol and isinstance(e, ast.Attribute) and e.attr in ('is_oneof', 'is_nested_oneof') for e, pol in gs)
            if ok:
                out.ok('ER-6', cons, r.where(), 'only under the errors-as-values flag of the dag (is_oneof)')
            else:
                out.bad('ER-6', cons, r.where(), 'a caught exception is returned as the node\'s value outside an errors-as-values '
                                                 '(one-of) dag: the failure object is published as a result and the run can return '
                                                 'a value although a required node failed')
        # handlers of the manager that neither re-raise nor return the error on some path
        for h in g.events('handler'):
            if h.inst.unit.cls is not ctx.manager_class():
                continue
            cons = ctx.construct(h, h.node.type if h.node.type is not None else h.node) + ' [handler does not swallow]'
            if cons in seen:
                continue
            seen.add(cons)
            n += 1
            ends = reach(g, [h.id], labels=('n', 'T', 'F', 'back'))
            # falling out of the handler to the statement after the try = swallowed
            join = [m for m in ends if g.evs[m].kind == 'nop' and g.evs[m].info.get('what') == 'after-try'
                    and g.evs[m].node is _try_of(h)]
            retries = [m for m in ends if g.evs[m].kind in ('loophead', 'loop') and in_loop_body(h, g.evs[m])]
            if join and not retries:
                out.bad('ER-6', cons, h.where(), 'an exception handler of the run manager can fall through without re-raising or '
                                                 'returning the error: the failure is swallowed and the node looks successful')
            else:
                out.ok('ER-6', cons, h.where(), 'every path of the handler re-raises, returns a result, or retries')
    if n < 3:
        raise AnalysisError(f'only {n} handler/return constructs found (ER-6 anchors vanished)')


def _try_of(h: Ev):
    from ..guards import parents
    pm = parents(h.inst.unit.node)
    return pm.get(id(h.node))


def rule_error_identity(ctx: Ctx, out: Collector) -> None:
    """ER-9: an exception object handed out by the error scan is a value like any other: whether there *is* an error is decided
    by identity (`is None` / `is not None`), never by the truth value of the exception (an exception class may define __len__ /
    __bool__; raised empty it is falsy, the wake-up predicate of run() stays false and the run hangs)."""
    p = ctx.p
    firsts = {u.fid for u in _first_error_functions(ctx)}
    if not firsts:
        raise AnalysisError('no function handing out the exception of a failed task found (ER-9 anchor vanished)')
    from ..guards import parents
    n = 0
    problems = []
    for unit in _run_units(ctx):
        env = FuncEnv.of(p, unit)
        par = parents(unit.node)
        calls = [c for c in env.own_nodes() if isinstance(c, ast.Call) and any(t[0] == 'func' and t[1].fid in firsts for t in env.resolve_call(c))]
        if unit.fid in firsts:
            continue

        def truth_use(node: ast.AST) -> Optional[ast.AST]:
            """the node is used for its truth value: -> the construct that does so"""
            cur = node
            while id(cur) in par:
                up = par[id(cur)]
                if isinstance(up, ast.Call) and isinstance(up.func, ast.Name) and up.func.id == 'bool' and cur in up.args:
                    return up
                if isinstance(up, (ast.If, ast.While, ast.IfExp, ast.Assert)) and up.test is cur:
                    return up
                if isinstance(up, ast.UnaryOp) and isinstance(up.op, ast.Not):
                    return up
                if isinstance(up, ast.BoolOp):
                    cur = up
                    continue
                return None
            return None
        for c in calls:
            n += 1
            bad = truth_use(c)
            if bad is not None:
                problems.append((unit, bad))
            up = par.get(id(c))
            if isinstance(up, ast.Assign) and len(up.targets) == 1 and isinstance(up.targets[0], ast.Name):
                name = up.targets[0].id
                for use in env.own_nodes():
                    if isinstance(use, ast.Name) and use.id == name and isinstance(use.ctx, ast.Load):
                        bad = truth_use(use)
                        if bad is not None:
                            problems.append((unit, bad))
    if n == 0:
        raise AnalysisError('the error scan is never consulted on the run path (ER-9 anchor vanished)')
    mgr = ctx.manager_class()
    cons = f'{mgr.module.name}::{mgr.name}::the exception found by the error scan is tested by identity, not by truth value [error-identity]'
    if not problems:
        out.ok('ER-9', cons, p.loc(mgr.module, mgr.node), f'{n} uses of the error scan')
    else:
        unit, bad = problems[0]
        out.bad('ER-9', cons, p.loc(unit, bad), f'`{unparse(bad)[:70]}` takes the truth value of the exception object: a node failing with '
                f'a falsy exception (a class with __len__ / __bool__, raised empty) counts as "no error" - run() is never woken / the '
                f'failure is skipped and the output value (absent) is returned')
