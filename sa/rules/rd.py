"""RD-* (C03 readiness / arguments), SW-* (C09 switch laziness and routing)."""
from __future__ import annotations

import ast
from typing import Any, Dict, List, Optional, Set, Tuple

from .. import sym
from ..absint import AObj, Interp, Oracle, TOP, enumerate_outcomes
from ..cfg import Ev, Graph, find_path, reach
from ..engine import Ctx, resolve_all
from ..guards import guards, parents, text
from ..paths import EXC_LABELS, NORMAL_LABELS, Search
from ..program import AnalysisError, ClassInfo, FuncEnv, FuncUnit, dotted, norm_stmt, unparse
from ..report import Collector
from .cc import launch_loops
from .common import loop_region, path_text


def _wait_exits(g: Graph, wait: Ev) -> Set[int]:
    return {ev.id for ev in g.events('branch') if ev.info.get('what') == 'wait_for-pred' and ev.info.get('stmt') is wait.node
            and ev.inst is wait.inst}


def rule_launch_gated(ctx: Ctx, out: Collector) -> None:
    """RD-1: in the launch loop every spawn is preceded, in the same iteration, by the readiness wait
    on the loop variable."""
    n = 0
    seen = set()
    for fid, g in ctx.run_graphs().items():
        for lp, region, wait in launch_loops(ctx, g):
            cons = f'{lp.inst.unit.module.name}::{lp.inst.unit.qualname}::spawn gated by readiness wait'
            if cons in seen:
                continue
            seen.add(cons)
            n += 1
            exits = _wait_exits(g, wait) if wait is not None else set()
            tsucc = [m for m, lab in g.succ[lp.id] if lab == 'T']
            spawns = [m for m in region if g.evs[m].kind == 'call' and ctx.roles.spawn(g.evs[m])]
            bad = None
            for sp in spawns:
                for t in tsucc:
                    # a path inside the iteration that reaches the spawn without leaving the wait through
                    # its predicate-true exit
                    path = find_path(g, t, {sp}, avoid=exits | {lp.id}, labels=EXC_LABELS) if t != sp else [sp]
                    if path is not None:
                        bad = path
                        break
                if bad:
                    break
            if bad is None and exits:
                out.ok('RD-1', cons, lp.where(), f'{len(spawns)} spawn site(s), each dominated by the readiness wait of the iteration')
            else:
                out.bad('RD-1', cons, lp.where(), 'a node coroutine can be spawned in the launch loop without first waiting for the '
                                                  'readiness of that node: the body runs before its inputs exist',
                        path_text(g, bad) if bad else [])
    if n == 0:
        raise AnalysisError('no launch loop found (RD-1 anchor vanished)')


# ---------------------------------------------------------------------------------------------
# RD-3: builder / manager agreement on graph attributes
# ---------------------------------------------------------------------------------------------

def _enum_members(ctx: Ctx, name: str) -> Dict[str, Any]:
    for ci in ctx.p.classes_by_name.get(name, []):
        out = {}
        for f, (ann, default) in ci.fields.items():
            if isinstance(default, ast.Constant):
                out[f] = default.value
        return out
    raise AnalysisError(f'enum {name} not found')


def _attr_uses(ctx: Ctx, module_names: List[str], enum: str) -> Dict[str, Dict[str, List[Tuple[FuncUnit, ast.AST]]]]:
    """member -> {'write': [...], 'read': [...]} for uses `<enum>.<member>` in the given modules."""
    res: Dict[str, Dict[str, list]] = {}
    for unit in ctx.p.functions.values():
        if unit.module.name not in module_names:
            continue
        env = FuncEnv.of(ctx.p, unit)
        pm = parents(unit.node)
        for n in env.own_nodes():
            if not (isinstance(n, ast.Attribute) and isinstance(n.value, ast.Name) and n.value.id == enum):
                continue
            member = n.attr
            par = pm.get(id(n))
            kind = 'read'
            # **{Enum.x: value} / {Enum.x: value} as keyword dict of add_node / add_edge -> write
            if isinstance(par, ast.Dict) and n in par.keys:
                kind = 'write'
            elif isinstance(par, ast.Subscript) and par.slice is n and isinstance(par.ctx, (ast.Store, ast.Del)):
                kind = 'write'
            elif isinstance(par, ast.Call) and isinstance(par.func, ast.Attribute) and par.func.attr in ('setdefault', 'update'):
                kind = 'write'
            res.setdefault(member, {'write': [], 'read': []})[kind].append((unit, n))
    return res


def rule_field_agreement(ctx: Ctx, out: Collector) -> None:
    """RD-3: every graph attribute the builder writes is read by the run manager under the same key and vice versa (translation
    and execution agree on the attribute vocabulary).  Both sides are taken by value: what the interpreted `build()` leaves on
    the nodes / edges of the builder worlds, and the keys of the run manager's reads of `graph.nodes[..]` / `graph.edges[..]` on
    the run path - wherever the dictionaries are built or read (in line, in helpers, in another module)."""
    from ..absint import AClass, Interp, Oracle
    from .bw import _clean_worlds, run_build
    from .bx import _manager_reads
    written_n, written_e = set(), set()
    for label, (a, b_) in _clean_worlds(ctx).items():
        for o in run_build(ctx, a, b_):
            if o[0] != 'value':
                continue
            graph = o[1][0]
            for d in graph.attrs['nodes'].values():
                written_n |= set(d)
            for d in graph.attrs['edges'].values():
                written_e |= set(d)
    read_n, read_e = _manager_reads(ctx)
    interp = Interp(ctx.p, Oracle())
    n = 0
    for enum, written, read in (('NodeField', written_n, read_n), ('EdgeField', written_e, read_e)):
        ci = next((c for c in ctx.p.classes_by_name.get(enum, []) if c.module.name.startswith('ml_pipeline_engine')), None)
        if ci is None:
            raise AnalysisError(f'{enum} not found (RD-3 anchors vanished)')
        for member, (ann, default) in ci.fields.items():
            if default is None or member.startswith('_'):
                continue
            value = interp.eval(default, {'__module__': ci.module, '__unit__': None, '__closure__': None})
            n += 1
            cons = f'{enum}.{member}::written by the builder <-> read by the manager'
            where = ctx.p.loc(ci.module, ci.node)
            w, r = value in written, value in read
            if w and r:
                out.ok('RD-3', cons, where, f'written in the builder worlds, read on the run path (key {value!r})')
            elif w and not r:
                out.bad('RD-3', cons, where, f'the builder writes the graph attribute {enum}.{member} but the run manager never reads '
                                             f'it: that part of the declaration is ignored at run time')
            elif r and not w:
                out.bad('RD-3', cons, where, f'the run manager reads the graph attribute {enum}.{member} but the builder never '
                                             f'writes it: the manager decides on an attribute that is always missing')
            else:
                out.ok('RD-3', cons, where, 'not a graph attribute of the builder (run-time key of the manager)')
    if n < 8:
        raise AnalysisError('NodeField / EdgeField members not found (RD-3 anchors vanished)')


def _is_switch_functions(ctx: Ctx) -> List[FuncUnit]:
    mgr = ctx.manager_class()
    out = []
    for m in mgr.methods.values():
        for n in ast.walk(m.node):
            if isinstance(n, ast.Attribute) and isinstance(n.value, ast.Name) and n.value.id == 'NodeField' and n.attr == 'is_switch':
                if len(m.params()) == 2:
                    out.append(m)
                    break
    return out


def rule_switch_indirection(ctx: Ctx, out: Collector) -> None:
    """SW-3: every place that turns a predecessor into the node whose result is consumed applies the
    same switch indirection: for a switch predecessor the selected case (switch_results[p].node_id)."""
    mgr = ctx.manager_class()
    issw = {u.fid for u in _is_switch_functions(ctx)}
    if not issw:
        raise AnalysisError('is-switch test function not found (SW-3 anchor vanished)')
    n = 0
    for m in mgr.methods.values():
        env = FuncEnv.of(ctx.p, m)
        for node in env.own_nodes():
            if not isinstance(node, ast.For):
                continue
            # loop over predecessors (directly or through a local list built from predecessors)
            raw = False
            for e, i in _all_values(ctx, node.iter, m):
                for c in ast.walk(e):
                    if isinstance(c, ast.Call):
                        for t in FuncEnv.of(ctx.p, i.unit).resolve_call(c):
                            if t[0] == 'ext' and t[1].endswith('.predecessors'):
                                raw = True
                            # an accessor of the DAG that returns the graph's predecessors
                            if t[0] in ('func',) and t[1].cls is not ctx.manager_class() and _returns_raw_predecessors(ctx, t[1]):
                                raw = True
                            if t[0] == 'proto' and 'predecessors' in t[2]:
                                raw = True
            if not raw:
                continue
            # the switch resolver itself (writes switch_results) is not a consumer
            if _is_switch_resolver(ctx, m):
                continue
            # reads node results keyed by the loop variable, or rewrites the predecessor list
            names = {x.id for x in ast.walk(node.target) if isinstance(x, ast.Name)}
            uses_results = False
            for sub in ast.walk(node):
                if isinstance(sub, ast.Call) and isinstance(sub.func, ast.Attribute) and sub.func.attr in (
                        'get_node_result', 'exists_node_result', 'get_switch_result'):
                    uses_results = True
            if not uses_results:
                continue
            n += 1
            ok = False
            for sub in ast.walk(node):
                if isinstance(sub, ast.If):
                    tcalls = [c for c in ast.walk(sub.test) if isinstance(c, ast.Call)]
                    is_sw_test = False
                    for c in tcalls:
                        for t in env.resolve_call(c):
                            if t[0] == 'func' and t[1].fid in issw and c.args and isinstance(c.args[0], ast.Name) \
                                    and c.args[0].id in names:
                                is_sw_test = True
                    if not is_sw_test:
                        continue
                    for inner in ast.walk(ast.Module(body=sub.body, type_ignores=[])):
                        if isinstance(inner, ast.Attribute) and inner.attr == 'node_id' and isinstance(inner.value, ast.Call) \
                                and isinstance(inner.value.func, ast.Attribute) and inner.value.func.attr == 'get_switch_result':
                            a = inner.value.args[0] if inner.value.args else None
                            if isinstance(a, ast.Name) and a.id in names:
                                ok = True
            cons = f'{m.module.name}::{m.qualname}::for {unparse(node.target)} in {unparse(node.iter)} [switch indirection]'
            if ok:
                out.ok('SW-3', cons, ctx.p.loc(m, node), 'a switch predecessor is replaced by switch_results[p].node_id')
            else:
                out.bad('SW-3', cons, ctx.p.loc(m, node),
                        'this loop consumes results of predecessors but does not replace a switch predecessor by the selected case '
                        '(switch_results[p].node_id): readiness and argument delivery disagree about which node feeds the consumer')
    if n < 2:
        raise AnalysisError(f'only {n} predecessor loops found (SW-3 anchors vanished)')


def _writes_switch_result(unit: FuncUnit) -> bool:
    return any(isinstance(x, ast.Call) and isinstance(x.func, ast.Attribute) and x.func.attr == 'set_switch_result'
               for x in ast.walk(unit.node))


def _is_switch_resolver(ctx: Ctx, m: FuncUnit, depth: int = 0) -> bool:
    """m records the switch decision itself, or is a helper used only by functions that do."""
    if _writes_switch_result(m):
        return True
    if depth >= 2:
        return False
    callers = []
    for other in ctx.manager_class().methods.values():
        if other is m:
            continue
        env = FuncEnv.of(ctx.p, other)
        for n in env.own_nodes():
            if isinstance(n, ast.Call) and any(t[0] == 'func' and t[1] is m for t in env.resolve_call(n)):
                callers.append(other)
                break
    return bool(callers) and all(_is_switch_resolver(ctx, c, depth + 1) for c in callers)


def _returns_raw_predecessors(ctx: Ctx, unit: FuncUnit) -> bool:
    env = FuncEnv.of(ctx.p, unit)
    for n in env.own_nodes():
        if isinstance(n, ast.Call):
            for t in env.resolve_call(n):
                if t[0] == 'ext' and t[1].endswith('.predecessors'):
                    return True
    return False


def _all_values(ctx: Ctx, expr: ast.AST, unit: FuncUnit, inst=None, depth: int = 0):
    """Every expression a (possibly wrapped: list(...), enumerate(...), a if c else b) iterable may
    come from."""
    from ..cfg import Inst
    inst = inst or Inst(unit, None, None, {})
    out = []
    if depth > 6:
        return out
    for e, i in resolve_all(ctx.p, expr, inst):
        out.append((e, i))
        if isinstance(e, ast.Call):
            for a in e.args:
                parts = [a.body, a.orelse] if isinstance(a, ast.IfExp) else [a]
                for part in parts:
                    out.extend(_all_values(ctx, part, unit, i, depth + 1))
        elif isinstance(e, ast.IfExp):
            out.extend(_all_values(ctx, e.body, unit, i, depth + 1))
            out.extend(_all_values(ctx, e.orelse, unit, i, depth + 1))
    return out


def rule_kwargs_from_edges(ctx: Ctx, out: Collector) -> None:
    """RD-3b / RD-4: the argument dictionary of a node gets one entry per incoming edge under the edge's
    kwarg_name (none invented); the input node's arguments are (a copy of) the caller's input_kwargs."""
    mgr = ctx.manager_class()
    target = None
    for m in mgr.methods.values():
        src = unparse(m.node)
        has_ret_dict = any(isinstance(n, ast.Return) and isinstance(n.value, ast.Name) for n in ast.walk(m.node))
        if 'EdgeField.kwarg_name' in src and has_ret_dict and not m.is_async:
            target = m
    if target is None:
        raise AnalysisError('argument builder (kwarg_name / input_kwargs) not found (RD-3b/RD-4 anchor vanished)')
    m = target
    env = FuncEnv.of(ctx.p, m)
    rets = [n for n in env.own_nodes() if isinstance(n, ast.Return) and isinstance(n.value, ast.Name)]
    if not rets:
        raise AnalysisError(f'{m.fid} does not return a named dictionary')
    var = rets[0].value.id
    stores = [n for n in env.own_nodes() if isinstance(n, ast.Subscript) and isinstance(n.ctx, ast.Store)
              and isinstance(n.value, ast.Name) and n.value.id == var]
    bad = []
    for s_ in stores:
        k = s_.slice
        ktxt = unparse(k)
        if isinstance(k, ast.Name):
            defs = env.local_defs().get(k.id, [])
            ok = any(d[0] == 'assign' and 'kwarg_name' in unparse(d[1]) and 'edges' in unparse(d[1]) for d in defs)
            if not ok:
                bad.append(ktxt)
        elif isinstance(k, ast.Attribute) and k.attr == 'additional_data':
            continue
        else:
            bad.append(ktxt)
    cons = f'{m.module.name}::{m.qualname}::argument names come from the edges\' kwarg_name'
    if bad or not stores:
        out.bad('RD-3', cons, ctx.p.loc(m, m.node), f'the argument dictionary receives keys that are not the kwarg_name of an incoming '
                                                    f'edge ({", ".join(bad) or "no stores found"}): a parameter is invented or re-targeted')
    else:
        out.ok('RD-3', cons, ctx.p.loc(m, m.node), f'{len(stores)} stores, keyed by the edge attribute kwarg_name (plus additional_data)')
    # skip-if-None guard: edges without kwarg_name contribute nothing
    has_none_guard = any(isinstance(n, ast.If) and 'kwarg_name' in unparse(n.test) and 'None' in unparse(n.test) for n in env.own_nodes())
    cons = f'{m.module.name}::{m.qualname}::edges without kwarg_name are skipped'
    if has_none_guard:
        out.ok('RD-3', cons, ctx.p.loc(m, m.node), 'implicit input edges (no kwarg_name) add no argument')
    else:
        out.bad('RD-3', cons, ctx.p.loc(m, m.node), 'edges without kwarg_name are not skipped: the node receives an argument named None')
    # RD-4
    ifs = [n for n in env.own_nodes() if isinstance(n, ast.If) and 'input_node' in unparse(n.test)]
    cons = f'{m.module.name}::{m.qualname}::the input node receives the caller\'s input_kwargs'
    ok = False
    detail = 'no branch on the input node found'
    for node in ifs:
        t = node.test
        if not (isinstance(t, ast.Compare) and len(t.ops) == 1):
            continue
        input_branch = node.orelse if isinstance(t.ops[0], ast.NotEq) else node.body if isinstance(t.ops[0], ast.Eq) else None
        if input_branch is None:
            continue
        assigns = [s_ for s_ in input_branch if isinstance(s_, ast.Assign) and len(s_.targets) == 1
                   and isinstance(s_.targets[0], ast.Name) and s_.targets[0].id == var]
        others = [s_ for s_ in input_branch if s_ not in assigns]
        if len(assigns) == 1 and not others:
            v = assigns[0].value
            vt = unparse(v)
            if 'input_kwargs' in vt and not any(isinstance(x, (ast.Dict, ast.DictComp)) and not isinstance(v, ast.Call) for x in [v]):
                ok = True
                detail = vt
            else:
                detail = f'assigned from {vt}'
        else:
            detail = 'the input branch does more than take input_kwargs'
    if ok:
        out.ok('RD-4', cons, ctx.p.loc(m, m.node), f'kwargs of the input node = {detail}')
    else:
        out.bad('RD-4', cons, ctx.p.loc(m, m.node), f'the arguments of the input node are not exactly the caller\'s input_kwargs ({detail})')


# ---------------------------------------------------------------------------------------------
# SW-1: laziness - dags that are run come from the filtered view
# ---------------------------------------------------------------------------------------------

def _connect_functions(ctx: Ctx) -> List[FuncUnit]:
    """Functions that cut a sub-dag between two nodes out of a graph: they take (graph, source, dest), return
    `<graph>.subgraph(<node set>)` and record source / dest on it."""
    out = []
    for unit in ctx.p.functions.values():
        if isinstance(unit.node, ast.Lambda) or len(unit.params()) < 3:
            continue
        env = FuncEnv.of(ctx.p, unit)
        has_sub = False
        sets_ends = 0
        for n in env.own_nodes():
            if isinstance(n, ast.Call) and isinstance(n.func, ast.Attribute) and n.func.attr == 'subgraph' \
                    and isinstance(n.func.value, ast.Name) and n.func.value.id in unit.params():
                has_sub = True
            if isinstance(n, ast.Attribute) and isinstance(n.ctx, ast.Store) and n.attr in ('source', 'dest'):
                sets_ends += 1
        if sets_ends >= 2 and (has_sub or any(isinstance(n, ast.Return) and n.value is not None for n in env.own_nodes())) \
                and not unit.name.startswith('__') and unit.cls is None:
            out.append(unit)
    return out


def rule_subgraph_node_set(ctx: Ctx, out: Collector) -> None:
    """RC-7: the sub-dag between source and dest consists of exactly the nodes on dependency paths from source to dest (and of
    the edges between them), and records its end points.  Decided by interpreting the function over four small graphs with a side
    input, a dead-end branch, a diamond and a by-pass edge - whatever reachability idiom (all_simple_paths, descendants &
    ancestors, a helper) it is written with."""
    from ..absint import AObj, ARaise, Interp, Oracle, enumerate_outcomes
    units = _connect_functions(ctx)
    if not units:
        raise AnalysisError('connected-subgraph function not found (RC-7 / SW-1 anchor vanished)')
    worlds = {
        # name: (edges, source, dest, expected node set)
        'side input and dead end': ([('I', 'A'), ('A', 'B'), ('B', 'D'), ('I', 'S'), ('S', 'B'), ('A', 'X'), ('D', 'F')], 'A', 'D', {'A', 'B', 'D'}),
        'diamond': ([('I', 'A'), ('A', 'B'), ('A', 'C'), ('B', 'D'), ('C', 'D'), ('E', 'C'), ('D', 'F')], 'A', 'D', {'A', 'B', 'C', 'D'}),
        'by-pass edge': ([('A', 'B'), ('B', 'D'), ('A', 'D'), ('I', 'A'), ('B', 'Y')], 'A', 'D', {'A', 'B', 'D'}),
        'from the input node': ([('I', 'A'), ('I', 'B'), ('A', 'D'), ('B', 'Z'), ('Z', 'W')], 'I', 'D', {'I', 'A', 'D'}),
    }
    for unit in units:
        params = unit.params()
        src_, dst_ = params[1], params[2]
        cons = f'{unit.module.name}::{unit.qualname}::node set = nodes on paths {src_} -> {dst_}'
        problems = []
        for label, (edges, src, dst, want) in worlds.items():
            def run(oracle: Oracle, edges=edges, src=src, dst=dst):
                nodes = {}
                for u, v in edges:
                    nodes.setdefault(u, {})
                    nodes.setdefault(v, {})
                graph = AObj(('ext', 'networkx.DiGraph'), {'nodes': nodes, 'edges': {e: {} for e in edges}, 'graph': {'name': 'main'}}, tag='graph')
                res = Interp(ctx.p, oracle).call_unit(unit, [graph, src, dst], {})
                return res
            for o in enumerate_outcomes(run):
                if o[0] != 'value':
                    problems.append(f'{label}: raises {str(o[1])[:50]}')
                    continue
                res = o[1]
                if not (isinstance(res, AObj) and isinstance(res.attrs.get('nodes'), dict)):
                    raise AnalysisError(f'{unit.fid}: the result is not an abstract graph ({res!r}) (RC-7 anchor vanished)')
                got = set(res.attrs['nodes'])
                if got != want:
                    extra, missing = sorted(got - want), sorted(want - got)
                    problems.append(f'{label} ({src} -> {dst}): ' + (f'pulls in {extra}' if extra else '') + (' and ' if extra and missing else '')
                                    + (f'leaves out {missing}' if missing else ''))
                want_edges = {e for e in edges if e[0] in want and e[1] in want}
                if got == want and set(res.attrs['edges']) != want_edges:
                    problems.append(f'{label}: the edges between the nodes are {sorted(res.attrs["edges"])}, expected {sorted(want_edges)}')
                if res.attrs.get('source') != src or res.attrs.get('dest') != dst:
                    problems.append(f'{label}: the end points recorded on the sub-dag are ({res.attrs.get("source")!r}, {res.attrs.get("dest")!r})')
        if not problems:
            out.ok('RC-7', cons, ctx.p.loc(unit, unit.node), f'{len(worlds)} graphs: exactly the nodes on dependency paths, induced edges, end points recorded')
        else:
            out.bad('RC-7', cons, ctx.p.loc(unit, unit.node),
                    f'the sub-dag is not exactly the nodes on dependency paths from {src_} to {dst_} ({"; ".join(sorted(set(problems))[:3])}): side '
                    f'inputs outside the recurrent subgraph are pulled in, re-armed and re-executed on every iteration (or needed nodes are '
                    f'left out)', props={'C04', 'C11', 'C03'})


def _follow_values(ctx: Ctx, expr: ast.AST, inst, depth: int = 0):
    from ..engine import follow_values
    return follow_values(ctx.p, expr, inst, depth, awaited=False)


def rule_filtered_view(ctx: Ctx, out: Collector) -> None:
    """SW-1 / OO-3: every sub-dag that is cut out of the main graph on the run path is cut out of the
    filtered view (case_branch edges and untried one-of candidates removed), and the two filters reject
    exactly the flagged edges / nodes."""
    connect = {u.fid for u in _connect_functions(ctx)}
    if not connect:
        raise AnalysisError('connected-subgraph function not found (SW-1 anchor vanished)')
    seen = set()
    n = 0
    views = []
    for fid, g in list(ctx.run_graphs().items()):
        for ev in g.events('call'):
            tg = [t for t in ev.info.get('targets', ()) if t[0] == 'func' and t[1].fid in connect]
            if not tg:
                continue
            cons = ctx.construct(ev) + ' [sub-dag cut from the filtered view]'
            if cons in seen:
                continue
            seen.add(cons)
            n += 1
            c = ev.node
            garg = c.args[0] if c.args else next((k.value for k in c.keywords if k.arg in ('dag', 'graph', 'G')), None)
            if garg is None:
                raise AnalysisError(f'graph argument of {ev.text()} not found')
            e, i = sym.resolve_value(ctx.p, garg, ev.inst)
            is_view = False
            if isinstance(e, ast.Call):
                env = FuncEnv.of(ctx.p, i.unit)
                if any(t[0] == 'ext' and t[1].endswith('subgraph_view') for t in env.resolve_call(e)):
                    kws = {k.arg for k in e.keywords}
                    if {'filter_edge', 'filter_node'} <= kws:
                        is_view = True
                        views.append((e, i))
            props = {'C09', 'C11'}
            if isinstance(e, ast.Call) and any(t[0] == 'ext' and t[1].endswith('subgraph_view')
                                               for t in FuncEnv.of(ctx.p, i.unit).resolve_call(e)):
                kws_ = {k.arg for k in e.keywords}
                props = set()
                if 'filter_edge' not in kws_:
                    props |= {'C09', 'C11'}
                if 'filter_node' not in kws_:
                    props |= {'C10'}
            if is_view:
                out.ok('SW-1', cons, ev.where(), 'cut from nx.subgraph_view(graph, filter_edge=..., filter_node=...)')
            else:
                out.bad('SW-1', cons, ev.where(),
                        f'the sub-dag is cut from {unparse(e)[:80]} instead of the filtered view: case_branch edges and untried one-of '
                        f'candidates are not removed, so nodes needed only by a non-selected case / a later candidate are executed',
                        props=props)
    if n < 1:
        raise AnalysisError(f'no sub-dag construction found (SW-1 anchors vanished)')
    # RC-6: the dag of a recurrent re-iteration is also the set of nodes that is re-armed; it must contain the
    # case nodes of the switches inside it, i.e. it must not be cut from a view that drops case_branch edges
    seen6 = set()
    n6 = 0
    for fid, g in list(ctx.run_graphs().items()):
        for ev in g.events('call'):
            tg = [t for t in ev.info.get('targets', ()) if t[0] == 'func' and t[1].fid in connect]
            if not tg:
                continue
            c = ev.node
            rec = next((k.value for k in c.keywords if k.arg == 'is_recurrent'), None)
            if rec is None:
                continue
            rt = sym.term(ctx.p, rec, ev.inst)
            if rt != ('const', True):
                continue
            site = ev
            inst = ev.inst
            while inst.parent is not None and inst.unit.cls is ctx.manager_class() and inst.parent.unit.cls is ctx.manager_class() \
                    and not inst.unit.is_async:
                for cand in g.evs:
                    if cand.kind == 'call' and cand.info.get('callee') is inst:
                        site = cand
                        break
                inst = inst.parent
            cons = ctx.construct(site) + ' [recurrent dag keeps the case nodes it must re-arm]'
            if cons in seen6:
                continue
            seen6.add(cons)
            n6 += 1
            garg = c.args[0] if c.args else next((k.value for k in c.keywords if k.arg in ('dag', 'graph', 'G')), None)
            e, i = sym.resolve_value(ctx.p, garg, ev.inst)
            drops_cases = False
            if isinstance(e, ast.Call) and any(t[0] == 'ext' and t[1].endswith('subgraph_view')
                                               for t in FuncEnv.of(ctx.p, i.unit).resolve_call(e)):
                drops_cases = any(k.arg == 'filter_edge' for k in e.keywords)
            if drops_cases:
                out.bad('RC-6', cons, site.where(),
                        'the dag of the recurrent re-iteration is cut from the view without case_branch edges: the case nodes of a '
                        'switch inside the subgraph are neither re-armed nor re-executed, so from the second iteration on the '
                        'consumer of the switch is released with the case value of a superseded iteration', props={'C03', 'C11', 'C09'})
            else:
                out.ok('RC-6', cons, site.where(), 'cut from a graph that still contains the case_branch edges')
    if n6 == 0:
        raise AnalysisError('no recurrent sub-dag construction found (RC-6 anchor vanished)')
    # the filters themselves, evaluated over the finite attribute domain
    for e, i in views[:1]:
        kw = {k.arg: k.value for k in e.keywords}
        for which, fexpr in (('filter_edge', kw['filter_edge']), ('filter_node', kw['filter_node'])):
            hov = sym.resolve_callable_value(ctx.p, fexpr, i)
            if hov is None:
                raise AnalysisError(f'{which} of the filtered view cannot be resolved')
            unit = hov[0]
            cons = f'{unit.module.name}::{unit.qualname}::{which} rejects exactly the flagged elements'
            table = _eval_filter(ctx, unit, which, i.unit)
            problems = []
            for case, vals in table.items():
                expect = [not case.startswith('flagged')]
                if vals != expect:
                    problems.append(f'{case} -> {vals} (expected {expect})')
            if which == 'filter_node':
                # a candidate of one one-of that another node consumes through a plain input must stay visible to the
                # sub-dags of that consumer, started or not: otherwise the consumer's sub-dag is cut off from the input
                cons2 = f'{unit.module.name}::{unit.qualname}::filter_node keeps a one-of candidate that another node consumes directly'
                t2 = _eval_filter(ctx, unit, which, i.unit, extra_case=True)        # AnalysisError = undecided, never a verdict
                vals2 = next(iter(t2.values()))
                if vals2 == [True]:
                    out.ok('SW-1', cons2, ctx.p.loc(unit, unit.node), 'visible', props={'C02', 'C10'})
                else:
                    out.bad('SW-1', cons2, ctx.p.loc(unit, unit.node),
                            f'a node that is a candidate of one one-of and a plain input of another node is hidden from every sub-dag '
                            f'until its own one-of starts it ({vals2}): when the consumer is itself a candidate of a one-of that is '
                            f'scheduled first, its sub-dag is cut off from the input, it is never launched and the run waits forever',
                            props={'C02', 'C10'})
            if not problems:
                out.ok('SW-1', cons, ctx.p.loc(unit, unit.node), f'{table}')
            else:
                props = {'C09', 'C10'}
                if any(pr.startswith('started') for pr in problems):
                    # a candidate that was started is cut out of later sub-dags: it is never launched, its owner waits forever
                    props |= {'C02'}
                out.bad('SW-1', cons, ctx.p.loc(unit, unit.node), f'the {which} of the run view does not reject exactly the flagged '
                                                                  f'elements: {"; ".join(problems)}', props=props)


def _eval_filter(ctx: Ctx, unit: FuncUnit, which: str, parent: FuncUnit, extra_case: bool = False) -> Dict[str, List]:
    p = ctx.p
    mgr_cls = ctx.manager_class()
    table = {}
    if which == 'filter_edge':
        cases = {'plain edge': {}, 'kwarg edge': {'kwarg_name': 'x'}, 'flagged case_branch edge': {'case_branch': 'a', 'kwarg_name': None},
                 'flagged case_branch edge with a falsy label': {'case_branch': ''},
                 'flagged case_branch edge labelled None': {'case_branch': None}}
    elif extra_case:
        cases = {'candidate consumed directly by another node (not started)': {'is_oneof_child': True}}
    else:
        cases = {'plain node': {}, 'flagged is_oneof_child (not started)': {'is_oneof_child': True},
                 'started is_oneof_child': {'is_oneof_child': True}}
    for cname, attrs in cases.items():
        def run(oracle: Oracle, attrs=attrs, cname=cname):
            edge_attrs = dict(attrs) if not extra_case else {'kwarg_name': 'x'}        # U -> V is a plain dependency edge
            graph = AObj(('ext', 'networkx.DiGraph'), {'edges': {('U', 'V'): edge_attrs}, 'nodes': {'U': dict(attrs), 'V': {}},
                                                       'succ': {'U': {'V': edge_attrs}, 'V': {}}, 'pred': {'V': {'U': edge_attrs}, 'U': {}}})
            the_dag = AObj(('ext', 'DAG'), {'graph': graph, 'input_node': 'I', 'output_node': 'V', 'node_map': TOP})
            mgr = AObj(mgr_cls, {'dag': the_dag, 'ctx': TOP})
            for name, (ann, default) in mgr_cls.fields.items():
                t = p.ann_to_type(ann, mgr_cls.module) if ann is not None else None
                if t and t[0] == 'seq':
                    mgr.attrs[name] = {'U'} if cname.startswith('started') else set()
                elif t and t[0] == 'dict':
                    mgr.attrs[name] = {}
            interp = Interp(p, oracle)
            closure = {'__unit__': parent, '__closure__': None, '__module__': parent.module, 'self': mgr, '__self__': mgr}
            # free variables of a nested filter: the enclosing function's parameters - node ids are fresh tokens (the
            # node under test is none of them), flags are unknown (both outcomes explored)
            pa = parent.node.args
            for a_ in list(pa.args)[1:] + list(pa.kwonlyargs):
                ann = unparse(a_.annotation) if a_.annotation is not None else ''
                closure.setdefault(a_.arg, TOP if ('bool' in ann or a_.arg.startswith(('is_', 'with_', 'has_'))) else f'<{a_.arg}>')
            args = ['U', 'V'] if which == 'filter_edge' else ['U']
            if unit.cls is not None and unit.parent is None and not unit.is_static:
                # a bound method of the manager used as the filter
                return interp.truth(interp.call_unit(unit, args, {}, mgr, None))
            return interp.truth(interp.call_unit(unit, args, {}, None, closure))

        outs = enumerate_outcomes(run)
        table[cname] = sorted({o[1] if o[0] == 'value' else f'raises {o[1]}' for o in outs}, key=str)
    return table


# ---------------------------------------------------------------------------------------------
# RD-6: siblings that run an errors-as-values dag test it for errors
# ---------------------------------------------------------------------------------------------

def rule_error_gate_siblings(ctx: Ctx, out: Collector) -> None:
    """RD-6: every function that creates a sub-dag which may be in errors-as-values mode (is_oneof not
    constantly False) and runs it, tests that dag with the has-subgraph-error function before its
    consumers are released."""
    herr = {u.fid for u in ctx.has_error_functions()}
    mgr = ctx.manager_class()
    n = 0
    for m in mgr.methods.values():
        if not m.is_async:
            continue
        env = FuncEnv.of(ctx.p, m)
        created = []
        for node in env.own_nodes():
            if isinstance(node, ast.Call):
                kws = {k.arg: k.value for k in node.keywords}
                if 'is_oneof' in kws:
                    v = kws['is_oneof']
                    if isinstance(v, ast.Constant) and v.value is False:
                        continue
                    created.append(node)
        if not created:
            continue
        # does the function run a dag (await / spawn of the launch-loop function)?
        runs = any(isinstance(x, ast.Call) and isinstance(x.func, ast.Attribute) and any(
            t[0] == 'func' and _has_launch_loop(ctx, t[1]) for t in env.resolve_call(x)) for x in env.own_nodes())
        if not runs:
            continue
        n += 1
        tests = any(isinstance(x, ast.Call) and any(t[0] == 'func' and t[1].fid in herr for t in env.resolve_call(x))
                    for x in env.own_nodes())
        cons = f'{m.module.name}::{m.qualname}::runs a possibly errors-as-values dag => tests it for errors'
        if tests:
            out.ok('RD-6', cons, ctx.p.loc(m, m.node), 'the dag is tested with the has-subgraph-error function')
        else:
            out.bad('RD-6', cons, ctx.p.loc(m, m.node),
                    f'{m.qualname} runs a sub-dag with is_oneof={unparse({k.arg: k.value for k in created[0].keywords}["is_oneof"])} but never '
                    f'tests it for errors (its siblings do): inside a one-of candidate a failed node\'s exception object is handed '
                    f'to the consumer as a value and the run succeeds with it', props={'C03', 'C10'})
    if n < 2:
        raise AnalysisError(f'only {n} sub-dag runners found (RD-6 anchors vanished)')


_ll_cache: Dict[Tuple[int, str], bool] = {}


def _has_launch_loop(ctx: Ctx, unit: FuncUnit) -> bool:
    key = (id(ctx), unit.fid)
    if key not in _ll_cache:
        # the function holds the launch loop - itself or in a helper it runs inline
        from .cc import launch_loops
        found = False
        if unit.is_async and not isinstance(unit.node, ast.Lambda):
            try:
                found = any(True for _ in launch_loops(ctx, ctx.graph(unit.fid)))
            except AnalysisError:
                found = False
        _ll_cache[key] = found
    return _ll_cache[key]
