"""File-system worlds: FileSystemArtifactStore.save / load interpreted (abstract interpretation, nothing touches a disk) over
an abstract file system - a table path -> directory | file content - for small sets of tricky keys.  Everything of the store is
interpreted as written (its helpers, the serializer classes, the serializer factory, the DataFormat enum); the leaves are the
pathlib / pickle / json primitives, modelled below with their documented behaviour on the table.

FS-9   the store is a write-once map keyed exactly by the node id (C18), decided law by law:
         round trip            save(k, v, fmt); load(k) is v                                   for every key and format
         write once            a second save(k, ...) raises ArtifactAlreadyExists, load(k) is still v
         absent                load(k) of a key never saved raises ArtifactDoesNotExist, whatever other keys exist
         no aliasing           for every ordered pair of distinct keys: saving, failing to save or re-saving one never changes
                               what the other loads, nor whether it exists
         failed save           a save whose serializer raises leaves the key absent and may be repeated
       Keys with a path separator are the recorded defect FS-6 and are not part of these worlds.
"""
from __future__ import annotations

import itertools
from typing import Any, Dict, List, Optional, Tuple

from ..absint import AClass, AExt, AObj, ARaise, Interp, Oracle, TOP, enumerate_outcomes
from ..engine import Ctx
from ..program import AnalysisError, ClassInfo
from ..report import Collector

# the keys of the worlds: plain ids, ids that look like the hidden / scratch / backup names a save might use for another id, ids
# that contain a format suffix, glob metacharacters, the empty id.  The quick tier (depth 8) uses the first ten.
KEYS = ['X', '.X', 'a', 'a.b', 'a.pickle', '', 'x*', 'x_', 'x?', 'X.tmp', '.X.tmp', 'X.pickle.tmp',
        'a.json', '[ab]', '.X.pickle', '~X', 'X~', 'X.part', '.X.part', 'tmpX', 'X.bak', '.X.pickle.tmp', 'X.pickle~', '_X', 'X_', '#X#']
QUICK_KEYS = 12


class FS:
    """The abstract file system and the pathlib / serializer primitives over it."""

    def __init__(self, fail_dump_for: Optional[str] = None) -> None:
        self.table: Dict[str, Any] = {'/root': ('dir',)}
        self.ext: Dict[str, Any] = {}
        self.n = 0
        self.fail_dump = False
        self.log: List[str] = []
        self.ext['pathlib.Path'] = lambda a, k: self.path(self._s(a[0]) if a else '.')
        self.ext['operator.truediv'] = lambda a, k: self.path(self._join(self._s(a[0]), self._s(a[1])))
        self.ext['pickle.dump'] = lambda a, k: self._dump('pickle', a[0], a[1])
        self.ext['json.dump'] = lambda a, k: self._dump('json', a[0], a[1])
        self.ext['pickle.load'] = lambda a, k: self._load('pickle', a[0])
        self.ext['json.load'] = lambda a, k: self._load('json', a[0])
        self.ext['warnings.warn'] = lambda a, k: None
        self.ext['io.BytesIO'] = lambda a, k: self._buffer(True)
        self.ext['io.StringIO'] = lambda a, k: self._buffer(False)
        self.fail_write = False
        self.intrude = None              # callable run once, just before the first mutating operation (another context acts in between)
        self.crash_in_dump = False       # the writing process dies inside the serializer (no handler of the interpreted code runs)
        self.ext['os.replace'] = lambda a, k: self._replace(self._s(a[0]), self._s(a[1]))
        self.ext['os.rename'] = lambda a, k: self._replace(self._s(a[0]), self._s(a[1]))
        self.ext['os.unlink'] = lambda a, k: self._unlink(self._s(a[0]), False)
        self.ext['os.link'] = lambda a, k: self._link(self._s(a[0]), self._s(a[1]))
        self.ext['os.remove'] = lambda a, k: self._unlink(self._s(a[0]), False)
        self.ext['os.fspath'] = lambda a, k: self._s(a[0])
        # pure string functions of the standard library a store may use to build a file name: applied to the concrete strings
        import base64
        import os.path
        import urllib.parse

        def pure(fn):
            def call(a, k):
                if all(isinstance(x, (str, bytes, int)) for x in a) and all(isinstance(x, (str, bytes, int, type(None))) for x in k.values()):
                    return fn(*a, **k)
                return TOP
            return call
        for name_, fn_ in (('urllib.parse.quote', urllib.parse.quote), ('urllib.parse.quote_plus', urllib.parse.quote_plus),
                           ('urllib.parse.unquote', urllib.parse.unquote), ('os.path.basename', os.path.basename),
                           ('os.path.join', os.path.join), ('base64.urlsafe_b64encode', base64.urlsafe_b64encode)):
            self.ext[name_] = pure(fn_)
        # work handed to an executor / a thread runs to completion before the awaiting coroutine goes on: in these sequential worlds
        # it is simply called (what an overlap of two saves does with the suspension point is FS-10's question)
        self.interp = None

        def call_now(a, k, skip=0):
            fn, rest = a[skip], list(a[skip + 1:])
            if self.interp is None:
                raise AnalysisError('file-system world: executor call before the interpreter is attached')
            return self.interp.call(fn, rest, dict(k))
        loop = AObj(('ext', 'asyncio.AbstractEventLoop'), {}, tag='loop')
        loop.attrs['run_in_executor'] = self._method(lambda a, k: call_now(a, k, 1))
        for name_ in ('asyncio.get_running_loop', 'asyncio.get_event_loop', 'asyncio.events.get_running_loop'):
            self.ext[name_] = lambda a, k: loop
        self.ext['asyncio.to_thread'] = lambda a, k: call_now(a, k, 0)
        # the modelled objects (paths, open files) have exactly the attributes given here
        self.ext['builtins.hasattr'] = lambda a, k: (a[1] in a[0].attrs) if isinstance(a[0], AObj) and ('s' in a[0].attrs or 'path' in a[0].attrs) else TOP

    # ---- helpers
    @staticmethod
    def _s(v) -> str:
        if isinstance(v, AObj) and 's' in v.attrs:
            return v.attrs['s']
        if isinstance(v, str):
            return v
        raise AnalysisError(f'file-system world: a path built from {v!r}')

    @staticmethod
    def _join(a: str, b: str) -> str:
        if b.startswith('/'):
            return b
        return a.rstrip('/') + '/' + b if b != '' else a.rstrip('/') + '/'

    def _method(self, fn):
        self.n += 1
        name = f'fs.m{self.n}'
        self.ext[name] = fn
        return AExt(name)

    @staticmethod
    def _norm(s: str) -> str:
        # 'dir/' (join with the empty name) is the directory itself
        return s.rstrip('/') if len(s) > 1 else s

    def path(self, s: str) -> AObj:
        name = s.rstrip('/').rsplit('/', 1)[-1] if not s.endswith('/') else ''
        if s.endswith('/') and len(s) > 1:
            # pathlib drops an empty last component: Path('d') / '' == Path('d')
            s = s.rstrip('/')
            name = s.rsplit('/', 1)[-1]
        parent = s.rsplit('/', 1)[0] if '/' in s.strip('/') or s.startswith('/') else '.'
        suffix = ''
        if '.' in name.lstrip('.') and not name.endswith('.'):
            suffix = '.' + name.rsplit('.', 1)[-1]
        o = AObj(('ext', 'pathlib.Path'), {'s': s, 'name': name, 'suffix': suffix, 'stem': name[:len(name) - len(suffix)] if suffix else name},
                 tag=f'Path({s})')
        a = o.attrs
        a['exists'] = self._method(lambda ar, k: self._norm(s) in self.table)
        a['is_file'] = self._method(lambda ar, k: self.table.get(self._norm(s), ('none',))[0] == 'file')
        a['is_dir'] = self._method(lambda ar, k: self.table.get(self._norm(s), ('none',))[0] == 'dir')
        a['mkdir'] = self._method(lambda ar, k: self._mkdir(s, k))
        a['open'] = self._method(lambda ar, k: self._open(s, ar, k))
        a['unlink'] = self._method(lambda ar, k: self._unlink(s, bool(k.get('missing_ok', ar[0] if ar else False))))
        a['with_name'] = self._method(lambda ar, k: self.path(self._join(parent, self._s(ar[0]))))
        a['with_suffix'] = self._method(lambda ar, k: self.path(self._join(parent, a['stem'] + self._s(ar[0]))))
        a['replace'] = self._method(lambda ar, k: self._replace(s, self._s(ar[0])))
        a['rename'] = self._method(lambda ar, k: self._replace(s, self._s(ar[0])))
        a['hardlink_to'] = self._method(lambda ar, k: self._link(self._s(ar[0]), s))
        a['touch'] = self._method(lambda ar, k: self._touch(s, k))
        a['joinpath'] = self._method(lambda ar, k: self.path(self._join(s, self._s(ar[0]))))
        a['iterdir'] = self._method(lambda ar, k: [self.path(p_) for p_ in sorted(self.table) if p_.rsplit('/', 1)[0] == self._norm(s) and p_ != self._norm(s)])
        a['glob'] = self._method(lambda ar, k: self._glob(s, self._s(ar[0]), False))
        a['rglob'] = self._method(lambda ar, k: self._glob(s, self._s(ar[0]), True))
        a['match'] = self._method(lambda ar, k: __import__('fnmatch').fnmatchcase(name, self._s(ar[0])))
        a['__fspath__'] = self._method(lambda ar, k: s)
        a['__str__'] = self._method(lambda ar, k: s)
        a['parent'] = self.path(parent) if '/' in parent.strip('/') else None
        return o

    def _glob(self, s: str, pattern: str, recursive: bool) -> list:
        """Path.glob on the table: shell-style matching of the entries directly below (or anywhere below) the directory"""
        import fnmatch
        base = self._norm(s)
        out_ = []
        for p_ in sorted(self.table):
            if p_ == base or not p_.startswith(base + '/'):
                continue
            rel = p_[len(base) + 1:]
            if not recursive and '/' in rel:
                continue
            if fnmatch.fnmatchcase(rel.rsplit('/', 1)[-1] if recursive else rel, pattern):
                out_.append(self.path(p_))
        return out_

    def _mkdir(self, s: str, k) -> None:
        s = self._norm(s)
        if s in self.table:
            if not k.get('exist_ok'):
                raise ARaise('FileExistsError')
            return None
        par = s.rsplit('/', 1)[0]
        if par not in self.table:
            if not k.get('parents'):
                raise ARaise('FileNotFoundError')
            self._mkdir(par, {'parents': True, 'exist_ok': True})
        self.table[s] = ('dir',)
        return None

    def _touch(self, s: str, k) -> None:
        s = self._norm(s)
        if s in self.table and k.get('exist_ok') is False:
            raise ARaise('FileExistsError')
        self.table.setdefault(s, ('file', None))
        return None

    def _open(self, s: str, ar, k) -> AObj:
        mode = ar[0] if ar else k.get('mode', 'r')
        if not isinstance(mode, str):
            raise AnalysisError(f'file-system world: open() with an undecided mode {mode!r}')
        s = self._norm(s)
        if 'r' not in mode or '+' in mode:
            self._intrusion()
        kind = self.table.get(s, ('none',))[0]
        if kind == 'dir':
            raise ARaise('IsADirectoryError')
        par = s.rsplit('/', 1)[0]
        if 'r' in mode:
            if kind != 'file':
                raise ARaise('FileNotFoundError')
        else:
            if par not in self.table:
                raise ARaise('FileNotFoundError')
            if 'x' in mode and kind == 'file':
                raise ARaise('FileExistsError')
            if 'a' not in mode or kind != 'file':
                self.table[s] = ('file', None)
        self.log.append(f'open({s}, {mode})')
        h = AObj(('ext', 'io.File'), {'path': s, 'mode': mode}, tag=f'file({s})')
        h.attrs['__enter__'] = self._method(lambda a_, k_: h)
        h.attrs['__exit__'] = self._method(lambda a_, k_: None)
        h.attrs['seek'] = self._method(lambda a_, k_: 0)
        h.attrs['close'] = self._method(lambda a_, k_: None)
        h.attrs['flush'] = self._method(lambda a_, k_: None)
        h.attrs['fileno'] = self._method(lambda a_, k_: 3)
        h.attrs['write'] = self._method(lambda a_, k_: self._write_payload(h, a_[0]))
        h.attrs['read'] = self._method(lambda a_, k_: AObj(('ext', 'Payload'), {'content': self.table.get(s, ('none', None))[1], 'binary': 'b' in mode},
                                                          tag='payload'))
        return h

    def _buffer(self, binary: bool) -> AObj:
        """io.BytesIO / io.StringIO: an in-memory file"""
        b = AObj(('ext', 'io.Buffer'), {'binary': binary, 'content': None, 'mode': 'w+b' if binary else 'w+'}, tag='buffer')
        b.attrs['__enter__'] = self._method(lambda a_, k_: b)
        b.attrs['__exit__'] = self._method(lambda a_, k_: None)
        b.attrs['seek'] = self._method(lambda a_, k_: 0)
        b.attrs['close'] = self._method(lambda a_, k_: None)
        b.attrs['getvalue'] = self._method(lambda a_, k_: AObj(('ext', 'Payload'), {'content': b.attrs['content'], 'binary': binary}, tag='payload'))
        b.attrs['read'] = b.attrs['getvalue']
        b.attrs['getbuffer'] = b.attrs['getvalue']
        return b

    def _write_payload(self, h: AObj, payload) -> None:
        """file.write(<what a buffer held>)"""
        if self.fail_write:
            raise ARaise('OSError (no space left on device)')
        if not (isinstance(payload, AObj) and 'content' in payload.attrs):
            raise AnalysisError(f'file-system world: write of {payload!r}')
        if payload.attrs.get('binary') != ('b' in h.attrs['mode']):
            raise ARaise('TypeError (bytes / str written to a text / binary file)')
        if h.attrs['path'] in self.table:
            self.table[h.attrs['path']] = ('file', payload.attrs['content'])
        return None

    def _unlink(self, s: str, missing_ok: bool) -> None:
        s = self._norm(s)
        if self.table.get(s, ('none',))[0] != 'file':
            if missing_ok:
                return None
            raise ARaise('FileNotFoundError')
        del self.table[s]
        self.log.append(f'unlink({s})')
        return None

    def _intrusion(self) -> None:
        if self.intrude is not None:
            f, self.intrude = self.intrude, None
            f()

    def _link(self, src: str, dst: str) -> None:
        """os.link(src, dst): a second name for the file; fails when the new name exists (the exclusive publish)"""
        src, dst = self._norm(src), self._norm(dst)
        self._intrusion()
        if self.table.get(src, ('none',))[0] != 'file':
            raise ARaise('FileNotFoundError')
        if dst in self.table:
            raise ARaise('FileExistsError')
        self.table[dst] = self.table[src]
        self.log.append(f'link({src} -> {dst})')
        return None

    def _replace(self, src: str, dst: str):
        src, dst = self._norm(src), self._norm(dst)
        self._intrusion()
        if self.table.get(src, ('none',))[0] != 'file':
            raise ARaise('FileNotFoundError')
        if self.table.get(dst, ('none',))[0] == 'dir':
            raise ARaise('IsADirectoryError')
        self.table[dst] = self.table.pop(src)
        self.log.append(f'replace({src} -> {dst})')
        return self.path(dst)

    def _dump(self, kind: str, obj, fp) -> None:
        if not (isinstance(fp, AObj) and ('path' in fp.attrs or 'content' in fp.attrs)):
            raise AnalysisError('file-system world: dump into something that is not an open file')
        mode = fp.attrs['mode']
        if (kind == 'pickle') != ('b' in mode):
            raise ARaise('TypeError (text / binary mode does not fit the serializer)')
        if 'r' in mode and '+' not in mode:
            raise ARaise('UnsupportedOperation (not writable)')
        if self.fail_dump:
            raise ARaise('PicklingError (the value cannot be serialised)')
        if self.crash_in_dump:
            raise _Crash()
        if 'path' not in fp.attrs:
            fp.attrs['content'] = (kind, obj)            # an in-memory buffer
            return None
        if self.fail_write:
            raise ARaise('OSError (no space left on device)')
        if fp.attrs['path'] not in self.table:
            return None                                  # written into an unlinked file: gone
        self.table[fp.attrs['path']] = ('file', (kind, obj))
        return None

    def _load(self, kind: str, fp):
        if not (isinstance(fp, AObj) and ('path' in fp.attrs or 'content' in fp.attrs)):
            raise AnalysisError('file-system world: load from something that is not an open file')
        if (kind == 'pickle') != ('b' in fp.attrs['mode']):
            raise ARaise('TypeError (text / binary mode does not fit the serializer)')
        content = self.table.get(fp.attrs['path'], ('none', None))[1] if 'path' in fp.attrs else fp.attrs['content']
        if content is None:
            raise ARaise('EOFError (empty file)')
        if content[0] != kind:
            raise ARaise('UnpicklingError / JSONDecodeError (written by the other serializer)')
        # deserialising builds a new object every time: two loads never hand out the same mutable object
        self.n_loaded = getattr(self, 'n_loaded', 0) + 1
        return AObj(('ext', 'Loaded'), {'of': content[1]}, tag=f'loaded#{self.n_loaded}:{getattr(content[1], "tag", content[1])}')


def _store(ctx: Ctx) -> ClassInfo:
    from .fs import _store_class
    return _store_class(ctx)


class _Crash(BaseException):
    """The process dies: no handler of the interpreted code runs (not an ARaise)."""


class Session:
    """One store object over one abstract file system; operations are interpreted one after the other."""

    def __init__(self, ctx: Ctx, oracle: Oracle) -> None:
        self.ctx = ctx
        self.fs = FS()
        self.interp = Interp(ctx.p, oracle, ext_stubs=self.fs.ext, enum_objects=True)
        self.fs.interp = self.interp
        st = _store(ctx)
        context = AObj(('ext', 'Context'), {'model_name': 'model', 'pipeline_id': 'pid'}, tag='ctx')
        self.store = self.interp.construct(AClass(st), [], {'ctx': context, 'artifact_dir': '/root/artifacts'})
        self.save_u = ctx.p.lookup_method(st, 'save')
        self.load_u = ctx.p.lookup_method(st, 'load')
        fmt_cls = next((ci for ci in ctx.p.classes.values() if ci.name == 'DataFormat'), None)
        if self.save_u is None or self.load_u is None or fmt_cls is None:
            raise AnalysisError('FileSystemArtifactStore.save / load / DataFormat not found (FS-9 anchor vanished)')
        self.formats = {m.attrs['name']: m for m in self.interp.enum_members(fmt_cls)}
        if len(self.formats) < 2:
            raise AnalysisError('DataFormat has fewer than two members (FS-9 anchor vanished)')

    def second_store(self) -> AObj:
        """another store object over the same directory, model name and pipeline id (another context of the same pipeline run)"""
        context = AObj(('ext', 'Context'), {'model_name': 'model', 'pipeline_id': 'pid'}, tag='ctx2')
        return self.interp.construct(AClass(_store(self.ctx)), [], {'ctx': context, 'artifact_dir': '/root/artifacts'})

    def save(self, key: str, value, fmt: Optional[str], fail=False, store=None) -> str:
        """fail: False | True / 'serialise' (the serializer raises) | 'write' (the file system refuses the content)"""
        self.fs.fail_dump = fail in (True, 'serialise')
        self.fs.fail_write = fail == 'write'
        try:
            kw = {'node_id': key, 'data': value}
            if fmt is not None:
                kw['fmt'] = self.formats[fmt]
            self.interp.call_unit(self.save_u, [], kw, store if store is not None else self.store)
            return 'saved'
        except ARaise as ex:
            return f'raises {_short(ex.what)}'
        finally:
            self.fs.fail_dump = False
            self.fs.fail_write = False

    def load(self, key: str, store=None):
        try:
            return ('value', self.interp.call_unit(self.load_u, [], {'node_id': key}, store if store is not None else self.store))
        except ARaise as ex:
            return ('raises', _short(ex.what))


def _short(what: str) -> str:
    import re
    m = re.search(r'(Artifact\w+|[A-Z]\w*(Error|Exception|Operation))', what)
    return m.group(1) if m else what[:50]


def _tok(tag: str) -> AObj:
    return AObj(('ext', 'Value'), {}, tag=f'value:{tag}')


def _is(x, v) -> bool:
    if x[0] != 'value':
        return False
    got = x[1]
    if isinstance(got, AObj) and got.cls == ('ext', 'Loaded'):
        got = got.attrs['of']
    return got is v


def _errs(ctx: Ctx) -> Tuple[set, set]:
    p = ctx.p
    exists, missing = set(), set()
    for ci in p.classes.values():
        names = {c.name for c in p.mro(ci) if isinstance(c, ClassInfo)}
        if 'ArtifactAlreadyExists' in names:
            exists.add(ci.name)
        if 'ArtifactDoesNotExist' in names:
            missing.add(ci.name)
    return exists, missing


def decide_laws(ctx: Ctx):
    """(laws: law -> list of failing scenarios, counts: law -> number of scenarios, keys, formats); computed once per Ctx"""
    cached = getattr(ctx, '_fw_laws', None)
    if cached is not None:
        return cached
    p = ctx.p
    st = _store(ctx)
    exists_names, missing_names = _errs(ctx)
    laws: Dict[str, List[str]] = {'round trip': [], 'write once': [], 'absent': [], 'no aliasing': [], 'failed save': []}
    counts = {k: 0 for k in laws}

    def scenario(body) -> None:
        """one store over one file system; unknowns of the interpreted code are enumerated per scenario"""
        outs = enumerate_outcomes(lambda oracle: body(Session(ctx, oracle)))
        if len(outs) > 256:
            raise AnalysisError(f'file-system world: {len(outs)} resolutions of unknowns in one scenario')
        for o in outs:
            if o[0] != 'value':
                raise AnalysisError(f'file-system world: {o[1]}')

    fmts = sorted(Session(ctx, Oracle()).formats)
    KEYS_ = KEYS if ctx.depth > 8 else KEYS[:QUICK_KEYS]

    # ---- single-key laws
    for key in KEYS_:
        for fmt in [None] + fmts:
            for fmt2 in fmts:
                def single(s: Session, key=key, fmt=fmt, fmt2=fmt2):
                    label = f'key {key!r}, format {fmt or "default"}'
                    v, v2 = _tok('v'), _tok('v2')
                    r = s.load(key)
                    if not (r[0] == 'raises' and r[1] in missing_names):
                        laws['absent'].append(f'{label}: load before any save gives {r}')
                    for how in ('serialise', 'write'):
                        what = 'whose serializer raises' if how == 'serialise' else 'whose content the file system refuses (disk full)'
                        r = s.save(key, v, fmt, fail=how)
                        if not r.startswith('raises') or r.split()[-1] in exists_names:
                            laws['failed save'].append(f'{label}: a save {what} reports {r}')
                        r = s.load(key)
                        if not (r[0] == 'raises' and r[1] in missing_names):
                            laws['failed save'].append(f'{label}: after a save {what} load gives {r}')
                    r = s.save(key, v, fmt)
                    if r != 'saved':
                        laws['failed save' if 'Exists' in r else 'round trip'].append(f'{label}: save after a failed save {r}')
                        return True
                    r = s.load(key)
                    if not _is(r, v):
                        laws['round trip'].append(f'{label}: load after save gives {r}')
                    again = s.load(key)
                    if _is(r, v) and _is(again, v) and again[1] is r[1]:
                        laws['round trip'].append(f'{label}: two loads hand out the very same object (what the caller does to the first '
                                                  f'is seen through the second; another store on the directory reads the intact file)')
                    r = s.save(key, v2, fmt2)
                    if not (r.startswith('raises') and r.split()[-1] in exists_names):
                        laws['write once'].append(f'{label}: a second save (format {fmt2}) {r}')
                    r = s.load(key)
                    if not _is(r, v):
                        laws['write once'].append(f'{label}: after a second save (format {fmt2}) load gives {r}')
                    r = s.save(key, v2, fmt2, fail=True)
                    r = s.load(key)
                    if not _is(r, v):
                        laws['write once'].append(f'{label}: after a failing second save (format {fmt2}) load gives {r}')
                    return True
                for law in ('absent', 'failed save', 'round trip', 'write once'):
                    counts[law] += 1
                scenario(single)

    # ---- two store objects over one directory (two contexts of one pipeline id): what one saved the other finds
    laws['shared directory'] = []
    counts['shared directory'] = 0
    for key in KEYS_:
        for fmt in fmts:
            def shared(s: Session, key=key, fmt=fmt):
                label = f'key {key!r}, format {fmt}, two store objects A and B'
                a_, b_ = s.store, s.second_store()
                v, v2 = _tok('v'), _tok('v2')
                r = s.load(key, a_)                                   # A has looked at the (empty) directory
                if not (r[0] == 'raises' and r[1] in missing_names):
                    laws['shared directory'].append(f'{label}: A.load before any save gives {r}')
                if s.save(key, v, fmt, store=b_) != 'saved':
                    return True
                r = s.load(key, a_)
                if not _is(r, v):
                    laws['shared directory'].append(f'{label}: after B.save, A.load gives {r}')
                r = s.save(key, v2, fmt, store=a_)
                if not (r.startswith('raises') and r.split()[-1] in exists_names):
                    laws['shared directory'].append(f'{label}: after B.save, A.save {r}')
                r = s.load(key, b_)
                if not _is(r, v):
                    laws['shared directory'].append(f'{label}: after B.save and a refused A.save, B.load gives {r}')
                return True
            counts['shared directory'] += 1
            scenario(shared)

    # ---- pairs of keys
    for k1, k2 in itertools.permutations(KEYS_, 2):
        for f1 in fmts:
            for f2 in fmts:
                def pair(s: Session, k1=k1, k2=k2, f1=f1, f2=f2):
                    label = f'keys {k1!r} ({f1}) and {k2!r} ({f2})'
                    v1, v2 = _tok('v1'), _tok('v2')
                    if s.save(k1, v1, f1) != 'saved':
                        return True                  # reported by the single-key laws
                    r = s.load(k2)
                    if not (r[0] == 'raises' and r[1] in missing_names):
                        laws['no aliasing'].append(f'{label}: after saving the first, load of the second gives {r}')
                    r = s.save(k2, v2, f2, fail=True)
                    if r.split()[-1] in exists_names:
                        laws['no aliasing'].append(f'{label}: after saving the first, a save of the second {r}')
                    r = s.load(k1)
                    if not _is(r, v1):
                        laws['no aliasing'].append(f'{label}: after a failed save of the second, load of the first gives {r}')
                    r = s.save(k2, v2, f2)
                    if r != 'saved':
                        laws['no aliasing'].append(f'{label}: after saving the first, a save of the second {r}')
                        return True
                    r1, r2 = s.load(k1), s.load(k2)
                    if not _is(r1, v1) or not _is(r2, v2):
                        laws['no aliasing'].append(f'{label}: after saving both, they load {r1[0]} {getattr(r1[1], "tag", r1[1])} and '
                                                   f'{r2[0]} {getattr(r2[1], "tag", r2[1])}')
                    r = s.save(k1, _tok('v3'), f2)
                    if not (r.startswith('raises') and r.split()[-1] in exists_names):
                        laws['no aliasing'].append(f'{label}: with both saved, a second save of the first {r}')
                    return True
                counts['no aliasing'] += 1
                scenario(pair)

    total = sum(counts.values())
    if total < 200:
        raise AnalysisError(f'file-system worlds: only {total} scenarios interpreted (FS-9 anchor vanished)')
    ctx._fw_laws = (laws, counts, KEYS_, fmts)
    return ctx._fw_laws


def report_laws(ctx: Ctx, out: Collector, rule: str, which: List[str], title: str, consequence: str) -> None:
    """One instance of `rule`: the named laws of the file-system worlds."""
    laws, counts, keys_, fmts = decide_laws(ctx)
    st = _store(ctx)
    where = ctx.p.loc(st.module, st.node)
    problems = sorted({x for law in which for x in laws[law]})
    n = sum(counts[law] for law in which)
    cons = f'{st.module.name}::{st.name}::{title}'
    if not problems:
        out.ok(rule, cons, where, f'{n} scenarios over {len(keys_)} keys x {len(fmts)} formats ({", ".join(which)})', scenarios=n)
    else:
        out.bad(rule, cons, where, f'{consequence}: ' + '; '.join(problems[:3]) + (f' (+{len(problems) - 3} more)' if len(problems) > 3 else ''),
                scenarios=n, failing=problems[:20])


def rule_write_once_map(ctx: Ctx, out: Collector) -> None:
    """FS-9."""
    laws, counts, KEYS_, fmts = decide_laws(ctx)
    st = _store(ctx)
    where = ctx.p.loc(st.module, st.node)
    for law, problems in laws.items():
        cons = f'{st.module.name}::{st.name}::write-once map keyed exactly by the node id: {law} [fs-world {law}]'
        if not problems:
            out.ok('FS-9', cons, where, f'{counts[law]} scenarios over {len(KEYS_)} keys x {len(fmts or [])} formats', scenarios=counts[law])
        else:
            uniq = sorted(set(problems))
            out.bad('FS-9', cons, where, f'the store is not a write-once map keyed exactly by the node id ({law}): ' + '; '.join(uniq[:3])
                    + (f' (+{len(uniq) - 3} more)' if len(uniq) > 3 else ''), scenarios=counts[law], failing=uniq[:20])


def rule_exclusive_and_atomic_worlds(ctx: Ctx, out: Collector) -> None:
    """FS-8, decided in the file-system worlds.
    [exclusive create] Between the existence test of save and its first mutating operation another context (same model, pipeline
    id and directory) saves the same fresh key and is acknowledged: the value it stored must survive, and this save must not
    report success.  [atomic publish] The writing process dies inside the serializer (no clean-up runs): afterwards the key is
    either absent (load: does-not-exist, a new save succeeds) - never present with half a value."""
    p = ctx.p
    st = _store(ctx)
    save = p.lookup_method(st, 'save')
    where = p.loc(save, save.node)
    exists_err, missing_err = _errs(ctx)
    # the final path of a key: what a plain save adds to the table
    ref = Session(ctx, Oracle())
    ref.load('warm-up')                                   # the directory of the run exists from here on
    before = set(ref.fs.table)
    if ref.save('K', _tok('mine'), None) != 'saved':
        raise AnalysisError('FS-8: a plain save does not succeed in the file-system world')
    final = [x for x in ref.fs.table if x not in before and ref.fs.table[x][0] == 'file']
    if len(final) != 1:
        raise AnalysisError(f'FS-8: a plain save adds {final} (one file expected)')
    final = final[0]
    kind = ref.fs.table[final][1][0] if ref.fs.table[final][1] else 'pickle'
    # ---- exclusive create
    problems, table = [], {}

    def run_race(oracle: Oracle):
        s_ = Session(ctx, oracle)
        s_.load('warm-up')
        other = _tok('stored and acknowledged by the other context')

        def intruder():
            s_.fs.table.setdefault(final, ('file', (kind, other)))
        s_.fs.intrude = intruder
        r = s_.save('K', _tok('mine'), None)
        s_.fs.intrude = None
        content = s_.fs.table.get(final, ('none', None))
        kept = content[0] == 'file' and content[1] is not None and content[1][1] is other
        return r, kept, ('absent' if content[0] != 'file' else 'the other context\'s value' if kept else 'overwritten')
    for o in enumerate_outcomes(run_race):
        if o[0] != 'value':
            raise AnalysisError(f'FS-8 race world: {o[1]}')
        r, kept, what = o[1]
        table['another context saves the key between the test and the creation'] = f'this save: {r}; the file afterwards: {what}'
        if not kept or r == 'saved':
            problems.append(f'this save {("reports success" if r == "saved" else r)}, the file holds: {what}')
    cons = f'{st.module.name}::{st.name}.save::the key is created exclusively [exclusive create]'
    if not problems:
        out.ok('FS-8', cons, where, 'a value another context stored between the test and the creation survives, and this save does not report success', table=table)
    else:
        out.bad('FS-8', cons, where, f'save tests for the key and then creates the final file without exclusivity: two contexts sharing (model, pipeline id) and '
                f'directory both save the same fresh key (the second overwrites what the first acknowledged), and the clean-up of a failing save '
                f'unlinks a file another context wrote; the directory is created the same way (exists, then mkdir without exist_ok: '
                f'FileExistsError) - ' + '; '.join(sorted(set(problems))), table=table)
    # ---- atomic publish
    problems2, table2 = [], {}

    def run_crash(oracle: Oracle):
        s_ = Session(ctx, oracle)
        s_.load('warm-up')
        s_.fs.crash_in_dump = True
        try:
            s_.save('K', _tok('mine'), None)
            died = False
        except _Crash:
            died = True
        s_.fs.crash_in_dump = False
        s_.fs.fail_dump = s_.fs.fail_write = False
        if not died:
            return 'the serializer is not reached', None, None
        first = s_.load('K')
        again = s_.save('K', _tok('second attempt'), None)
        return 'died', first, again
    for o in enumerate_outcomes(run_crash):
        if o[0] != 'value':
            raise AnalysisError(f'FS-8 crash world: {o[1]}')
        how, first, again = o[1]
        if how != 'died':
            raise AnalysisError(f'FS-8 crash world: {how}')
        table2['the writer dies inside the serializer'] = f'load afterwards: {first[0]} {first[1] if first[0] == "raises" else ""}; a new save: {again}'
        if not (first[0] == 'raises' and first[1] in missing_err) or again != 'saved':
            problems2.append(f'after the death of a writer load gives {first[0]} {first[1] if first[0] == "raises" else "a value"} and a new save {again}')
    cons = f'{st.module.name}::{st.name}.save::the key appears only with its complete value [atomic publish]'
    if not problems2:
        out.ok('FS-8', cons, where, 'a writer that dies inside save leaves the key absent: load reports does-not-exist, a new save succeeds', table=table2)
    else:
        out.bad('FS-8', cons, where, 'the value is written in place into the final file, whose existence is the "saved" '
                'state: a concurrent load sees a half-written artifact (EOFError), and a writer that dies inside save leaves the key '
                'neither loadable nor savable for ever - ' + '; '.join(sorted(set(problems2))), table=table2)
