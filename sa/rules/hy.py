"""Rules added for the second batch of defects that independent bug-hunting agents reproduced on the unmodified tree
(DESIGN 9.10).  As in hx.py each rule states a structural necessary condition; where the current tree violates it the
construct is listed in known_findings.json.

EX-8   a body sent to the thread pool runs in a copy of the caller's contextvars context
EX-9   a pool that is not ready (shut down / broken) can be replaced by registering a new one
EX-10  the process pool does not fork the engine's own multi-threaded process
FS-6   every free-text component of an artifact key becomes exactly one path component
AS-5   the save of a published value cannot be cancelled by the end of the run
CC-9   no enumeration of paths (exponential) on the run path
CC-10  constructor and get_default of a node whose body goes to a pool do not run on the event-loop thread
CC-11  no execution mode runs a node body synchronously inside the node's task (siblings would be serialised)
"""
from __future__ import annotations

import ast
from typing import Dict, List, Optional, Set, Tuple

from .. import sym
from ..absint import AObj, ARaise, Interp, Oracle, TOP, enumerate_outcomes
from ..cfg import Ev, Graph, find_path, reach
from ..engine import Ctx, resolve_all
from ..paths import ALL_LABELS, EXC_LABELS, NORMAL_LABELS
from ..program import AnalysisError, ClassInfo, FuncEnv, FuncUnit, dotted, unparse
from ..report import Collector
from ..roles import ext_names
from .common import path_text, publishes
from .ex import RUN_NODE, _registries


def _expand(ctx: Ctx, unit: FuncUnit, e: ast.AST, depth: int = 0) -> List[ast.AST]:
    """The expression and, for local names in it, the expressions they were assigned (bounded)."""
    out = [e]
    if depth > 3:
        return out
    env = FuncEnv.of(ctx.p, unit)
    for n in ast.walk(e):
        if isinstance(n, ast.Name) and isinstance(n.ctx, ast.Load):
            for st in env.own_nodes():
                if isinstance(st, ast.Assign) and any(isinstance(t, ast.Name) and t.id == n.id for t in st.targets) and st.value is not e:
                    out.extend(_expand(ctx, unit, st.value, depth + 1))
    return out


# ---------------------------------------------------------------------------------------------
# EX-8
# ---------------------------------------------------------------------------------------------
def rule_context_propagated(ctx: Ctx, out: Collector) -> None:
    """EX-8: a coroutine node and an inline node see the context variables of the task that runs them; a body sent to
    the thread pool sees them only if the submitted callable is run through contextvars.copy_context().run (what
    asyncio.to_thread does).  Decided on the callable handed to run_in_executor."""
    p = ctx.p
    unit = p.func(RUN_NODE)
    # run_node and the helpers it calls (the hand-over may be a function of its own)
    units, todo = [], [unit]
    while todo:
        u = todo.pop()
        if u in units or len(units) > 12:
            continue
        units.append(u)
        env = FuncEnv.of(p, u)
        for c in env.own_nodes():
            if isinstance(c, ast.Call):
                todo.extend(t[1] for t in env.resolve_call(c) if t[0] == 'func' and t[1].module is unit.module)
    sites, to_thread = [], []
    for u in units:
        for n in ast.walk(u.node):
            if isinstance(n, ast.Call) and isinstance(n.func, ast.Attribute) and n.func.attr == 'run_in_executor':
                sites.append((u, n, n.args[1:]))
            elif isinstance(n, ast.Call) and isinstance(n.func, ast.Attribute) and n.func.attr == 'submit' and n.args:
                sites.append((u, n, n.args))
            elif isinstance(n, ast.Call) and (dotted(n.func) or '').endswith('to_thread'):
                to_thread.append(n)
    if not sites and not to_thread:
        raise AnalysisError('run_node hands nothing to an executor (EX-8 anchor vanished)')
    for u_, c, handed in sites:
        texts = ' '.join(unparse(x) for a in handed for x in _expand(ctx, u_, a))
        # wrappers defined in the repo: their bodies count
        for a in handed:
            for x in _expand(ctx, u_, a):
                for n in ast.walk(x):
                    if isinstance(n, ast.Name):
                        res = p.resolve_global(unit.module, n.id)
                        if res[0] == 'func':
                            texts += ' ' + unparse(res[1].node)
        cons = f'{unit.module.name}::{unit.qualname}::the callable handed to the thread pool runs in a copy of the caller\'s context [context-copied]'
        if 'copy_context' in texts:
            out.ok('EX-8', cons, p.loc(unit, c), 'contextvars.copy_context().run')
        else:
            out.bad('EX-8', cons, p.loc(unit, c), 'a body that runs in the thread pool does not see the context variables of the run '
                    '(request id, tenant, locale set by the caller or by an earlier coroutine node): loop.run_in_executor does not copy '
                    'the context, unlike a coroutine node, an inline node or asyncio.to_thread - the same declarations give another '
                    'result in thread mode')
    for c in to_thread:
        cons = f'{unit.module.name}::{unit.qualname}::the callable handed to the thread pool runs in a copy of the caller\'s context [context-copied]'
        out.ok('EX-8', cons, p.loc(unit, c), 'asyncio.to_thread copies the context')


# ---------------------------------------------------------------------------------------------
# EX-9
# ---------------------------------------------------------------------------------------------
def rule_pool_replaceable(ctx: Ctx, out: Collector) -> None:
    """EX-9: the registries are process-wide singletons.  A pool that is_ready() rejects (shut down, or broken by one run:
    a worker died, an exception could not be unpickled) must be replaceable: after register_pool_executor(new) on a registry
    holding a rejected pool, is_ready() accepts.  The two methods are interpreted over the pool states is_ready reads."""
    p = ctx.p
    regs = _registries(ctx)
    for kind, ci in regs.items():
        from .ex import _ready_facts
        ready, fields, flags, pool_field = _ready_facts(ctx, ci)
        flags = flags or ['_shutdown']
        reg = p.lookup_method(ci, 'register_pool_executor')
        if reg is None:
            raise AnalysisError('register_pool_executor not found (EX-9 anchor vanished)')
        table = {}
        problems = []
        for state in ('rejected', 'alive'):
            def run(oracle: Oracle, state=state):
                old = AObj(('ext', 'Pool'), {f: state == 'rejected' for f in flags}, tag=f'pool-{state}')
                new = AObj(('ext', 'Pool'), {f: False for f in flags}, tag='pool-new')
                obj = AObj(ci, {f: AObj(('ext', 'X'), {}) for f in fields})
                obj.attrs[pool_field] = old
                interp = Interp(p, oracle)
                interp.call_unit(reg, [new], {}, obj)
                try:
                    interp.call_unit(ready, [], {}, obj)
                except ARaise:
                    return 'still rejected', getattr(obj.attrs.get(pool_field), 'tag', None)
                return 'ready', getattr(obj.attrs.get(pool_field), 'tag', None)
            outs = enumerate_outcomes(run)
            got = sorted({o[1] if o[0] == 'value' else ('raises ' + str(o[1]), None) for o in outs}, key=str)
            table[f'{state} pool, register(new)'] = [f'{a} (pool: {b})' for a, b in got]
            if state == 'rejected' and any(a != 'ready' for a, b in got):
                problems.append(f'registry holding a rejected pool, register_pool_executor(new): {got}')
        cons = f'{ci.module.name}::{ci.name}.register_pool_executor::a pool that is_ready() rejects can be replaced [{kind}-pool-replaceable]'
        if not problems:
            out.ok('EX-9', cons, p.loc(reg, reg.node), 'after registering a new pool the registry is ready', table=table)
        else:
            out.bad('EX-9', cons, p.loc(reg, reg.node), 'once the process-wide pool is shut down or broken (one run\'s worker dies, one run\'s '
                    'exception cannot be unpickled) registering a new pool is silently ignored: every later run of every chart fails '
                    'with "pool not specified", auto_init() included - a failing run leaves state behind that all later and '
                    'overlapping runs observe: ' + '; '.join(problems), table=table)


# ---------------------------------------------------------------------------------------------
# EX-10
# ---------------------------------------------------------------------------------------------
def rule_fork_context(ctx: Ctx, out: Collector) -> None:
    """EX-10: the engine runs node bodies in its own thread pool; a process pool whose workers are forked (lazily, at the
    first submit, from the loop thread) copies whatever locks those threads hold, locked for ever.  The start method of
    the pool the engine creates itself must not be fork."""
    p = ctx.p
    n = 0
    for u in p.functions.values():
        if 'parallelism' not in u.module.name:
            continue
        for c in ast.walk(u.node):
            if isinstance(c, ast.Call) and (dotted(c.func) or '').split('.')[-1] == 'ProcessPoolExecutor':
                n += 1
                kws = {k.arg: k.value for k in c.keywords}
                method = None
                mp = kws.get('mp_context')
                if mp is not None:
                    for x in _expand(ctx, u, mp):
                        for y in ast.walk(x):
                            if isinstance(y, ast.Call) and (dotted(y.func) or '').split('.')[-1] == 'get_context' and y.args \
                                    and isinstance(y.args[0], ast.Constant):
                                method = y.args[0].value
                cons = f'{u.module.name}::{u.qualname}::the process pool created by the engine does not fork a multi-threaded process [start-method]'
                if method in ('spawn', 'forkserver'):
                    out.ok('EX-10', cons, p.loc(u, c), f'start method {method}')
                else:
                    out.bad('EX-10', cons, p.loc(u, c), f'start method {method or "platform default (fork on Linux)"}: the workers are '
                            f'forked at the first submit, from the event-loop thread, while the engine\'s own thread pool may be running node '
                            f'bodies of other runs: every worker inherits the locks those threads hold (logging, library locks) in the '
                            f'locked state, so a process node that overlaps a thread node can hang, in this run and in all later ones')
    if n == 0:
        raise AnalysisError('no ProcessPoolExecutor construction in the parallelism package (EX-10 anchor vanished)')


# ---------------------------------------------------------------------------------------------
# FS-6
# ---------------------------------------------------------------------------------------------
SANITISERS = {'quote', 'quote_plus', 'hexdigest', 'urlsafe_b64encode', 'b32encode', 'hex', 'b16encode', 'sha1', 'sha256', 'md5',
              'blake2b', 'uuid5'}
KEY_PARTS = {'node_id': 'node id', 'model_name': 'model name', 'pipeline_id': 'pipeline id'}


def _is_sanitiser(ctx: Ctx, unit: FuncUnit, c: ast.Call, depth: int = 0) -> bool:
    d = dotted(c.func) or (c.func.attr if isinstance(c.func, ast.Attribute) else '')
    last = d.split('.')[-1]
    if last in SANITISERS:
        return True
    if depth > 2:
        return False
    # an in-repo helper that sanitises or validates (raises on a separator)
    for t in FuncEnv.of(ctx.p, unit).resolve_call(c):
        if t[0] == 'func':
            body = t[1].node
            for n in ast.walk(body):
                if isinstance(n, ast.Call) and n is not c and _is_sanitiser(ctx, t[1], n, depth + 1):
                    return True
            txt = unparse(body)
            if any(isinstance(n, ast.Raise) for n in ast.walk(body)) and ('os.sep' in txt or "'/'" in txt or '"/"' in txt or 'separator' in txt
                                                                           or 'fullmatch' in txt or 'isalnum' in txt):
                return True
    return False


def _raw_parts(ctx: Ctx, unit: FuncUnit, e: ast.AST, depth: int = 0, seen=None) -> Set[str]:
    """Key parts that reach the expression without passing a sanitiser."""
    seen = seen if seen is not None else set()
    out: Set[str] = set()
    if id(e) in seen or depth > 6:
        return out
    seen.add(id(e))
    if isinstance(e, ast.Call) and _is_sanitiser(ctx, unit, e):
        return out
    if isinstance(e, ast.Name):
        if e.id in KEY_PARTS:
            out.add(KEY_PARTS[e.id])
        env = FuncEnv.of(ctx.p, unit)
        for st in env.own_nodes():
            if isinstance(st, ast.Assign) and any(isinstance(t, ast.Name) and t.id == e.id for t in st.targets):
                out |= _raw_parts(ctx, unit, st.value, depth + 1, seen)
        return out
    if isinstance(e, ast.Attribute) and e.attr in KEY_PARTS:
        out.add(KEY_PARTS[e.attr])
        return out
    if isinstance(e, ast.Call):
        # the value of an in-repo helper (self._ensure_dir()): the raw parts of what it returns
        for t in FuncEnv.of(ctx.p, unit).resolve_call(e):
            if t[0] == 'func' and depth < 4:
                for n in FuncEnv.of(ctx.p, t[1]).own_nodes():
                    if isinstance(n, ast.Return) and n.value is not None:
                        out |= _raw_parts(ctx, t[1], n.value, depth + 1, seen)
    for ch in ast.iter_child_nodes(e):
        out |= _raw_parts(ctx, unit, ch, depth + 1, seen)
    return out


def rule_path_components(ctx: Ctx, out: Collector) -> None:
    """FS-6: node ids, model names and pipeline ids are free text.  Joined to a path as they are, a separator, `..` or an
    absolute id leaves the directory of the key (distinct keys alias, artifacts are written outside the store, a save
    fails on a missing directory) and a long id is not a legal file name.  Every key part passes a sanitising /
    validating function before it is joined to a path."""
    from .fs import _store_class
    p = ctx.p
    ci = _store_class(ctx)
    raw: Dict[str, Tuple[FuncUnit, ast.AST]] = {}
    joins = 0
    scanned = list(ci.methods.values()) + [u for u in p.functions.values() if u.module is ci.module and u.cls is None and u.parent is None
                                           and not isinstance(u.node, ast.Lambda)]
    for m in scanned:
        for n in FuncEnv.of(p, m).own_nodes():
            parts: List[ast.AST] = []
            if isinstance(n, ast.BinOp) and isinstance(n.op, ast.Div):
                parts = [n.right]
                if not (isinstance(n.left, ast.BinOp) and isinstance(n.left.op, ast.Div)):
                    parts.append(n.left)
            elif isinstance(n, ast.Call) and isinstance(n.func, ast.Attribute) and n.func.attr in ('joinpath', 'with_name', 'glob', 'rglob'):
                parts = list(n.args)
            elif isinstance(n, ast.Call) and (dotted(n.func) or '').split('.')[-1] in ('Path', 'PurePath', 'join') and len(n.args) > 1:
                parts = list(n.args)
            for part in parts:
                joins += 1
                for k in _raw_parts(ctx, m, part):
                    raw.setdefault(k, (m, n))
    if joins == 0:
        raise AnalysisError('no path is built in the filesystem store (FS-6 anchor vanished)')
    for k in KEY_PARTS.values():
        tag = k.replace(' ', '-')
        cons = f'{ci.module.name}::{ci.name}::the {k} becomes exactly one path component [{tag}-one-component]'
        if k not in raw:
            out.ok('FS-6', cons, p.loc(ci.module, ci.node), 'sanitised / validated before it is joined to a path')
        else:
            m, n = raw[k]
            out.bad('FS-6', cons, p.loc(m, n), f'the {k} is joined to the artifact path as it is ({unparse(n)[:70]}): with a path separator, '
                    f'"..", or an absolute value the artifact leaves the directory of its key - distinct keys alias each other, a '
                    f'load finds what another context saved, a save fails on a missing directory - and a long id is not a legal '
                    f'file name (OSError instead of the documented errors)')


# ---------------------------------------------------------------------------------------------
# AS-5
# ---------------------------------------------------------------------------------------------
def rule_save_survives_run_exit(ctx: Ctx, out: Collector) -> None:
    """AS-5: run() returns as soon as the output value is visible and then cancels every registered task.  A task that
    publishes first and saves afterwards can be cancelled inside the save: the run succeeds, the node was executed, its
    artifact is missing.  The save of a published value is awaited before the publication, or shielded from the
    cancellation."""
    n = 0
    seen = set()
    for fid, g in ctx.run_graphs().items():
        saves = [ev for ev in g.events('call') if ctx.roles.collab(ev) == 'store' and ev.inst.unit.cls is ctx.manager_class()]
        pubs = publishes(ctx, g, ['node_results'])
        for sv in saves:
            cons = ctx.construct(sv) + ' [save not cancellable by the end of the run]'
            if cons in seen:
                continue
            seen.add(cons)
            n += 1
            c = sv.node
            key = sym.term(ctx.p, c.args[0], sv.inst) if c.args else None
            before = [pb for pb in pubs if pb.key == key and find_path(g, pb.ev.id, {sv.id}, labels=NORMAL_LABELS) is not None]
            shielded = False
            from ..guards import parents
            par = parents(sv.inst.unit.node)
            cur = c
            while id(cur) in par:
                cur = par[id(cur)]
                if isinstance(cur, ast.Call) and (dotted(cur.func) or '').split('.')[-1] == 'shield':
                    shielded = True
            if not before or shielded:
                out.ok('AS-5', cons, sv.where(), 'saved before the value is visible' if not before else 'shielded')
            else:
                out.bad('AS-5', cons, sv.where(), 'the value is published first and saved afterwards: once the output value is visible run() '
                        'returns and cancels every unfinished task, including the one that is inside this save - the run succeeds, the '
                        'node was executed, and its artifact (typically the output node\'s) is missing',
                        path_text(g, find_path(g, before[0].ev.id, {sv.id}, labels=NORMAL_LABELS)))
    if n == 0:
        raise AnalysisError('no artifact save found on the run path (AS-5 anchor vanished)')


# ---------------------------------------------------------------------------------------------
# CC-9
# ---------------------------------------------------------------------------------------------
ENUMERATORS = {'all_simple_paths', 'all_simple_edge_paths', 'simple_cycles', 'all_shortest_paths', 'shortest_simple_paths'}


def rule_no_path_enumeration(ctx: Ctx, out: Collector) -> None:
    """CC-9: everything on the run path runs on the event-loop thread between two suspension points.  Enumerating the
    simple paths of a DAG is exponential in its width x depth, blocks the loop and delays the start of every ready node
    of every run; the node set between two nodes is ancestors & descendants, linear."""
    n = 0
    seen = set()
    for fid, g in ctx.run_graphs().items():
        reachable = g.reachable_from_entry()
        for ev in g.events('call'):
            if ev.id not in reachable:
                continue
            names = [x.split('.')[-1] for x in ext_names(ev)]
            d = (dotted(ev.node.func) or '') if isinstance(ev.node, ast.Call) else ''
            hit = [x for x in names + [d.split('.')[-1]] if x in ENUMERATORS]
            if not hit:
                continue
            cons = ctx.construct(ev) + ' [path enumeration on the loop thread]'
            if cons in seen:
                continue
            seen.add(cons)
            n += 1
            out.bad('CC-9', cons, ev.where(), f'networkx.{hit[0]} enumerates every simple path between two nodes - exponentially many in a '
                    f'layered DAG - on the event-loop thread: while it runs no node of any run is started, so siblings that are ready '
                    f'are not in flight together (43 nodes: over a second)', [f'reached through {ev.inst.chain()}'])
    unit = ctx.manager_run()
    if n == 0:
        out.ok('CC-9', f'{unit.module.name}::{unit.qualname}::no path enumeration on the run path', ctx.p.loc(unit, unit.node),
               f'none of {sorted(ENUMERATORS)} is reachable from run()')


# ---------------------------------------------------------------------------------------------
# CC-10 / CC-11
# ---------------------------------------------------------------------------------------------
def rule_user_code_off_loop(ctx: Ctx, out: Collector) -> None:
    """CC-10: for a node whose body is sent to a pool, the other user code of the node - its constructor and get_default -
    still runs on the event-loop thread, inside the node's task: a slow constructor serialises the siblings.
    CC-11: the inline (non_async) mode runs the body itself there."""
    p = ctx.p
    unit = p.func(RUN_NODE)
    seen: Dict[str, Ev] = {}
    for fid, g in ctx.run_graphs().items():
        reachable = g.reachable_from_entry()
        for ev in g.events('call'):
            if ev.id not in reachable:
                continue
            kind = ctx.roles.body(ev)
            if kind in ('ctor', 'default'):
                seen.setdefault(kind, ev)
    for kind, label in (('ctor', 'constructor'), ('default', 'get_default')):
        ev = seen.get(kind)
        cons = f'{unit.module.name}::{unit.qualname}::the {label} of a pool-mode node does not run on the event-loop thread [{kind}-off-loop]'
        if ev is None:
            out.ok('CC-10', cons, p.loc(unit, unit.node), f'no {label} call on the run path')
        else:
            out.bad('CC-10', cons, ev.where(), f'the {label} of every node runs synchronously inside the node\'s task, on the event-loop thread, '
                    f'also for nodes whose body is sent to the thread or process pool: while it runs no sibling is started, so two '
                    f'pool-mode nodes with the same dependencies and a slow {label} are executed one after the other',
                    [f'reached through {ev.inst.chain()}'])
    # CC-11: the inline branch
    g = ctx.graph(RUN_NODE)
    inline = [ev for ev in g.events('call') if ctx.roles.body(ev) == 'process' and not ev.info.get('awaited')
              and not _is_awaited(unit, ev.node)]
    cons = f'{unit.module.name}::{unit.qualname}::no execution mode runs a body synchronously inside the node\'s task [inline-mode]'
    if not inline:
        out.ok('CC-11', cons, p.loc(unit, unit.node), 'every body is awaited or sent to an executor')
    else:
        out.bad('CC-11', cons, inline[0].where(), 'the non_async mode calls the body on the event-loop thread without a suspension point: the '
                'siblings of such a node are started only after its body has returned - by construction of the mode, "whatever their '
                'execution mode" does not hold for it')


def _is_awaited(unit: FuncUnit, call: ast.AST) -> bool:
    for n in ast.walk(unit.node):
        if isinstance(n, ast.Await) and n.value is call:
            return True
    return False
