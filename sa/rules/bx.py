"""The translation of the mark kinds, decided over builder worlds and checked against the reader - the run manager.

These rules replace the syntax-directed checks of the mark branches of the traversal (which matched the spelling of the
branches: attribute dictionaries written in line, `get_node_id(mark.x)` as an argument, a comprehension over `mark.nodes`).
`build()` is interpreted over small declaration sets (rules/bw.py); the graph it produces is then handed to the interpreted
functions of the run manager that read it, so that what the builder writes and what the manager reads are compared by meaning:

  BD-2   every declared parameter of every mark kind reaches its consumer: the manager's argument builder, interpreted on the
         built graph, yields exactly one argument per declared parameter, under the declared name, holding the result of the
         declared source (the selected case for a switch, the head for a one-of)
  BD-3   two parameters of one node bound to the same source stay distinguishable (recorded defect)
  BD-4   the implicit link from the input node exists exactly for nodes without marks other than the input node
  BD-7   the built graph does not depend on the order of a consumer's parameters when a node plays two roles (one-of candidate /
         recurrent destination / switch case and plain input): every role's attributes and registrations are there in both orders
  BD-8   synthetic nodes are per declared parameter: two unnamed switch / one-of parameters with the same operands give two
         synthetic nodes; one mark object used by two consumers gives one synthetic node delivering to both
  SW-6   the manager recognises the synthetic switch node the builder built, selects the case by the decider's value, and rejects
         a value without a case
  OO-3   the manager recognises the one-of head; candidates are listed in declared order and flagged
  RC-5   the attributes the manager reads off a recurrent destination are the ones the builder wrote (start node id, bound), and
         the subgraph is validated wherever else its destination is used
  RD-3   every node / edge attribute key the manager reads is written by the builder in some world (vocabulary, by value)
"""
from __future__ import annotations

import ast
from typing import Any, Dict, List, Optional, Set, Tuple

from .. import sym
from ..absint import AClass, AExt, AFunc, AObj, AOneShot, ARaise, Interp, Oracle, TOP, enumerate_outcomes
from ..engine import Ctx
from ..program import AnalysisError, ClassInfo, FuncEnv, FuncUnit, dotted, unparse
from ..report import Collector
from .bw import Marks, _clean_worlds, _loc, _summary, node, run_build


# ------------------------------------------------------------------------------------------------------------ helpers
def _built(ctx: Ctx, a, b_, **kw) -> Tuple[List[Tuple[AObj, dict, Any]], List[str]]:
    outs = run_build(ctx, a, b_, **kw)
    good = [o[1] for o in outs if o[0] == 'value']
    return good, _summary(outs)


def _freeze(v):
    if isinstance(v, (list, tuple)):
        return tuple(_freeze(x) for x in v)
    if isinstance(v, dict):
        return tuple(sorted((str(k), _freeze(x)) for k, x in v.items()))
    if isinstance(v, AOneShot):
        return ('one-shot',)
    return v if isinstance(v, (str, int, bool, type(None))) else repr(v)


def _canon(graph: AObj):
    nodes = {n: frozenset((str(k), _freeze(v)) for k, v in d.items()) for n, d in graph.attrs['nodes'].items()}
    edges = {e: frozenset((str(k), _freeze(v)) for k, v in d.items()) for e, d in graph.attrs['edges'].items()}
    return nodes, edges


def _syn(graph: AObj) -> List[Any]:
    return [n for n in graph.attrs['nodes'] if not (isinstance(n, str) and n.startswith('id:'))]


def _manager_world(ctx: Ctx, graph: AObj, results: Dict[str, Any], switch: Optional[Dict[str, Any]] = None, dest: str = 'id:O'):
    from .st import _abstract_world
    contents = {'node_results': {k: ('visible', v) for k, v in results.items()}}
    if switch:
        contents['switch_results'] = {k: ('visible', v) for k, v in switch.items()}
    mgr, storage, adag = _abstract_world(ctx, contents, dag_nodes=tuple(graph.attrs['nodes']), dest=dest, graph=graph)
    mgr.attrs['dag'].attrs['input_node'] = 'id:I'
    mgr.attrs['ctx'] = AObj(('ext', 'Context'), {'input_kwargs': {}})
    return mgr, storage


def _case_result(ctx: Ctx, label, node_id) -> AObj:
    cls = next((ci for ci in ctx.p.classes_by_name.get('CaseResult', []) if ci.module.name.startswith('ml_pipeline_engine')), None)
    if cls is None:
        raise AnalysisError('CaseResult class not found (BD-2 anchor vanished)')
    return AObj(cls, {'label': label, 'node_id': node_id})


def _kwargs(ctx: Ctx, graph: AObj, consumer: str, results, switch=None) -> List[Any]:
    from .st import argument_builder
    m = argument_builder(ctx)

    def run(oracle: Oracle):
        mgr, storage = _manager_world(ctx, graph, results, switch)
        return Interp(ctx.p, oracle).call_unit(m, [consumer], {}, mgr, None)
    return [o[1] if o[0] == 'value' else f'raises {o[1]}' for o in enumerate_outcomes(run)]


# ----------------------------------------------------------------------------------------------------- the rule group
def rule_constructs_by_worlds(ctx: Ctx, out: Collector) -> None:
    """Registered for two rule groups: decided once per Ctx."""
    cached = getattr(ctx, '_bx_instances', None)
    if cached is None:
        sub = Collector()
        _decide(ctx, sub)
        cached = ctx._bx_instances = list(sub.instances)
    have = {(i.rule, i.construct) for i in out.instances}
    for i in cached:
        if (i.rule, i.construct) not in have:
            out.instances.append(i)


def _decide(ctx: Ctx, out: Collector) -> None:
    mk = Marks(ctx)
    build, where = _loc(ctx)
    base = f'{build.module.name}::{build.qualname}'
    worlds = _clean_worlds(ctx)

    # ================================================================ BD-2: declared parameters reach their consumers
    def val(n):
        return f'val:{n}'
    expect_kwargs = {
        'Input': {'id:O': {'p': 'id:G'}},
        'InputOneOf': {'id:O': {'p': '<head>'}},
        'SwitchCase': {'id:O': {'p': 'id:G'}},
        'RecurrentSubGraph': {'id:O': {'p': 'id:D'}, 'id:D': {'q': 'id:G'}},
    }
    mark_of = {'Input': 'InputMark', 'InputOneOf': 'InputOneOfMark', 'SwitchCase': 'SwitchCaseMark', 'RecurrentSubGraph': 'RecurrentSubGraphMark'}
    graphs: Dict[str, AObj] = {}
    for label, per_consumer in expect_kwargs.items():
        a, b_ = worlds[label]
        good, summ = _built(ctx, a, b_)
        problems = []
        if summ != ['built'] or not good:
            problems.append(f'the declaration set does not build: {summ}')
        for graph, node_map, dag in good:
            g_ = dag.attrs.get('graph') if isinstance(dag, AObj) and isinstance(dag.attrs.get('graph'), AObj) \
                and isinstance(dag.attrs['graph'].attrs.get('nodes'), dict) else graph
            graphs[label] = g_
            syn = _syn(g_)
            results = {n: val(n) for n in g_.attrs['nodes']}
            switch = {s: _case_result(ctx, 'a', 'id:G') for s in syn} if label == 'SwitchCase' else None
            for consumer, exp in per_consumer.items():
                want = {k: val(syn[0] if v == '<head>' and syn else v) for k, v in exp.items()}
                got = _kwargs(ctx, g_, consumer, results, switch)
                if got != [want]:
                    problems.append(f'{consumer[3:]} is given {got}, declared {want}')
        cons = f'{base}::{mark_of[label]} branch: one kwarg_name edge into the consumer'
        if not problems:
            out.ok('BD-2', cons, where, f'the argument builder of the run manager, on the built graph, yields {per_consumer}')
        else:
            out.bad('BD-2', cons, where, f'a parameter declared with {label} does not reach its consumer: ' + '; '.join(sorted(set(problems))[:3])
                    + ' - the builder and the run manager disagree about where the parameter name / the source is recorded, or the edge '
                    'is missing', props={'C15', 'C03'})

    # ================================================================ BD-4: the implicit link from the input node
    problems = []
    for label in ('Input', 'no marks', 'two consumers of one node', 'RecurrentSubGraph'):
        a, b_ = worlds[label]
        good, summ = _built(ctx, a, b_)
        for graph, node_map, dag in good:
            edges = graph.attrs['edges']
            marked = {f'id:{n.tag}' for n in node_map.values() if isinstance(n, AObj) and n.attrs.get('marks')}
            for n_ in graph.attrs['nodes']:
                if not (isinstance(n_, str) and n_.startswith('id:')) or n_ == 'id:I':
                    continue
                has = ('id:I', n_) in edges
                if n_ in marked and has:
                    problems.append(f'{label}: {n_[3:]} declares marks and still gets the implicit link from the input node')
                if n_ not in marked and not has:
                    problems.append(f'{label}: {n_[3:]} declares no mark and is not linked to the input node')
                if has and any(isinstance(v, str) for v in edges[('id:I', n_)].values()):
                    problems.append(f'{label}: the implicit link into {n_[3:]} carries a parameter name')
            if ('id:I', 'id:I') in edges:
                problems.append(f'{label}: the input node is linked to itself')
    cons = f'{base}::implicit input edge only for nodes without marks'
    if not problems:
        out.ok('BD-4', cons, where, 'mark-less nodes (other than the input node) are linked to the input node, nodes with marks are not')
    else:
        out.bad('BD-4', cons, where, 'the implicit dependency on the input node is not added exactly for the nodes without marks: '
                + '; '.join(sorted(set(problems))[:3]), props={'C15'})

    # ================================================================ SW-6: the switch as the manager reads it
    mgr_cls = ctx.manager_class()
    problems = []
    gsw = graphs.get('SwitchCase')
    goo = graphs.get('InputOneOf')
    if gsw is None or goo is None:
        raise AnalysisError('the SwitchCase / InputOneOf world did not build (SW-6 / OO-3 anchor vanished; VL-10 reports it)')
    sw_node, oo_node = (_syn(gsw) or [None])[0], (_syn(goo) or [None])[0]
    preds = []
    for m in mgr_cls.methods.values():
        if m.is_async or isinstance(m.node, ast.Lambda) or len(m.params()) != 2 or m.name.startswith('__') and m.name.endswith('__'):
            continue
        if not any(isinstance(n, ast.Return) and n.value is not None for n in ast.walk(m.node)):
            continue
        preds.append(m)          # every synchronous one-argument method is tried: the classifiers are known by what they answer

    def truth_on(m: FuncUnit, graph: AObj, n_) -> Optional[bool]:
        def run(oracle: Oracle):
            mgr, storage = _manager_world(ctx, graph, {})
            interp = Interp(ctx.p, oracle)
            return interp.truth(interp.call_unit(m, [n_], {}, mgr, None))
        try:
            outs = enumerate_outcomes(run)
        except AnalysisError:
            return None
        vals = {o[1] if o[0] == 'value' else None for o in outs}
        return next(iter(vals)) if len(vals) == 1 else None
    is_switch = [m for m in preds if truth_on(m, gsw, sw_node) is True and truth_on(m, gsw, 'id:G') is False and truth_on(m, goo, oo_node) is False]
    is_head = [m for m in preds if truth_on(m, goo, oo_node) is True and truth_on(m, goo, 'id:G') is False and truth_on(m, gsw, sw_node) is False]
    if sw_node is None:
        problems.append('no synthetic node for the switch parameter')
    elif not is_switch:
        problems.append('no predicate of the run manager tells the synthetic switch node from a plain node and from a one-of head: the '
                        'flag the builder writes is not the one the manager reads')
    # case selection by the decider's value
    selectors = []
    st_cls = ctx.storage_class()
    from ..absint import hidden_dict_api
    from .common import storage_classes
    pubs = set()
    for ci in storage_classes(ctx):
        if ci is not st_cls:
            pubs.add(hidden_dict_api(ctx.p, ci)['publish'].fid)
    # storage methods that publish into the verdict store: `self.<verdict store>.<publish>(key, value)`
    verdict_setters = set()
    for sm in st_cls.methods.values():
        if isinstance(sm.node, ast.Lambda):
            continue
        senv = FuncEnv.of(ctx.p, sm)
        for c in senv.own_nodes():
            if isinstance(c, ast.Call) and isinstance(c.func, ast.Attribute) and isinstance(c.func.value, ast.Attribute) \
                    and c.func.value.attr == 'switch_results' and any(t[0] == 'func' and t[1].fid in pubs for t in senv.resolve_call(c)):
                verdict_setters.add(sm.fid)
    for m in mgr_cls.methods.values():
        if m.is_async or isinstance(m.node, ast.Lambda) or len(m.params()) != 2:
            continue
        env = FuncEnv.of(ctx.p, m)
        if any(isinstance(c, ast.Call) and any(t[0] == 'func' and t[1].fid in verdict_setters for t in env.resolve_call(c)) for c in env.own_nodes()):
            selectors.append(m)
    if not selectors:
        raise AnalysisError('no manager method that records the verdict of a switch found (SW-6 anchor vanished)')
    table = {}
    for m in selectors:
        for decided, want in (('a', 'id:G'), ('b', 'id:G2'), ('zzz', None)):
            def run(oracle: Oracle, m=m, decided=decided):
                mgr, storage = _manager_world(ctx, gsw, {'id:S': decided, 'id:G': 1, 'id:G2': 2})
                Interp(ctx.p, oracle).call_unit(m, [sw_node], {}, mgr, None)
                hd = storage.attrs['switch_results']
                v = hd.attrs['data'].get(sw_node)
                return v.attrs.get('node_id') if isinstance(v, AObj) else v
            got = sorted({o[1] if o[0] == 'value' else f'raises {str(o[1])[:40]}' for o in enumerate_outcomes(run)}, key=str)
            table[f'{m.name}: decider returns {decided!r}'] = got
            if want is not None and got != [want]:
                problems.append(f'the decider returns {decided!r}: the recorded case is {got}, declared {want[3:]}')
            if want is None and not (len(got) == 1 and isinstance(got[0], str) and got[0].startswith('raises') and 'SwitchCase' in got[0]):
                problems.append(f'a value without a case ({decided!r}) gives {got} instead of the documented error')
    cons = f'{base}::SwitchCaseMark branch builds switch node, is_switch edge, one case_branch edge per case'
    if not problems:
        out.ok('SW-6', cons, where, f'recognised by {[m.name for m in is_switch]}; the verdict follows the decider\'s value; an unknown value is an error',
               table=table)
    else:
        out.bad('SW-6', cons, where, 'the builder does not translate a SwitchCase declaration into what the run manager reads: '
                + '; '.join(sorted(set(problems))[:3]), table=table, props={'C09', 'C15'})

    # ================================================================ OO-3: the one-of as the manager reads it
    problems = []
    if oo_node is None:
        problems.append('no synthetic node for the one-of parameter')
    else:
        if not is_head:
            problems.append('no predicate of the run manager tells the synthetic head from a plain node and from a switch node: the flag '
                            'the builder writes is not the one the manager reads')
        nd = goo.attrs['nodes']
        if not any(isinstance(v, (list, tuple)) and list(v) == ['id:G', 'id:G2'] for v in nd[oo_node].values()):
            problems.append(f'the head does not list the candidates in declared order ({nd[oo_node]})')
        for cnd in ('id:G', 'id:G2'):
            if not any(v is True for v in nd.get(cnd, {}).values()):
                problems.append(f'candidate {cnd[3:]} is not flagged (it would run eagerly, before being tried)')
        if any(v is True for v in nd.get('id:O', {}).values()) or any(v is True for v in nd.get('id:I', {}).values()):
            problems.append('nodes that are no candidates are flagged')
    cons = f'{base}::InputOneOfMark branch builds head with ordered oneof_nodes and flags every candidate'
    if not problems:
        out.ok('OO-3', cons, where, f'recognised by {[m.name for m in is_head]}; candidates listed in declared order; every candidate flagged')
    else:
        out.bad('OO-3', cons, where, 'the builder does not translate an InputOneOf declaration into what the run manager reads: '
                + '; '.join(sorted(set(problems))[:3]), props={'C10', 'C15'})

    # ================================================================ RD-3 (vocabulary): what the manager reads, the builder writes
    written_n: Set[Any] = set()
    written_e: Set[Any] = set()
    for label, (a, b_) in worlds.items():
        good, _ = _built(ctx, a, b_)
        for graph, node_map, dag in good:
            for d in graph.attrs['nodes'].values():
                written_n |= set(d)
            for d in graph.attrs['edges'].values():
                written_e |= set(d)
    read_n, read_e = _manager_reads(ctx)
    missing = [f'node attribute {k!r}' for k in sorted(read_n - written_n, key=str)] + [f'edge attribute {k!r}' for k in sorted(read_e - written_e, key=str)]
    cons = f'{base}::every graph attribute the run manager reads is written by the builder [vocabulary by value]'
    if not read_n or not read_e:
        raise AnalysisError(f'attribute reads of the run manager not found (nodes {sorted(map(str, read_n))}, edges {sorted(map(str, read_e))}) (RD-3 anchor vanished)')
    if not missing:
        out.ok('RD-3', cons, where, f'node attributes {sorted(map(str, read_n))}, edge attributes {sorted(map(str, read_e))}')
    else:
        out.bad('RD-3', cons, where, 'the run manager reads ' + ', '.join(missing) + ', which no declaration set makes the builder write: '
                'the construct that depends on it never takes effect', props={'C15', 'C03', 'C09', 'C10', 'C11'})

    # ================================================================ RC-5: the recurrent destination as the manager reads it
    problems = []
    grc = graphs.get('RecurrentSubGraph')
    if grc is None:
        raise AnalysisError('the RecurrentSubGraph world did not build (RC-5 anchor vanished; VL-10 reports it)')
    dattrs = grc.attrs['nodes'].get('id:D', {})
    if 'id:G' not in [v for v in dattrs.values() if isinstance(v, str)]:
        problems.append(f'the destination does not carry the id of the declared start node ({dattrs})')
    if 7 not in [v for v in dattrs.values() if isinstance(v, int) and not isinstance(v, bool)]:
        problems.append(f'the destination does not carry the declared bound of iterations ({dattrs})')
    if not set(dattrs) <= read_n:
        problems.append(f'the destination carries {sorted(map(str, set(dattrs) - read_n))}, which the run manager never reads')
    # the subgraph is validated wherever else its destination is used (both orders of the consumer's parameters)
    for first in ('plain input first', 'recurrent mark first'):
        i, s_ = node('I'), None
        s_ = node('S', [('x', mk.input(i))], additional_data=True)
        d = node('D', [('y', mk.input(s_))], recurrent=False)
        marks = [('a', mk.input(d)), ('p', mk.rec(s_, d))]
        if first == 'recurrent mark first':
            marks.reverse()
        got = _summary(run_build(ctx, i, node('O', marks), recurrent_world=True))
        if got != ['IncorrectRecurrentMixinClass']:
            problems.append(f'a destination without the recurrent protocol that is also a plain input of the consumer ({first}): {got}')
    cons = f'{base}::RecurrentSubGraphMark branch records start_node / max_iterations on the destination'
    if not problems:
        out.ok('RC-5', cons, where, 'start node id and bound on the destination under keys the manager reads; validated also when the destination '
                                     'is met as a plain input first')
    else:
        out.bad('RC-5', cons, where, 'the builder does not translate a RecurrentSubGraph declaration faithfully: ' + '; '.join(sorted(set(problems))[:3]),
                props={'C11', 'C15', 'C16'})

    # ================================================================ BD-7: two roles of one node, both orders of the parameters
    def two_roles():
        # x plays a role in a construct declared by M and is a plain input of B; O consumes M and B: which of the two the
        # traversal meets first depends on the order of O's parameters
        def both(construct_marks, x):
            return [('p', mk.input(node('M', construct_marks))), ('q', mk.input(node('B', [('y', mk.input(x))])))]
        yield 'one-of candidate and plain input of another node', lambda: (node('G'), node('G2')), \
            lambda x, y: both([('c', mk.oneof([x, y]))], x)
        yield 'second one-of candidate and plain input of another node', lambda: (node('G'), node('G2')), \
            lambda x, y: both([('c', mk.oneof([y, x]))], x)
        yield 'switch case and plain input of another node', lambda: (node('G'), node('G2')), \
            lambda x, y: both([('c', mk.switch(node('S'), [('a', x), ('b', y)], 'sw'))], x)
        yield 'switch decider and plain input of another node', lambda: (node('G'), node('G2')), \
            lambda x, y: both([('c', mk.switch(x, [('a', y)], 'sw'))], x)
        yield 'recurrent destination and plain input of another node', lambda: (node('G'), None), \
            lambda x, y: (lambda dd: both([('c', mk.rec(x, dd, 7))], dd))(node('D', [('r', mk.input(x))]))
        yield 'recurrent start node and plain input of another node', lambda: (node('G'), None), \
            lambda x, y: both([('c', mk.rec(x, node('D', [('r', mk.input(x))]), 7))], x)
    problems = []
    n_pairs = 0
    for label, fresh, marks_of in two_roles():
        canon = []
        for rev in (False, True):
            x, y = fresh()
            marks = marks_of(x, y)
            if rev:
                marks = list(reversed(marks))
            good, summ = _built(ctx, node('I'), node('O', marks))
            if summ != ['built'] or not good:
                problems.append(f'{label} ({"second" if rev else "first"} order): {summ}')
                continue
            graph, node_map, dag = good[0]
            nodes_c, edges_c = _canon(graph)
            # synthetic ids of unnamed constructs differ from run to run: compare by role (attributes), not by id
            ren = {n_: f'syn{idx}' for idx, n_ in enumerate(sorted(_syn(graph), key=lambda n_: sorted(map(str, nodes_c[n_]))))}
            nodes_c = {ren.get(k, k): frozenset((a_, _ren(v_, ren)) for a_, v_ in v) for k, v in nodes_c.items()}
            edges_c = {(ren.get(u, u), ren.get(v_, v_)): d_ for (u, v_), d_ in edges_c.items()}
            canon.append((nodes_c, edges_c, dict(node_map)))
        n_pairs += 1
        if len(canon) == 2:
            (n1, e1, m1), (n2, e2, m2) = canon
            if n1 != n2:
                diff = sorted(str(k) for k in set(n1) | set(n2) if n1.get(k) != n2.get(k))
                problems.append(f'{label}: the attributes of {diff} depend on the order of the consumer\'s parameters')
            if e1 != e2:
                diff = sorted(str(k) for k in set(e1) | set(e2) if e1.get(k) != e2.get(k))
                problems.append(f'{label}: the edges {diff} depend on the order of the consumer\'s parameters')
            if set(m1) != set(m2):
                problems.append(f'{label}: the node map depends on the order of the consumer\'s parameters')
    cons = f'{base}::a node with two roles is translated in full whatever the order of the parameters [order-independent]'
    if not problems:
        out.ok('BD-7', cons, where, f'{n_pairs} pairs of declaration sets that differ only in the order of two parameters build equal graphs')
    else:
        out.bad('BD-7', cons, where, 'what the builder records for a node depends on which of its roles the traversal meets first: '
                + '; '.join(sorted(set(problems))[:3]) + ' - role attributes (candidate flag, start node / bound) or registrations are '
                'dropped under some parameter orders', props={'C15', 'C16', 'C11', 'C10'})

    # ================================================================ BD-8: synthetic nodes are per declared parameter
    problems = []
    s_, g, g2 = node('S'), node('G'), node('G2')
    good, summ = _built(ctx, node('I'), node('O', [('p', mk.switch(s_, [('a', g)], None)), ('q', mk.switch(s_, [('a', g2)], None))]))
    for graph, node_map, dag in good:
        if len(_syn(graph)) != 2:
            problems.append(f'two unnamed switch parameters with the same decider give {len(_syn(graph))} synthetic node(s)')
    if not good:
        problems.append(f'two unnamed switch parameters with the same decider: {summ}')
    good, summ = _built(ctx, node('I'), node('O', [('p', mk.oneof([g, g2])), ('q', mk.oneof([g, g2]))]))
    for graph, node_map, dag in good:
        if len(_syn(graph)) != 2:
            problems.append(f'two one-of parameters with the same candidates give {len(_syn(graph))} synthetic node(s)')
    if not good:
        problems.append(f'two one-of parameters with the same candidates: {summ}')
    # the same candidates in another order are another declaration: every parameter gets its candidates in its own order
    for two_consumers in (False, True):
        if two_consumers:
            top = node('O', [('u', mk.input(node('A', [('p', mk.oneof([g, g2]))]))), ('w', mk.input(node('B', [('q', mk.oneof([g2, g]))])))])
            consumers = {'p': 'id:A', 'q': 'id:B'}
        else:
            top = node('O', [('p', mk.oneof([g, g2])), ('q', mk.oneof([g2, g]))])
            consumers = {'p': 'id:O', 'q': 'id:O'}
        what = 'two one-of parameters' + (' of two consumers' if two_consumers else '') + ' naming the same candidates in different orders'
        good, summ = _built(ctx, node('I'), top)
        for graph, node_map, dag in good:
            syn = _syn(graph)
            orders = {}
            for h in syn:
                lst = next((list(v) for v in graph.attrs['nodes'][h].values() if isinstance(v, (list, tuple))), None)
                for pname, cons_ in consumers.items():
                    if pname in graph.attrs['edges'].get((h, cons_), {}).values():
                        orders[pname] = lst
            if orders.get('p') != ['id:G', 'id:G2'] or orders.get('q') != ['id:G2', 'id:G']:
                problems.append(f'{what}: p is resolved over {orders.get("p")}, q over {orders.get("q")} (declared [G, G2] and [G2, G]; '
                                f'{len(syn)} synthetic node(s))')
        if not good:
            problems.append(f'{what}: {summ}')
    shared = mk.switch(node('S'), [('a', node('G')), ('b', node('G2'))], 'choice')
    good, summ = _built(ctx, node('I'), node('O', [('p', mk.input(node('A', [('x', shared)]))), ('q', mk.input(node('B', [('y', shared)])))]))
    for graph, node_map, dag in good:
        syn = _syn(graph)
        if len(syn) != 1:
            problems.append(f'one named switch mark used by two consumers gives {len(syn)} synthetic nodes')
            continue
        for consumer, pname in (('id:A', 'x'), ('id:B', 'y')):
            e = graph.attrs['edges'].get((syn[0], consumer))
            if e is None or pname not in e.values():
                problems.append(f'one named switch mark used by two consumers: {consumer[3:]} does not receive it as {pname!r}')
    if not good:
        problems.append(f'one named switch mark used by two consumers: {summ}')
    cons = f'{base}::synthetic node ids are unique per declared parameter and shared per mark [synthetic ids]'
    if not problems:
        out.ok('BD-8', cons, where, 'two unnamed switch / one-of parameters: two synthetic nodes; one named mark in two consumers: one node, two deliveries')
    else:
        out.bad('BD-8', cons, where, 'synthetic nodes are not one per declared parameter: ' + '; '.join(sorted(set(problems))[:3])
                + ' - the case / candidate tables of two parameters merge and one parameter receives the other\'s value, or a consumer '
                'of a shared mark is left without its input', props={'C15', 'C09', 'C10', 'C03'})

    # ================================================================ BD-3 (recorded defect): two parameters, one source
    for kind, make in (('Input / Input', lambda src: [('x', mk.input(src)), ('y', mk.input(src))]),
                       ('RecurrentSubGraph / Input', lambda src: [('x', mk.rec(node('G'), src, 3)), ('y', mk.input(src))])):
        src = node('D', [('r', mk.input(node('G')))])
        good, summ = _built(ctx, node('I'), node('O', make(src)))
        cons = f'{base}::two parameters of one node bound to the same source stay distinguishable [{kind}]'
        bad = []
        for graph, node_map, dag in good:
            e = graph.attrs['edges'].get(('id:D', 'id:O'), {})
            names = [v for v in e.values() if v in ('x', 'y')]
            many = [v for v in e.values() if isinstance(v, (list, tuple, set)) and set(v) >= {'x', 'y'}]
            if sorted(names) != ['x', 'y'] and not many:
                bad.append(f'the edge D -> O carries {sorted(map(str, e.values()))}')
        if good and not bad:
            out.ok('BD-3', cons, where, 'both parameter names survive on the graph')
        elif not good:
            out.ok('BD-3', cons, where, f'rejected at build time: {summ}')
        else:
            out.bad('BD-3', cons, where, 'two parameters bound to the same node collapse into one edge of the simple DiGraph (the second add_edge '
                    'overwrites the parameter name), so one declared parameter is dropped: ' + '; '.join(sorted(set(bad))), props={'C15', 'C03'})


def _ren(v, ren):
    if isinstance(v, tuple):
        return tuple(_ren(x, ren) for x in v)
    return ren.get(v, v) if isinstance(v, (str, int)) else v


def _handed_on_as_value(ctx: Ctx, mgr: ClassInfo, u: FuncUnit) -> bool:
    """`self.<method>` appears in the manager class somewhere else than as the function of a call."""
    for m in mgr.methods.values():
        called = {id(c.func) for c in ast.walk(m.node) if isinstance(c, ast.Call)}
        for n in ast.walk(m.node):
            if isinstance(n, ast.Attribute) and isinstance(n.value, ast.Name) and n.value.id == 'self' and id(n) not in called:
                if ctx.p.lookup_method(mgr, n.attr, mgr) is u:
                    return True
    return False


def _manager_reads(ctx: Ctx) -> Tuple[Set[Any], Set[Any]]:
    """The attribute keys (by value) the run manager reads off graph nodes / edges on the run path."""
    from ..absint import Interp as _I, Oracle as _O
    read_n: Set[Any] = set()
    read_e: Set[Any] = set()
    interp = _I(ctx.p, _O())

    def key_value(expr: ast.AST, unit: FuncUnit):
        try:
            v = interp.eval(expr, {'__module__': unit.module, '__unit__': unit, '__closure__': None})
        except (AnalysisError, ARaise, KeyError):
            return None
        return v if isinstance(v, (str, int)) and not isinstance(v, bool) else None

    def kind_of(t) -> Optional[str]:
        # ... nodes[x] / ... edges[x]: an element of the node / edge table of a graph
        if isinstance(t, tuple) and t and t[0] in ('idx', 'item', 'elem') and isinstance(t[1], tuple) and t[1] and t[1][0] == 'attr':
            return {'nodes': 'n', 'edges': 'e'}.get(t[1][2])
        return None
    def _strip(e: ast.AST, unit: FuncUnit, depth: int = 0) -> ast.AST:
        while isinstance(e, ast.Call) and isinstance(e.func, ast.Name) and e.func.id in ('list', 'tuple', 'sorted', 'reversed', 'iter') \
                and e.args:
            e = e.args[0]
        if isinstance(e, ast.Name) and depth < 3:
            vals = [a.value for a in ast.walk(unit.node) if isinstance(a, ast.Assign) and len(a.targets) == 1
                    and isinstance(a.targets[0], ast.Name) and a.targets[0].id == e.id]
            vals += [a.value for a in ast.walk(unit.node) if isinstance(a, ast.AnnAssign) and a.value is not None
                     and isinstance(a.target, ast.Name) and a.target.id == e.id]
            if len(vals) == 1:
                return _strip(vals[0], unit, depth + 1)
        return e

    def _data_true(c: ast.Call) -> bool:
        return any(k.arg == 'data' and isinstance(k.value, ast.Constant) and k.value.value is True for k in c.keywords)

    def local_kind(name: str, unit: FuncUnit) -> Optional[str]:
        # a loop / comprehension variable bound to the attribute dictionary of the (u, v, data) / (n, data) tuples networkx
        # yields: in_edges(.., data=True), out_edges(.., data=True), edges(data=True), nodes(data=True), <table>.items()
        for n in ast.walk(unit.node):
            pairs = []
            if isinstance(n, ast.comprehension):
                pairs.append((n.target, n.iter))
            elif isinstance(n, (ast.For, ast.AsyncFor)):
                pairs.append((n.target, n.iter))
            for tgt, it in pairs:
                if not isinstance(tgt, ast.Tuple):
                    continue
                idx = [i for i, x in enumerate(tgt.elts) if isinstance(x, ast.Name) and x.id == name]
                if not idx:
                    continue
                src = _strip(it, unit)
                if isinstance(src, (ast.ListComp, ast.GeneratorExp, ast.SetComp)) and isinstance(src.elt, ast.Tuple) \
                        and len(src.elt.elts) == len(tgt.elts):
                    # a table of tuples built by the function itself: [(u, <graph>.edges[(u, v)]) for u in ...]
                    from ..cfg import Inst as _Inst
                    k = _kind_of_table(sym.term(ctx.p, src.elt.elts[idx[0]], _Inst(unit, None, None, {})))
                    if k:
                        return k
                    continue
                if not (isinstance(src, ast.Call) and isinstance(src.func, ast.Attribute)):
                    continue
                attr, n_el = src.func.attr, len(tgt.elts)
                if attr in ('in_edges', 'out_edges', 'edges') and _data_true(src) and n_el == 3 and idx[0] == 2:
                    return 'e'
                if attr == 'nodes' and _data_true(src) and n_el == 2 and idx[0] == 1:
                    return 'n'
                if attr in ('items', 'data') and isinstance(src.func.value, ast.Attribute) and n_el >= 2 and idx[0] == n_el - 1:
                    k = {'nodes': 'n', 'edges': 'e'}.get(src.func.value.attr)
                    if k:
                        return k
        return None

    _kind_of_table = kind_of

    def kind_of(t, _base=_kind_of_table):           # noqa: F811
        k = _base(t)
        if k is None and isinstance(t, tuple) and len(t) == 3 and t[0] == 'item' and isinstance(t[1], tuple) and t[1][:1] == ('elem',) \
                and isinstance(t[1][1], tuple) and t[1][1][:1] == ('call',) and isinstance(t[1][1][1], str):
            # element i of the tuples a networkx view yields: (u, v, data) of in_edges / out_edges / edges(data=True), (n, data) of nodes
            call = t[1][1]
            name = call[1].split('.')[-1]
            data = any(kw == ('data', ('const', True)) for kw in (call[3] if len(call) > 3 else ()))
            if name in ('in_edges', 'out_edges', 'edges') and data and t[2] == (2,):
                return 'e'
            if name == 'nodes' and data and t[2] == (1,):
                return 'n'
        if k is None and isinstance(t, tuple) and len(t) == 3 and t[0] == 'local':
            for u in ctx.p.functions.values():
                if u.qualname == t[1]:
                    k = local_kind(t[2], u)
                    if k:
                        break
        return k
    graphs = dict(ctx.run_graphs())
    # functions the manager only hands on as values (the filters given to networkx views) are never called on a run graph
    mgr = ctx.manager_class()
    for u in ctx.p.functions.values():
        top = u
        while top.parent is not None:
            top = top.parent
        if u.parent is not None and top.cls is mgr and not isinstance(u.node, ast.Lambda):
            graphs[u.fid] = ctx.graph(u.fid, depth=1)
        elif u.parent is None and u.cls is mgr and u.fid not in graphs and _handed_on_as_value(ctx, mgr, u):
            graphs[u.fid] = ctx.graph(u.fid, depth=1)          # a method given to a view as its filter (`filter_node=self._keeps`)
    for fid, g in graphs.items():
        for ev in g.evs:
            if ev.kind == 'call' and isinstance(ev.node, ast.Call) and isinstance(ev.node.func, ast.Attribute) \
                    and ev.node.func.attr in ('get', '__getitem__', '__contains__') and ev.node.args:
                k = kind_of(sym.term(ctx.p, ev.node.func.value, ev.inst))
                if k is not None:
                    v = key_value(ev.node.args[0], ev.inst.unit)
                    if v is not None:
                        (read_n if k == 'n' else read_e).add(v)
            elif ev.kind == 'subscr' and isinstance(ev.node, ast.Subscript):
                k = kind_of(sym.term(ctx.p, ev.node.value, ev.inst))
                if k is not None:
                    v = key_value(ev.node.slice, ev.inst.unit)
                    if v is not None:
                        (read_n if k == 'n' else read_e).add(v)
            elif ev.kind == 'member' and isinstance(ev.node, ast.Compare) and len(ev.node.comparators) == 1:
                k = kind_of(sym.term(ctx.p, ev.node.comparators[0], ev.inst))
                if k is not None:
                    v = key_value(ev.node.left, ev.inst.unit)
                    if v is not None:
                        (read_n if k == 'n' else read_e).add(v)
    return read_n, read_e
