"""SH-*: a run writes only to objects it created (C07 reuse, C08 overlap)."""
from __future__ import annotations

import ast
from typing import Dict, List, Tuple

from .. import sym
from ..cfg import Ev, Graph
from ..effects import Ownership, per_instance_fields
from ..engine import CHART_RUN, DAG_RUN, Ctx
from ..program import AnalysisError, ClassInfo, FuncEnv, dotted, norm_stmt
from ..report import Collector

# Roots shared between *concurrent* runs of a chart (C08); the caller's input_kwargs dict is per call (C07 only)
C08_SHARED = ('shared:dag', 'shared:global', 'shared:self', 'shared:chart', 'shared:ctx', 'shared:param')


def _run_path_graphs(ctx: Ctx) -> Dict[str, Graph]:
    graphs = dict(ctx.run_graphs())
    graphs[CHART_RUN] = ctx.graph(CHART_RUN, depth=max(ctx.depth, 10))
    return graphs


def _own_attribute_dict(ctx: Ctx, own: Ownership, g: Graph, ev: Ev, obj: ast.AST) -> bool:
    """The view was given an attribute dictionary of its own (`view.graph = {...}` with a fresh value) before this write."""
    from ..cfg import find_path
    base = obj
    while isinstance(base, ast.Attribute) and base.attr == 'graph':
        base = base.value
    bt = sym.term(ctx.p, base, ev.inst)
    for st in g.evs:
        if st.kind == 'store' and st.inst is ev.inst and st.info.get('how') != 'item':
            tgt = st.info['target']
            if isinstance(tgt, ast.Attribute) and tgt.attr == 'graph' and sym.term(ctx.p, tgt.value, st.inst) == bt:
                val = st.info.get('value')
                if val is not None and all(c == 'fresh' for c, _ in own.classify(g, st, val)) \
                        and find_path(g, st.id, {ev.id}) is not None:
                    return True
    return False


def rule_shared_writes(ctx: Ctx, out: Collector) -> None:
    """SH-1 / SH-3."""
    own = Ownership(ctx)
    seen = {}
    total = 0
    for fid, g in _run_path_graphs(ctx).items():
        reach = g.reachable_from_entry()
        for ev, obj, how in own.write_events(g):
            if ev.id not in reach:
                continue
            total += 1
            classes = own.classify(g, ev, obj)
            # writes that land in the attribute dictionary a graph view shares with its root graph: `view.name = ...`
            # (Graph.name is stored in view.graph) and writes into `view.graph` itself
            via_view = False
            if how == 'attribute store .name' or (isinstance(obj, ast.Attribute) and obj.attr == 'graph'):
                shared_cls = own.classify(g, ev, obj.value if how != 'attribute store .name' else obj, through_views=True)
                if any(c.startswith('shared') for c, _ in shared_cls) and not any(c.startswith('shared') for c, _ in classes) \
                        and not _own_attribute_dict(ctx, own, g, ev, obj):
                    classes = shared_cls
                    via_view = True
                    how = how + ' through a graph view (the view shares the attribute dictionary of its root graph)'
            cons = ctx.construct(ev, ev.node if ev.kind != 'call' else ev.node)
            key = cons
            shared = [(c, r) for c, r in classes if c.startswith('shared')]
            unknown = [(c, r) for c, r in classes if c == 'unknown']
            verdict = 'VIOLATION' if shared else ('UNKNOWN' if unknown else 'PASS')
            prev = seen.get(key)
            rank = {'PASS': 0, 'UNKNOWN': 1, 'VIOLATION': 2}
            if prev is not None and rank[prev[0]] >= rank[verdict]:
                continue
            seen[key] = (verdict, ev, how, classes, g)
    out.count('write_sites', total)
    out.count('distinct_write_constructs', len(seen))
    for key, (verdict, ev, how, classes, g) in sorted(seen.items()):
        roots = '; '.join(f'{c}: {r}' for c, r in classes)
        if verdict == 'PASS':
            out.ok('SH-1', key, ev.where(), f'{how}: written object is owned by the run ({roots})')
        elif verdict == 'UNKNOWN':
            out.note(f'SH-1 unresolved root at {ev.where()}: {ev.text()} ({roots})')
            out.count('unresolved_roots')
            out.ok('SH-1', key, ev.where(), f'{how}: root not resolved ({roots}); no shared root found', unresolved=True)
        else:
            sh = [c for c, r in classes if c.startswith('shared')]
            props = {'C07'}
            if any(c.startswith(C08_SHARED) for c in sh):
                props.add('C08')
            text = ev.text(400)
            if 'is_oneof' in text or 'oneof_nodes' in text:
                props.add('C10')
            if 'additional_data' in text or 'start_node' in text or 'max_iterations' in text:
                props.add('C11')
            if 'is_switch' in text or 'case_branch' in text:
                props.add('C09')
            chain = ev.inst.chain().lower() + ' ' + text.lower()
            if 'retry' in chain or 'attempt' in chain:
                props.add('C12')             # the attempt budget of an execution must not be shared between runs
            rule = 'SH-3' if any(c == 'shared:global' for c in sh) else 'SH-1'
            out.bad(rule, key, ev.where(),
                    f'{how} on the run path writes to an object the run did not create ({roots}): the state survives the '
                    f'run and is visible to later or overlapping runs / to the caller',
                    [f'{ev.where()} [{ev.kind}] {ev.text()}', f'reached through {ev.inst.chain()}'], props=props,
                    roots=[r for c, r in classes if c.startswith('shared')])
    if total < 20:
        raise AnalysisError(f'only {total} write sites found on the run path (expected > 20): effect analysis lost its anchors')


def rule_immutable_description(ctx: Ctx, out: Collector) -> None:
    """SH-2: charts are frozen dataclasses, DAG.run builds a new manager per call, every mutable field of
    the per-run classes is created per instance."""
    p = ctx.p
    chart = p.func(CHART_RUN).cls
    for c in p.mro(chart):
        if not isinstance(c, ClassInfo) or p.is_protocol(c):
            continue
        frozen = False
        for dec in c.node.decorator_list:
            if isinstance(dec, ast.Call) and (dotted(dec.func) or '').split('.')[-1] == 'dataclass':
                for kw in dec.keywords:
                    if kw.arg == 'frozen' and isinstance(kw.value, ast.Constant) and kw.value.value is True:
                        frozen = True
        cons = f'{c.module.name}::{c.name}::@dataclass(frozen=True)'
        if frozen:
            out.ok('SH-2', cons, p.loc(c.module, c.node), 'chart description is a frozen dataclass')
        else:
            out.bad('SH-2', cons, p.loc(c.module, c.node), f'{c.name} is not a frozen dataclass: a run (or a caller) can '
                                                            f'rebind its fields between runs')
    # DAG.run: manager constructed per call and not stored
    dag_run = p.func(DAG_RUN)
    mgr = ctx.manager_class()
    # on the event graph of DAG.run, helpers it is split into included
    g = ctx.graph(DAG_RUN)
    ctors = [ev for ev in g.events('call') if any(t[0] == 'class' and t[1] is mgr for t in ev.info.get('targets', ()))]
    constructed = bool(ctors)
    stored = False
    for st in g.events('store'):
        val = st.info.get('value')
        if val is None:
            continue
        e, i = sym.resolve_value(p, val, st.inst)
        if any(e is c.node for c in ctors):
            stored = True
    cons = f'{dag_run.module.name}::{dag_run.qualname}::new manager per call'
    if constructed and not stored:
        out.ok('SH-2', cons, p.loc(dag_run, dag_run.node), 'DAG.run constructs a new run manager for every call and keeps it local')
    else:
        out.bad('SH-2', cons, p.loc(dag_run, dag_run.node), 'DAG.run does not construct a fresh, local run manager per call: '
                                                            'run state is shared between runs')
    # per-run classes: no field default that is a shared mutable object
    own = Ownership(ctx)
    classes = [mgr]
    work = [mgr]
    while work:
        c = work.pop()
        for name in own.pif(c):
            f = p.lookup_field(c, name)
            if f is not None and f[1] is not None:
                ft = p.ann_to_type(f[1], f[0].module)
                if ft[0] == 'class' and ft[1] not in classes:
                    classes.append(ft[1])
                    work.append(ft[1])
    for c in classes:
        for name, (ann, default) in c.fields.items():
            cons = f'{c.module.name}::{c.name}::{name}'
            if default is None or isinstance(default, ast.Constant):
                out.ok('SH-2', cons, p.loc(c.module, default or c.node), 'no default or immutable default')
                continue
            if isinstance(default, ast.Call) and (dotted(default.func) or '').split('.')[-1] == 'field':
                kws = {k.arg: k.value for k in default.keywords}
                if 'default' in kws and not isinstance(kws['default'], ast.Constant):
                    out.bad('SH-2', cons, p.loc(c.module, default), f'field {name} has a shared default object: state of one '
                                                                    f'run is visible to the next')
                else:
                    out.ok('SH-2', cons, p.loc(c.module, default), 'created per instance')
                continue
            if isinstance(default, (ast.Name, ast.Attribute)):
                # class / function / enum reference used as a constant
                out.ok('SH-2', cons, p.loc(c.module, default), 'reference to a class or constant')
                continue
            if isinstance(default, (ast.Tuple,)) and all(isinstance(e, ast.Constant) for e in default.elts):
                out.ok('SH-2', cons, p.loc(c.module, default), 'immutable default')
                continue
            out.bad('SH-2', cons, p.loc(c.module, default),
                    f'field {name} of per-run class {c.name} has a class-level mutable default ({norm_stmt(default)}): it is '
                    f'shared by every run')


def _rule_memo_key(ctx: Ctx, out: Collector, mgr, m, dec: ast.Call) -> None:
    """SH-12: the key of a memoised method tells apart any two calls that differ in an argument - decided by evaluating the key
    function of the decorator on argument vectors that differ in exactly one position (a sub-dag, a node id)."""
    from ..absint import AObj, Interp, Oracle, TOP, enumerate_outcomes
    p = ctx.p
    keyfn = next((k.value for k in dec.keywords if k.arg == 'key'), None)
    cons = f'{m.module.name}::{m.qualname}::the memo key tells apart calls that differ in an argument [memo key]'
    if keyfn is None:
        out.ok('SH-12', cons, p.loc(m, dec), 'default key: every argument is part of it')
        return
    params = m.params()[1:]
    env = FuncEnv.of(p, m)

    def value(pn: str, variant: int):
        t_ = env.name_type(pn)
        if t_[0] == 'class':
            return AObj(t_[1], {'nodes': [f'n{variant}'], 'source': 'I', 'dest': f'd{variant}'}, tag=f'{pn}#{variant}')
        return f'{pn}-{variant}'

    def run(oracle: Oracle):
        it = Interp(p, oracle, ext_stubs={'cachetools.keys.hashkey': lambda a, k: tuple(a) + tuple(sorted(k.items())),
                                          'cachetools.keys.methodkey': lambda a, k: tuple(a[1:]) + tuple(sorted(k.items()))})
        fn = it.eval(keyfn, {'__module__': m.module, '__unit__': None, '__closure__': None})
        me = AObj(mgr, {}, tag='manager')
        base = [value(pn, 0) for pn in params]
        k0 = it.call(fn, [me] + base, {}, keyfn)
        same = []
        for i, pn in enumerate(params):
            other = list(base)
            other[i] = value(pn, 1)
            k1 = it.call(fn, [me] + other, {}, keyfn)
            if k0 is TOP or k1 is TOP:
                raise AnalysisError(f'the memo key of {m.qualname} is not decided')
            if k0 == k1:
                same.append(pn)
        return same
    problems = set()
    for o in enumerate_outcomes(run):
        if o[0] != 'value':
            raise AnalysisError(f'SH-12: evaluating the memo key of {m.qualname} raises {o[1]}')
        problems |= set(o[1])
    if not problems:
        out.ok('SH-12', cons, p.loc(m, dec), f'changing any of {params} changes the key')
    else:
        out.bad('SH-12', cons, p.loc(m, dec), f'two calls of {m.name} that differ only in {sorted(problems)} get the same memo key: the '
                f'first answer of the run is handed out for the other call too - the dependencies of a node computed for one sub-dag '
                f'(an inner recurrent subgraph) are reused for another (the outer one), so the node stops waiting for an input that '
                f'only the other sub-dag re-executes and runs on the value of a superseded iteration', props={'C03', 'C11'})


def rule_memoisation(ctx: Ctx, out: Collector) -> None:
    """SH-5: memoisation on the run path stores into an object owned by the run."""
    p = ctx.p
    mgr = ctx.manager_class()
    own = Ownership(ctx)
    pif = own.pif(mgr)
    count = 0
    for c in p.mro(mgr):
        if not isinstance(c, ClassInfo):
            continue
        for m in c.methods.values():
            for dec in m.node.decorator_list:
                name = (dotted(dec.func) if isinstance(dec, ast.Call) else dotted(dec)) or ''
                last = name.split('.')[-1]
                cons = f'{m.module.name}::{m.qualname}::@{last}'
                if last in ('cachedmethod',) and isinstance(dec, ast.Call) and dec.args:
                    count += 1
                    getter = dec.args[0]
                    ok = False
                    field_name = None
                    body_expr, first_param = None, None
                    if isinstance(getter, ast.Lambda):
                        body_expr, first_param = getter.body, (getter.args.args[0].arg if getter.args.args else None)
                    elif isinstance(getter, (ast.Name, ast.Attribute)):
                        # a named getter function: `def _store(manager): return manager._memo`
                        gt = FuncEnv.of(p, m).type_of(getter) if not isinstance(m.node, ast.Lambda) else ('unknown',)
                        if gt[0] != 'func':
                            res = p.resolve_global(m.module, getter.id) if isinstance(getter, ast.Name) else ('unknown',)
                            gt = ('func', res[1]) if res[0] == 'func' else gt
                        if gt[0] == 'func' and not isinstance(gt[1].node, ast.Lambda):
                            rets = [n for n in ast.walk(gt[1].node) if isinstance(n, ast.Return) and n.value is not None]
                            if len(rets) == 1:
                                body_expr = rets[0].value
                                ps = gt[1].params()
                                first_param = ps[0] if ps else None
                    if isinstance(body_expr, ast.Attribute) and isinstance(body_expr.value, ast.Name) and body_expr.value.id == first_param \
                            and body_expr.attr in pif:
                        ok = True
                        field_name = body_expr.attr
                    if not ok:
                        # whatever the getter is written as (operator.attrgetter, a partial, a function with several statements):
                        # evaluated and called with a manager whose per-run fields hold distinct objects, it hands out one of them
                        try:
                            from ..absint import AObj as _AObj, Interp as _Interp, Oracle as _Oracle, enumerate_outcomes as _enum

                            def _run(oracle):
                                it = _Interp(p, oracle)
                                mobj = _AObj(mgr, {f_: _AObj(('ext', 'Field'), {}, tag=f'field:{f_}') for f_ in pif})
                                fn = it.eval(getter, {'__module__': m.module, '__unit__': None, '__closure__': None})
                                got = it.call(fn, [mobj], {}, getter)
                                return next((f_ for f_ in pif if mobj.attrs[f_] is got), None)
                            outs = _enum(_run)
                            names_ = {o[1] for o in outs if o[0] == 'value'}
                            if outs and all(o[0] == 'value' for o in outs) and len(names_) == 1 and None not in names_:
                                ok, field_name = True, next(iter(names_))
                        except Exception:
                            pass
                    _rule_memo_key(ctx, out, mgr, m, dec)
                    if ok:
                        out.ok('SH-5', cons, p.loc(m, dec), f'cache lives in the per-run field {field_name}')
                    else:
                        out.bad('SH-5', cons, p.loc(m, dec), 'the cache of this method is not a per-run field of the manager: '
                                                             'memoised values leak from one run into the next',
                                props={'C07', 'C08'})
                elif last in ('lru_cache', 'cache', 'cached', 'cached_property'):
                    count += 1
                    out.bad('SH-5', cons, p.loc(m, dec), f'@{last} on a run-manager method keeps results (and the manager '
                                                         f'instance) beyond the run', props={'C07', 'C08'})
    # module-level caches on functions of the run path
    for fid, g in _run_path_graphs(ctx).items():
        for ev in g.events('entry'):
            unit = ev.inst.unit
            if unit.cls is mgr or isinstance(unit.node, ast.Lambda):
                continue
            for dec in getattr(unit.node, 'decorator_list', []):
                name = (dotted(dec.func) if isinstance(dec, ast.Call) else dotted(dec)) or ''
                last = name.split('.')[-1]
                if last in ('lru_cache', 'cache', 'cached'):
                    cons = f'{unit.module.name}::{unit.qualname}::@{last}'
                    takes_state = any(a in ('node', 'dag', 'ctx', 'self') for a in unit.params())
                    # does the cached function create the object a node body runs on?
                    env_ = FuncEnv.of(p, unit)
                    makes_instance = any(isinstance(c_, ast.Call) and any(t_[0] == 'func' and t_[1].name == 'get_instance'
                                                                          for t_ in env_.resolve_call(c_)) for c_ in env_.own_nodes())
                    if takes_state or makes_instance:
                        extra = ''
                        props = {'C07', 'C08'}
                        if makes_instance:
                            props |= {'C17'}
                            extra = (': the node object is created once and reused by every later execution in the coroutine, inline and '
                                     'thread modes, while the process mode runs the body on a pickled copy - what a body keeps on self '
                                     'survives in some execution modes only, so the outcome depends on the mode')
                        out.bad('SH-5', cons, p.loc(unit, dec), f'@{last} on a function of the run path caches objects across '
                                                                f'runs (node instances / dag / context){extra}', props=props)
    # SH-9: what a memoised method returns must be a function of the immutable description: it reads no run state
    storage = ctx.storage_class()
    for c in p.mro(mgr):
        if not isinstance(c, ClassInfo):
            continue
        for m in c.methods.values():
            decs = [((dotted(d.func) if isinstance(d, ast.Call) else dotted(d)) or '').split('.')[-1] for d in m.node.decorator_list]
            if not any(d in ('cachedmethod', 'cached', 'lru_cache', 'cache') for d in decs):
                continue
            g = ctx.graph(m.fid, depth=4)
            reads = []
            for ev in g.events('call'):
                for t in ev.info.get('targets', ()):
                    if t[0] == 'func' and t[1].cls is not None and (t[1].cls is storage or storage in [x for x in p.mro(t[1].cls)
                                                                                                        if isinstance(x, ClassInfo)]):
                        reads.append(ev)
            cons = f'{m.module.name}::{m.qualname}::a memoised result does not depend on run state [memoised-pure]'
            if not reads:
                out.ok('SH-9', cons, p.loc(m, m.node), 'reads only the DAG description')
            else:
                ev = reads[0]
                out.bad('SH-9', cons, ev.where(), f'the memoised method reads the node storage ({ev.text(80)}): results, switch verdicts and '
                        f'processed marks change during a run (a recurrent re-iteration re-arms them), so the value cached at the first call '
                        f'is stale afterwards - e.g. a consumer keeps receiving the case selected in the first iteration',
                        [f'{ev.where()} {ev.text()}', f'reached through {ev.inst.chain()}'], props={'C03', 'C09', 'C11'})
    if count == 0:
        out.note('SH-5: no memoised method on the manager')
    out.count('memoised_methods', count)
