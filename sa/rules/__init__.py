"""Rule registry.

RULE_GROUPS: group id -> function(ctx, out) producing instances of one or more rule ids.
RULES:       rule id -> (group id, one-line statement of the structural condition).
PROPERTIES:  property id -> PropertySpec (rules with optional instance scope, texts for the manifest).
"""
from __future__ import annotations

from dataclasses import dataclass, field
from typing import Callable, Dict, List, Optional, Tuple

from . import cc, er, lk, on, sh, wk


@dataclass
class PropertySpec:
    pid: str
    rules: List[Tuple[str, Optional[Callable]]]      # (rule id, scope predicate on Instance or None)
    decides: str                                      # the clauses decided
    not_decided: str                                  # what is left undecided
    technique: str
    floors: Dict[str, int] = field(default_factory=dict)   # rule id -> minimal instance count


RULE_GROUPS: Dict[str, Callable] = {
    'wk.publish_notify': wk.rule_publish_notify,
    'wk.fault_reaches_run': wk.rule_fault_reaches_run,
    'wk.launch_loop_error_exit': wk.rule_launch_loop_error_exit,
    'wk.primitives': wk.rule_primitives,
    'wk.event_set': wk.rule_event_set,
    'wk.lock_regions': wk.rule_lock_regions,
    'sh.shared_writes': sh.rule_shared_writes,
    'sh.immutable_description': sh.rule_immutable_description,
    'sh.memoisation': sh.rule_memoisation,
    'on.test_and_set': on.rule_test_and_set,
    'on.body_guarded': on.rule_body_guarded,
    'on.hide_only_recurrent': on.rule_hide_only_recurrent,
    'on.event_after_publish': on.rule_event_after_publish,
    'on.owner_only_publish': on.rule_owner_only_publish,
    'cc.launch_loop': cc.rule_launch_loop,
    'cc.ready_reads': cc.rule_ready_reads,
    'cc.launch_order': cc.rule_launch_order,
    'cc.dispatch': cc.rule_dispatch,
    'cc.no_mutex': cc.rule_no_mutex,
    'lk.spawn_registered': lk.rule_spawn_registered,
    'lk.run_cleanup': lk.rule_run_cleanup,
    'lk.cleanup_starts_nothing': lk.rule_cleanup_starts_nothing,
    'lk.cancellation_surfaces': lk.rule_cancellation_surfaces,
    'er.task_typestate': er.rule_task_typestate,
    'er.chart_wraps': er.rule_chart_wraps,
    'er.result_after_error_test': er.rule_result_after_error_test,
    'er.raise_provenance': er.rule_raise_provenance,
    'er.partial_lookups': er.rule_partial_lookups,
    'er.errors_as_values': er.rule_errors_as_values,
}

RULES: Dict[str, Tuple[str, str]] = {
    'WK-a': ('wk.publish_notify', 'after a switch result is published every path to the end of the task root notifies the '
                                  'descendants of the switch node'),
    'WK-b': ('wk.fault_reaches_run', 'every fault (node body, collaborator, explicit raise) that can end a task root with an '
                                     'exception has notified the run waiter after the last real suspension point'),
    'WK-c': ('wk.publish_notify', 'after a final node result is published every path to the end of the task root notifies '
                                  'the descendants of that node'),
    'WK-d': ('wk.publish_notify', 'after a node value (result of node code) is published every path notifies the run waiter'),
    'WK-e': ('wk.publish_notify', 'after the result of a real node is published, on paths where the node is the destination '
                                  'of its dag, its own condition is notified'),
    'WK-f': ('wk.launch_loop_error_exit', 'the error exit of the launch loop notifies the destination of the dag it runs'),
    'WK-h': ('wk.primitives', 'notify_all / wait_for(predicate) under the condition lock; no bare wait(), notify(), Event.clear()'),
    'WK-k': ('wk.event_set', 'after a node is marked as processed every exit of the task (normal, exception, cancellation) '
                             'sets the node\'s execution event'),
    'WK-l': ('wk.lock_regions', 'while a condition lock is held only the wait itself is awaited, no user code runs, no other '
                                'lock is taken'),
    'SH-1': ('sh.shared_writes', 'no write effect (store, delete, mutating call) reachable from the run entry has a root that '
                                 'the run did not create (dag, chart, caller dictionaries, globals)'),
    'SH-3': ('sh.shared_writes', 'no write to module globals, class attributes or registry singletons on the run path'),
    'SH-2': ('sh.immutable_description', 'charts are frozen dataclasses, DAG.run builds a fresh local manager per call, every '
                                         'mutable field of the per-run classes is created per instance'),
    'SH-5': ('sh.memoisation', 'memoisation on the run path stores into a per-run field of the manager'),
    'ON-1': ('on.test_and_set', 'no suspension point between the negative processed-test of a node and its processed-mark'),
    'ON-2': ('on.body_guarded', 'node code (process / get_default / executor) is invoked only after the processed-mark of the '
                                'same node, and only inside task roots'),
    'ON-3': ('on.hide_only_recurrent', 'results and processed marks are hidden (re-armed) only under a recurrent-context test'),
    'ON-4': ('on.event_after_publish', 'a node\'s execution event is never set before its result is published'),
    'RD-5': ('on.owner_only_publish', 'only the activation that marked a node as processed publishes its result'),
    'CC-1': ('cc.launch_loop', 'in the launch loop node coroutines are only spawned; nothing but the readiness wait is awaited, '
                               'no node / collaborator code, sleep or gather runs in the loop\'s frame'),
    'CC-3': ('cc.ready_reads', 'the readiness predicate reads only results keyed by nodes derived from the node being launched'),
    'CC-4': ('cc.launch_order', 'the launch order comes from a generation-ordered source through order-preserving operations'),
    'CC-5': ('cc.dispatch', 'a synchronous body runs inline only under the non_async tag guard, otherwise in an executor; '
                            'tasks are created eagerly'),
    'CC-6': ('cc.no_mutex', 'node code never runs inside a lock / semaphore / with region'),
    'LK-1': ('lk.spawn_registered', 'every task-creating primitive registers the task, on every path, in the registry that '
                                    'run() cancels'),
    'LK-2': ('lk.run_cleanup', 'after run() has spawned, return, exception and cancellation of run() all pass the cancel-all loop'),
    'LK-3': ('lk.run_cleanup', 'the cancel-all loop cancels every task that is not done and never stops early'),
    'LK-4': ('lk.cleanup_starts_nothing', 'finally bodies and cancellation handlers create no task, run no node or collaborator '
                                          'code and do not sleep'),
    'LK-5': ('lk.cancellation_surfaces', 'no handler on the run path catches cancellation without re-raising it'),
    'LK-6': ('lk.cancellation_surfaces', 'no asyncio.shield; executor futures are awaited in the frame that created them'),
    'ER-1': ('er.task_typestate', 'Task.exception()/result() only where done() and not cancelled() are established'),
    'ER-2': ('er.chart_wraps', 'PipelineChart.run catches exactly Exception, returns PipelineResult(value=None, error=<caught>), '
                               'and no Exception of the entrypoint escapes it'),
    'ER-3': ('er.result_after_error_test', 'the output value is returned only after a negative error test over all registered '
                                           'tasks with no suspension point in between'),
    'ER-4': ('er.raise_provenance', 'every raise on the run path re-raises a caught exception, raises the exception of a failed '
                                    'task, or constructs a documented engine error'),
    'ER-5': ('er.partial_lookups', 'no partial look-up keyed by a node result without a dominating membership guard'),
    'ER-6': ('er.errors_as_values', 'a caught exception is returned as a value only under the is_oneof flag; no handler of the '
                                    'manager swallows an exception'),
}


PROPERTIES: Dict[str, PropertySpec] = {}


def _p(spec: PropertySpec) -> None:
    PROPERTIES[spec.pid] = spec


_p(PropertySpec(
    'C02',
    [('WK-a', None), ('WK-b', None), ('WK-c', None), ('WK-d', None), ('WK-e', None), ('WK-f', None), ('WK-h', None),
     ('WK-k', None), ('WK-l', None), ('ER-5', None)],
    decides='the wake-up discipline: every state change that can make a waiter\'s predicate true is followed on every '
            'control-flow path by a notification of the condition that waiter blocks on, every fault that ends a task '
            'reaches the run waiter, second arrivals are always released, primitives are used in their lost-wake-up-free form',
    not_decided='termination itself (fairness, progress of the loop), hangs caused by the shape of reduced dags, user '
                'predicates or node bodies that block',
    technique='interprocedural event-CFG path analysis (must-pass-through with flag-sensitive facts) over role-discovered '
              'publish / notify / wait primitives',
    floors={'WK-a': 1, 'WK-b': 20, 'WK-c': 4, 'WK-d': 1, 'WK-e': 2, 'WK-f': 1, 'WK-h': 2, 'WK-k': 1, 'WK-l': 2},
))


def _in(*props):
    ps = set(props)
    return lambda inst: True


_p(PropertySpec(
    'C04',
    [('ON-1', None), ('ON-2', None), ('ON-3', None), ('ON-4', None), ('RD-5', None), ('WK-k', None)],
    decides='the at-most-once guard: the processed test-and-set is atomic on the event loop, node code is reachable only '
            'behind it, results are re-armed only in recurrent contexts, second arrivals are released only after the result '
            'is written, and only the owner of an execution publishes its result',
    not_decided='double execution caused by graph shape (a node re-armed by an overlapping recurrent subgraph while it is '
                'still running); the retry attempts themselves are C12',
    technique='event-CFG path analysis with an await-sensitive automaton (check-then-act atomicity) and dominance of node-code '
              'invocations by the processed mark',
    floors={'ON-1': 1, 'ON-2': 3, 'ON-3': 2, 'ON-4': 2, 'RD-5': 1, 'WK-k': 1},
))

_p(PropertySpec(
    'C05',
    [('ER-1', None), ('ER-2', None), ('ER-3', None), ('ER-4', None), ('ER-5', None), ('ER-6', None)],
    decides='what can surface as the outcome: the chart wraps exactly Exception into an error result, the manager returns the '
            'output only after a negative error test over all tasks, task exceptions are read only in the done-and-not-cancelled '
            'typestate, every raise has an admissible provenance, no engine-internal look-up error can arise from a node result, '
            'failures become values only in one-of dags',
    not_decided='which of several concurrently failing nodes is reported (left open by the property); that a value is never '
                'returned when a required node failed beyond ER-3 / RD-6',
    technique='typestate over syntactic guards, exception-flow reachability in the interprocedural event CFG, taint of node '
              'results into partial look-ups, provenance of raise operands',
    floors={'ER-1': 1, 'ER-2': 3, 'ER-3': 1, 'ER-4': 6, 'ER-5': 1, 'ER-6': 4},
))

_p(PropertySpec(
    'C06',
    [('CC-1', None), ('CC-3', None), ('CC-4', None), ('CC-5', None), ('CC-6', None)],
    decides='the launch loop starts every ready node without waiting for a sibling: coroutines are only spawned, nothing but the '
            'readiness wait is awaited in the loop, readiness reads only the node\'s own inputs, the launch order is generation '
            'ordered, synchronous bodies leave the loop thread unless tagged non_async, no mutual exclusion surrounds bodies',
    not_decided='actual overlap in time (executor capacity, scheduling latency), user bodies that block the loop',
    technique='region analysis of the role-discovered launch loop in the event CFG, read-set analysis of the readiness predicate, '
              'order-source classification',
    floors={'CC-1': 1, 'CC-3': 1, 'CC-4': 1, 'CC-5': 2, 'CC-6': 2},
))

_p(PropertySpec(
    'C07',
    [('SH-1', None), ('SH-2', None), ('SH-3', None), ('SH-5', None)],
    decides='a run writes only to objects it created: no store, delete or mutating call reachable from PipelineChart.run has a '
            'root in the DAG, the chart, the caller\'s dictionaries, a module global or a class attribute; the chart is frozen, '
            'the manager and its stores are created per run, memoisation is per run',
    not_decided='interference through user node code (class attributes of node classes written by bodies), through the '
                'filesystem, or through the capacity of the shared executors',
    technique='interprocedural write-effect and ownership-root analysis with flow-sensitive reaching definitions',
    floors={'SH-1': 15, 'SH-2': 10, 'SH-5': 1},
))

_p(PropertySpec(
    'C08',
    [('SH-1', None), ('SH-2', None), ('SH-3', None), ('SH-5', None)],
    decides='overlapping runs share no mutable engine state: the same ownership statement as C07, restricted to roots shared '
            'between concurrent runs (dag, chart, globals, class attributes, registries)',
    not_decided='interference through user node code or through the capacity of the shared executors; cancellation of one run '
                'affecting another through shared pools',
    technique='interprocedural write-effect and ownership-root analysis with flow-sensitive reaching definitions',
    floors={'SH-1': 15, 'SH-2': 10, 'SH-5': 1},
))

_p(PropertySpec(
    'C13',
    [('LK-1', None), ('LK-2', None), ('LK-3', None), ('LK-4', None), ('LK-5', None), ('LK-6', None), ('ER-1', None)],
    decides='every task is created through the registry, every exit of run() (return, exception, cancellation) cancels every '
            'task that is not done, cleanup code starts no work, no handler swallows cancellation, nothing is shielded or '
            'detached, the engine\'s own cancellations are never read as an outcome',
    not_decided='the bound on the number of loop steps until cancelled tasks finish (a count); thread-pool bodies that cannot be '
                'interrupted; cancellation swallowed by the return-in-finally of the Recurrent branch (examined, task still ends)',
    technique='who-may-spawn check over all functions, post-dominance of the cancel-all loop over all exits (normal, exception, '
              'cancellation edges), effect scan of cleanup regions',
    floors={'LK-1': 1, 'LK-2': 1, 'LK-3': 1, 'LK-4': 1, 'LK-5': 4, 'LK-6': 1, 'ER-1': 1},
))
