"""Rule registry.

RULE_GROUPS: group id -> function(ctx, out) producing instances of one or more rule ids.
RULES:       rule id -> (group id, one-line statement of the structural condition).
PROPERTIES:  property id -> PropertySpec (rules with optional instance scope, texts for the manifest).
"""
from __future__ import annotations

from dataclasses import dataclass, field
from typing import Callable, Dict, List, Optional, Tuple

from . import bd, bw, bx, cc, cw, er, ev, ex, fs, fw, ha, hx, hy, hz, lk, on, oo, rcw, rd, rt, rw, sh, st, vw, wk


@dataclass
class PropertySpec:
    pid: str
    rules: List[Tuple[str, Optional[Callable]]]      # (rule id, scope predicate on Instance or None)
    decides: str                                      # the clauses decided
    not_decided: str                                  # what is left undecided
    technique: str
    floors: Dict[str, int] = field(default_factory=dict)   # rule id -> minimal instance count


RULE_GROUPS: Dict[str, Callable] = {
    'wk.publish_notify': wk.rule_publish_notify,
    'wk.waiting_request_notifies_its_dag': wk.rule_waiting_request_notifies_its_dag,
    'wk.fault_reaches_run': wk.rule_fault_reaches_run,
    'wk.launch_loop_error_exit': wk.rule_launch_loop_error_exit,
    'wk.primitives': wk.rule_primitives,
    'wk.event_set': wk.rule_event_set,
    'wk.lock_regions': wk.rule_lock_regions,
    'sh.shared_writes': sh.rule_shared_writes,
    'sh.immutable_description': sh.rule_immutable_description,
    'sh.memoisation': sh.rule_memoisation,
    'on.test_and_set': on.rule_test_and_set,
    'on.body_guarded': on.rule_body_guarded,
    'on.hide_only_recurrent': on.rule_hide_only_recurrent,
    'on.event_after_publish': on.rule_event_after_publish,
    'on.owner_only_publish': on.rule_owner_only_publish,
    'cc.launch_loop': cc.rule_launch_loop,
    'cc.ready_reads': cc.rule_ready_reads,
    'cc.launch_order': cc.rule_launch_order,
    'cc.dispatch': cc.rule_dispatch,
    'cc.no_mutex': cc.rule_no_mutex,
    'cc.wrapper_kind': cc.rule_wrapper_kind,
    'lk.spawn_registered': lk.rule_spawn_registered,
    'lk.run_cleanup': lk.rule_run_cleanup,
    'lk.cleanup_starts_nothing': lk.rule_cleanup_starts_nothing,
    'lk.cancellation_surfaces': lk.rule_cancellation_surfaces,
    'er.task_typestate': er.rule_task_typestate,
    'er.chart_wraps': er.rule_chart_wraps,
    'er.result_after_error_test': er.rule_result_after_error_test,
    'er.raise_provenance': er.rule_raise_provenance,
    'er.partial_lookups': er.rule_partial_lookups,
    'er.errors_as_values': er.rule_errors_as_values,
    'er.error_identity': er.rule_error_identity,
    'st.finish_predicates': st.rule_finish_predicates,
    'st.ready_strict': st.rule_ready_strict,
    'st.store_contract': st.rule_store_contract,
    'st.stores_independent': st.rule_stores_independent,
    'st.case_selection_worlds': st.rule_case_selection_worlds,
    'st.case_dag_worlds': st.rule_case_dag_worlds,
    'rd.launch_gated': rd.rule_launch_gated,
    'rd.field_agreement': rd.rule_field_agreement,
    'rd.switch_indirection': st.rule_switch_indirection_semantic,
    'rd.kwargs_from_edges': st.rule_kwargs_semantics,
    'rd.filtered_view': rd.rule_filtered_view,
    'rd.error_gate_siblings': rd.rule_error_gate_siblings,
    'rd.subgraph_node_set': rd.rule_subgraph_node_set,
    'st.default_visibility': st.rule_default_visibility,
    'st.contained_failures': st.rule_contained_failures,
    'st.order_skips_taken_nodes': st.rule_order_skips_taken_nodes,
    'bd.annotation_check_semantics': bd.rule_annotation_check_semantics,
    'st.ready_vs_active_subgraph': st.rule_ready_vs_active_subgraph,
    'st.kwargs_hidden_verdict': st.rule_kwargs_hidden_verdict,
    'st.ready_covers_delivered_inputs': st.rule_ready_covers_delivered_inputs,
    'hx.cancelled_execution': hx.rule_cancelled_execution,
    'hx.stored_failure_not_a_value': hx.rule_stored_failure_not_a_value,
    'hx.reserved_parameter_names': hx.rule_reserved_parameter_names,
    'hx.recurrent_error_exit': hx.rule_recurrent_error_exit,
    'hx.cancelled_node_events': hx.rule_cancelled_node_events,
    'hx.managers_isolated': hx.rule_managers_isolated,
    'hx.foreign_cancellation_reported': hx.rule_foreign_cancellation_reported,
    'hx.engine_errors_contained': hx.rule_engine_errors_contained,
    'hx.failure_channel': hx.rule_failure_channel,
    'hx.executor_exception_transfer': hx.rule_executor_exception_transfer,
    'hx.no_attempt_after_cancel': hx.rule_no_attempt_after_cancel,
    'hx.order_vs_dependencies': hx.rule_order_vs_dependencies,
    'oo.oneof_sequential': oo.rule_oneof_sequential,
    'oo.oneof_exhaustion': oo.rule_oneof_exhaustion,
    'oo.candidate_started_lazily': oo.rule_candidate_started_lazily,
    'oo.flag_propagation': oo.rule_flag_propagation,
    'oo.error_gate': oo.rule_error_gate,
    'oo.recurrent_loop': oo.rule_recurrent_loop,
    'rt.policy_defaults': rt.rule_policy_defaults,
    'rt.retry_loop': rw.rule_retry_worlds,
    'ev.pipeline_events': ev.rule_pipeline_events,
    'ev.node_events': ev.rule_node_events,
    'ev.emit_all': ev.rule_emit_all,
    'bd.marks': bd.rule_marks,
    'bd.edges': bx.rule_constructs_by_worlds,
    'bd.constructs': bx.rule_constructs_by_worlds,
    'bd.node_map_and_validation': bd.rule_node_map_and_validation,
    'bd.builder_effects': bd.rule_builder_effects,
    'on.publish_atomic': on.rule_publish_atomic,
    'bd.rejections': bd.rule_rejections,
    'ex.validation_first': ex.rule_validation_first,
    'ex.decision_table': ex.rule_decision_table,
    'ex.is_ready': ex.rule_is_ready,
    'ex.dispatch_transparent': ex.rule_dispatch_transparent,
    'fs.mode_agreement': fs.rule_mode_agreement,
    'fs.rollback': fs.rule_rollback,
    'fs.exact_key': fs.rule_exact_key,
    'fs.saves': fs.rule_saves,
    'fs.format_from_name': fs.rule_format_from_name,
    'vw.nodes_and_edges': vw.rule_nodes_and_edges,
    'vw.pure': vw.rule_pure,
    'vw.schema': vw.rule_schema,
    'vw.types': vw.rule_types,
    'vw.source_and_ids': vw.rule_source_and_ids,
    'vw.type_table': vw.rule_type_table,
    'vw.generate_total': vw.rule_generate_total,
    'hz.dead_task_wakes_run': hz.rule_dead_task_wakes_run,
    'hz.builder_structure': hz.rule_builder_structure,
    'hz.handover_keyed_by_subgraph': hz.rule_handover_keyed_by_subgraph,
    'hz.no_head_of_line_blocking': hz.rule_no_head_of_line_blocking,
    'hz.pipeline_complete_on_every_exit': hz.rule_pipeline_complete_on_every_exit,
    'hz.atomic_exclusive_save': hz.rule_atomic_exclusive_save,
    'hz.recurrent_ready_covers_outside_inputs': hz.rule_recurrent_ready_covers_outside_inputs,
    'hz.generated_default_and_stub': hz.rule_generated_default_and_stub,
    'hz.pool_fetch_outside_retry': hz.rule_pool_fetch_outside_retry,
    'hy.context_propagated': hy.rule_context_propagated,
    'hy.pool_replaceable': hy.rule_pool_replaceable,
    'hy.fork_context': hy.rule_fork_context,
    'hy.path_components': hy.rule_path_components,
    'hy.save_survives_run_exit': hy.rule_save_survives_run_exit,
    'hy.no_path_enumeration': hy.rule_no_path_enumeration,
    'hy.user_code_off_loop': hy.rule_user_code_off_loop,
    'bw.reachability': bw.rule_reachability,
    'bw.defects_rejected': bw.rule_defects_rejected,
    'bw.translation': bw.rule_translation,
    'bw.merges': bw.rule_merges,
    'bw.string_annotations': bw.rule_string_annotations,
    'bw.build_node': bw.rule_build_node,
    'bw.node_ids_one_to_one': bw.rule_node_ids_one_to_one,
    'bw.mark_factories': bw.rule_mark_factories,
    'bw.recurrent_validations': bw.rule_recurrent_validations,
    'ha.active_mark_released': ha.rule_active_mark_released,
    'rcw.recurrent_worlds': rcw.rule_recurrent_worlds,
    'cw.chart_runs_share_nothing': cw.rule_chart_runs_share_nothing,
    'ha.task_registry_only_grows': ha.rule_task_registry_only_grows,
    'ha.executor_wrapper_transparent': ha.rule_executor_wrapper_transparent,
    'ha.no_blocking_wait_on_loop': ha.rule_no_blocking_wait_on_loop,
    'ha.pool_job_follows_cancellation': ha.rule_pool_job_follows_cancellation,
    'ha.verdict_before_own_cancellation': ha.rule_verdict_before_own_cancellation,
    'ha.two_runs_share_no_mutable_state': ha.rule_two_runs_share_no_mutable_state,
    'ha.caught_error_not_rendered': ha.rule_caught_error_not_rendered,
    'ha.error_scan_is_the_subdag': ha.rule_error_scan_is_the_subdag,
    'ha.test_and_create_atomic': ha.rule_test_and_create_atomic,
    'ha.no_process_wide_registry': ha.rule_no_process_wide_registry,
    'ha.store_refusal_not_swallowed': ha.rule_store_refusal_not_swallowed,
    'ha.recurrent_flag_only_for_subgraph': ha.rule_recurrent_flag_only_for_subgraph,
    'fw.write_once_map': fw.rule_write_once_map,
}

RULES: Dict[str, Tuple[str, str]] = {
    'WK-a': ('wk.publish_notify', 'after a switch result is published every path to the end of the task root notifies the '
                                  'descendants of the switch node'),
    'WK-b': ('wk.fault_reaches_run', 'every fault (node body, collaborator, explicit raise) that can end a task root with an '
                                     'exception has notified the run waiter after the last real suspension point'),
    'WK-c': ('wk.publish_notify', 'after a final node result is published every path to the end of the task root notifies '
                                  'the descendants of that node'),
    'WK-d': ('wk.publish_notify', 'after a node value (result of node code) is published every path notifies the run waiter'),
    'WK-n': ('wk.waiting_request_notifies_its_dag', 'a request that waited for another request\'s execution notifies the node\'s condition when the node is its dag\'s destination'),
    'WK-e': ('wk.publish_notify', 'after the result of a real node is published, on paths where the node is the destination '
                                  'of its dag, its own condition is notified'),
    'WK-f': ('wk.launch_loop_error_exit', 'the error exit of the launch loop notifies the destination of the dag it runs'),
    'WK-h': ('wk.primitives', 'notify_all / wait_for(predicate) under the condition lock; no bare wait(), notify(), Event.clear()'),
    'WK-k': ('wk.event_set', 'after a node is marked as processed every exit of the task (normal, exception, cancellation) '
                             'sets the node\'s execution event'),
    'WK-l': ('wk.lock_regions', 'while a condition lock is held only the wait itself is awaited, no user code runs, no other '
                                'lock is taken'),
    'SH-1': ('sh.shared_writes', 'no write effect (store, delete, mutating call) reachable from the run entry has a root that '
                                 'the run did not create (dag, chart, caller dictionaries, globals)'),
    'SH-3': ('sh.shared_writes', 'no write to module globals, class attributes or registry singletons on the run path'),
    'SH-2': ('sh.immutable_description', 'charts are frozen dataclasses, DAG.run builds a fresh local manager per call, every '
                                         'mutable field of the per-run classes is created per instance'),
    'SH-5': ('sh.memoisation', 'memoisation on the run path stores into a per-run field of the manager'),
    'ON-1': ('on.test_and_set', 'no suspension point between the negative processed-test of a node and its processed-mark'),
    'ON-2': ('on.body_guarded', 'node code (process / get_default / executor) is invoked only after the processed-mark of the '
                                'same node, and only inside task roots'),
    'ON-3': ('on.hide_only_recurrent', 'results and processed marks are hidden (re-armed) only under a recurrent-context test'),
    'ON-4': ('on.event_after_publish', 'a node\'s execution event is never set before its result is published'),
    'RD-5': ('on.owner_only_publish', 'only the activation that marked a node as processed publishes its result'),
    'CC-1': ('cc.launch_loop', 'in the launch loop node coroutines are only spawned; nothing but the readiness wait is awaited, '
                               'no node / collaborator code, sleep or gather runs in the loop\'s frame'),
    'CC-3': ('cc.ready_reads', 'the readiness predicate reads only results keyed by nodes derived from the node being launched'),
    'CC-4': ('cc.launch_order', 'the launch order comes from a generation-ordered source through order-preserving operations'),
    'CC-5': ('cc.dispatch', 'a synchronous body runs inline only under the non_async tag guard, otherwise in an executor; '
                            'tasks are created eagerly'),
    'CC-6': ('cc.no_mutex', 'node code never runs inside a lock / semaphore / with region'),
    'CC-7': ('cc.wrapper_kind', 'a process wrapper generated for a node class is a coroutine function exactly when the wrapped method is'),
    'LK-1': ('lk.spawn_registered', 'every task-creating primitive registers the task, on every path, in the registry that '
                                    'run() cancels'),
    'OO-8': ('st.contained_failures', 'the error gate of a sub-dag does not count a failure already contained by a resolved inner one-of'),
    'ON-5': ('hx.cancelled_execution', 'a node execution cancelled after its processed-mark un-marks the node or publishes an outcome'),
    'RD-8': ('hx.stored_failure_not_a_value', 'outside a one-of dag a stored failure is never handed on as a value by a second requester'),
    'RD-7': ('hx.reserved_parameter_names', 'no engine-owned keyword parameter can collide with a declared parameter name of a node'),
    'RC-9': ('hx.recurrent_error_exit', 'the error exit of a re-iteration publishes an outcome for the destination or raises'),
    'EV-5': ('hx.cancelled_node_events', 'every on_node_start is followed by an on_node_complete, also on cancellation'),
    'EV-6': ('hx.managers_isolated', 'a raising event manager does not change what the other managers observe'),
    'ER-7': ('hx.foreign_cancellation_reported', 'a task that ended cancelled without the engine having cancelled it is not ignored by the error scan'),
    'OO-9': ('hx.engine_errors_contained', 'engine errors raised inside a possibly one-of scope are contained; sub-dags inherit the nested flag'),
    'ST-3': ('hx.failure_channel', 'a failure is not recognised by the type of the stored value'),
    'EX-6': ('hx.executor_exception_transfer', 'StopIteration cannot escape a body that runs in an executor'),
    'LK-8': ('hx.no_attempt_after_cancel', 'the retry loop starts no new attempt once its task has been asked to cancel'),
    'CC-8': ('hx.order_vs_dependencies', 'dependencies restricted to a sub-dag come from the sub-dag\'s own edges (consistent with its launch order)'),
    'VL-7': ('bd.annotation_check_semantics', 'the annotation check rejects every un-annotated parameter (whatever its default) and accepts annotated run methods'),
    'EX-7': ('ex.decision_table', 'no pool is demanded before the run for a node kind whose dispatch never fetches it'),
    'ER-10': ('hz.dead_task_wakes_run', 'a task that ends with an exception wakes run() (done-callback where tasks are created)'),
    'VL-11': ('hz.builder_structure', 'the start node of a recurrent subgraph is validated and is an ancestor of the destination'),
    'BD-14': ('hz.builder_structure', 'two recurrent declarations for one destination are not merged'),
    'BD-15': ('hz.builder_structure', 'every (label, case) pair and the decider role of a switch survive translation'),
    'BD-16': ('hz.builder_structure', 'the built graph is acyclic'),
    'RC-10': ('hz.handover_keyed_by_subgraph', 'the hand-over of a re-iteration is keyed by the subgraph, not by the start node alone'),
    'CC-12': ('hz.no_head_of_line_blocking', 'the readiness wait of one node is not awaited in the frame of the launch loop'),
    'EV-7': ('hz.pipeline_complete_on_every_exit', 'on_pipeline_complete closes the history on every exit of run()'),
    'FS-8': ('hz.atomic_exclusive_save', 'a save creates the key exclusively and publishes it atomically'),
    'RD-10': ('hz.recurrent_ready_covers_outside_inputs', 'in a recurrent scope readiness waits for outside parameter sources that have no result'),
    'BN-5': ('hz.generated_default_and_stub', 'get_default of a build_node node receives dependencies_default'),
    'VL-12': ('hz.generated_default_and_stub', 'a class without a run method of its own is rejected although a base class provides a stub'),
    'EX-11': ('hz.pool_fetch_outside_retry', 'the pool is not fetched inside the protected region of the retry loop'),
    'EX-8': ('hy.context_propagated', 'a body sent to the thread pool runs in a copy of the caller\'s contextvars context'),
    'EX-9': ('hy.pool_replaceable', 'a pool that is_ready() rejects can be replaced by registering a new one'),
    'EX-10': ('hy.fork_context', 'the process pool created by the engine does not fork its multi-threaded process'),
    'FS-7': ('fs.format_from_name', 'the format of a found artifact is read off the file name, not off Path.suffix'),
    'FS-6': ('hy.path_components', 'every free-text part of an artifact key is sanitised before it is joined to a path'),
    'AS-6': ('fs.saves', 'the save is reached for every final value (None, falsy, truthy)'),
    'AS-5': ('hy.save_survives_run_exit', 'the save of a published value is not cancellable by the end of the run'),
    'CC-9': ('hy.no_path_enumeration', 'no exponential path enumeration on the run path'),
    'CC-10': ('hy.user_code_off_loop', 'constructor and get_default of a pool-mode node do not run on the event-loop thread'),
    'CC-11': ('hy.user_code_off_loop', 'no execution mode runs a body synchronously inside the node\'s task'),
    'ER-9': ('er.error_identity', 'the exception found by the error scan is tested by identity, never by its truth value'),
    'ER-8': ('lk.spawn_registered', 'the registry scanned for the first error iterates in creation order, not in hash order'),
    'VW-10': ('vw.generate_total', 'generate() yields one entry per node and per edge, is idempotent and leaves the DAG untouched'),
    'VW-9': ('vw.type_table', 'the node-type table covers every type that occurs on a node entry'),
    'VW-7': ('vw.source_and_ids', 'the source link of a generic node follows the chain of generic classes to the class that has a source'),
    'VW-8': ('vw.source_and_ids', 'the edge id is an injective function of (source, target)'),
    'VL-8': ('bw.defects_rejected', 'a value named by a mark or by the caller is class-checked before its id is computed or it is registered'),
    'VL-9': ('bw.defects_rejected', 'every path of build() (traversal, single node, input = output) rejects a defective node with the specific error'),
    'VL-10': ('bw.defects_rejected', 'declaration sets free of defects build, one per mark kind'),
    'RC-11': ('rcw.recurrent_worlds', 'the running mark of a recurrent subgraph is released on every regular completion of its driver'),
    'BD-17': ('bw.mark_factories', 'every factory of the marks module returns its own mark, built from its arguments'),
    'BN-8': ('bw.node_ids_one_to_one', 'nodes that differ in their explicit name or type get different node ids'),
    'BN-7': ('bw.build_node', 'deriving a node with build_node does not change the annotations of the class it derives from'),
    'BN-6': ('bw.build_node', 'two classes generated by build_node from one unnamed base get different node ids'),
    'FS-9': ('fw.write_once_map', 'save / load interpreted over an abstract file system obey the laws of a write-once map keyed exactly by the node id'),
    'RC-12': ('ha.recurrent_flag_only_for_subgraph', 'only the sub-dag a recurrent driver cuts out from the start node of its subgraph is flagged recurrent'),
    'AS-7': ('ha.store_refusal_not_swallowed', 'no except clause of the engine swallows an exception of the artifact store\'s save'),
    'SH-10': ('ha.no_process_wide_registry', 'no look-up in a process-wide registry (asyncio.all_tasks ...) on the run path'),
    'FS-10': ('ha.test_and_create_atomic', 'no suspension point between the existence test of save and the creation of the file'),
    'OO-12': ('ha.error_scan_is_the_subdag', 'the error scan of a sub-dag answers for exactly the nodes of that sub-dag'),
    'ER-11': ('ha.task_registry_only_grows', 'the registry of created tasks, which run() scans for failures, is only added to during a run'),
    'CC-13': ('ha.no_blocking_wait_on_loop', 'nothing that runs on the event-loop thread waits for another thread'),
    'SH-12': ('sh.memoisation', 'the key of a memoised method tells apart calls that differ in an argument'),
    'SH-13': ('cw.chart_runs_share_nothing', 'two runs of one chart without meta / input_kwargs get new mutable context parts, none kept by the chart'),
    'SH-11': ('ha.two_runs_share_no_mutable_state', 'two run managers of one DAG share no mutable object besides the DAG'),
    'ER-13': ('ha.caught_error_not_rendered', 'no handler on the run path renders (str / f-string) the exception it caught'),
    'ER-12': ('ha.verdict_before_own_cancellation', 'the verdict of the run is read before the engine cancels its own tasks'),
    'EX-14': ('ha.pool_job_follows_cancellation', 'a job queued in a pool is cancelled with the task that awaits it'),
    'EX-13': ('ha.executor_wrapper_transparent', 'the pool wrapper re-raises what a body raised unchanged (StopIteration aside)'),
    'OO-11': ('oo.candidate_started_lazily', 'the registry of started one-of candidates is only added to during a run'),
    'OO-10': ('oo.candidate_started_lazily', 'a one-of candidate is recorded as started only in the iteration of the candidate loop that starts it'),
    'RD-9': ('st.ready_covers_delivered_inputs', 'in a plain scope readiness waits for every predecessor that delivers a parameter, also outside the sub-dag being run'),
    'SH-9': ('sh.memoisation', 'a memoised method of the run manager reads no run state (node storage)'),
    'SH-8': ('bw.translation', 'the chart description built by the builder holds no one-shot iterator'),
    'BD-9': ('bw.translation', 'the graph built for one mark of each kind equals the declared relation (nodes, edges, attributes, node map)'),
    'BD-10': ('bw.merges', 'two declared node classes with the same node id are not merged silently'),
    'BD-11': ('bw.merges', 'two switch parameters with the same free-text name are not merged silently'),
    'BD-13': ('bw.string_annotations', 'a mark in the return annotation is not translated into a dependency'),
    'BD-12': ('bw.string_annotations', 'an annotation given as a string is resolved or rejected, never skipped'),
    'BN-4': ('bw.build_node', 'every class generated by build_node stays resolvable by its own name; no module attribute is overwritten'),
    'BN-1': ('bw.build_node', 'the run method generated by build_node is named like the attribute it is stored as'),
    'BN-2': ('bw.build_node', 'the run method generated by build_node carries the documentation of the wrapped method'),
    'BN-3': ('bw.build_node', 'the run method generated by build_node carries the not re-bound annotations of the wrapped method'),
    'ON-7': ('wk.event_set', 'the execution event of a node is set only by the request that executed it'),
    'ON-6': ('st.order_skips_taken_nodes', 'a plain scope schedules exactly the nodes nobody has taken yet; a recurrent scope orders all its nodes'),
    'SH-6': ('cc.wrapper_kind', 'a process wrapper generated for a node class keeps no state in its enclosing scope'),
    'RC-8': ('oo.recurrent_loop', 'the hand-over entry of a recurrent subgraph is removed when the subgraph has finished'),
    'RT-8': ('rt.retry_loop', 'the retry policy object is made from the policy class configured on the dag'),
    'RT-9': ('rt.retry_loop', 'the retry loop gives up for every counter value at or beyond the configured attempts'),
    'RT-7': ('rt.retry_loop', 'the default value is never produced inside the protected region of the retry loop'),
    'LK-7': ('lk.spawn_registered', 'the task registry holds strong references (the event loop keeps only weak references to tasks)'),
    'LK-2': ('lk.run_cleanup', 'after run() has spawned, return, exception and cancellation of run() all pass the cancel-all loop'),
    'LK-3': ('lk.run_cleanup', 'the cancel-all loop cancels every task that is not done and never stops early'),
    'LK-4': ('lk.cleanup_starts_nothing', 'finally bodies and cancellation handlers create no task, run no node or collaborator '
                                          'code and do not sleep'),
    'LK-5': ('lk.cancellation_surfaces', 'no handler on the run path catches cancellation without re-raising it'),
    'LK-6': ('lk.cancellation_surfaces', 'no asyncio.shield; executor futures are awaited in the frame that created them'),
    'ER-1': ('er.task_typestate', 'Task.exception()/result() only where done() and not cancelled() are established'),
    'ER-2': ('er.chart_wraps', 'PipelineChart.run catches exactly Exception, returns PipelineResult(value=None, error=<caught>), '
                               'and no Exception of the entrypoint escapes it'),
    'ER-3': ('er.result_after_error_test', 'the output value is returned only after a negative error test over all registered '
                                           'tasks with no suspension point in between'),
    'ER-4': ('er.raise_provenance', 'every raise on the run path re-raises a caught exception, raises the exception of a failed '
                                    'task, or constructs a documented engine error'),
    'ER-5': ('er.partial_lookups', 'no partial look-up keyed by a node result without a dominating membership guard'),
    'ER-6': ('er.errors_as_values', 'a caught exception is returned as a value only under the is_oneof flag; no handler of the '
                                    'manager swallows an exception'),
    'WK-g': ('st.finish_predicates', 'the predicate of every waiter for a node result is true for every visible final value '
                                     '(None, falsy, truthy) and false while the result is absent or hidden (finite-domain '
                                     'abstract interpretation of the store and the predicate)'),
    'RD-2': ('st.ready_strict', 'the readiness predicate is false for an absent, hidden or Recurrent predecessor result and true '
                                'for visible final values (abstract interpretation over all store states)'),
    'SW-8': ('st.case_dag_worlds', 'the sub-dag run for the selected case holds the case and everything it depends on'),
    'SW-7': ('st.case_selection_worlds', 'a returned label records its own case; a value no case has fails the run'),
    'ST-4': ('st.stores_independent', 'after re-arming, publishing into one store of the storage leaves the node hidden in every other store'),
    'SW-4': ('st.store_contract', 're-arming a node hides it in every store that readiness, ordering or routing reads'),
    'ST-1': ('st.store_contract', 'publishing into a store makes the entry visible with exactly the published value from every '
                                  'prior state (absent, hidden, visible)'),
    'RD-1': ('rd.launch_gated', 'in the launch loop every spawn is dominated, within the iteration, by the readiness wait on the '
                                'loop variable'),
    'RD-3': ('rd.field_agreement', 'builder and run manager agree on the graph attribute vocabulary (every NodeField / EdgeField '
                                   'member written by the builder is read by the manager and vice versa); argument names come from '
                                   'the edges\' kwarg_name'),
    'RD-4': ('rd.kwargs_from_edges', 'the input node receives exactly (a copy of) the caller\'s input_kwargs'),
    'SW-3': ('rd.switch_indirection', 'every consumer of predecessor results replaces a switch predecessor by the selected case'),
    'SW-1': ('rd.filtered_view', 'every sub-dag cut on the run path is cut from the filtered view, whose filters reject exactly '
                                 'case_branch edges and untried one-of candidates'),
    'RD-6': ('rd.error_gate_siblings', 'every function that runs a possibly errors-as-values sub-dag tests it for errors'),
    'OO-1': ('oo.oneof_sequential', 'the candidate loop reaches the next candidate only through the wait on the current one and '
                                    'the failed outcome of the error test'),
    'OO-2': ('oo.oneof_sequential', 'candidates are tried in the declared order of oneof_nodes'),
    'OO-5': ('oo.oneof_exhaustion', 'exhaustion of the candidates publishes or raises OneOfDoesNotHaveResultError on every path'),
    'OO-4': ('oo.flag_propagation', 'every sub-dag inherits the errors-as-values flag of the dag it is created for'),
    'OO-6': ('oo.error_gate', 'in the launch loop every spawn is dominated by the has-subgraph-error gate of the iteration'),
    'RC-1': ('oo.recurrent_loop', 'the re-execution loop is range(max_iterations of the destination) and runs the subgraph exactly '
                                  'once per iteration'),
    'RC-2': ('oo.recurrent_loop', 'the marker data is handed over before every run and read by the argument builder from the same slot'),
    'RC-4': ('oo.recurrent_loop', 'on exhaustion the default is produced only for a Recurrent marker under use_default, otherwise '
                                  'RecurrentSubgraphDoesNotHaveResultError is published or raised'),
    'RT-1': ('rt.policy_defaults', 'the retry policy maps delay/attempts/exceptions with the documented defaults 0 / 1 / (Exception,)'),
    'RT-2': ('rt.retry_loop', 'the handlers around the node invocation are (policy.exceptions, Exception); BaseException is not caught'),
    'RT-3': ('rt.retry_loop', 'get_default is invoked with the same keyword arguments as the body'),
    'RT-4': ('rt.retry_loop', 'every retry sleeps the configured delay and invokes the body exactly once'),
    'RT-5': ('rt.retry_loop', 'the attempt counter idiom yields exactly `attempts` invocations'),
    'RT-6': ('rt.retry_loop', 'exhausted or non-retryable failures yield the default only under use_default, otherwise the caught '
                              'exception is re-raised; the non-retryable handler never retries'),
    'EV-1': ('ev.pipeline_events', 'every path of PipelineChart.run spells pipeline_start . entrypoint.run . '
                                   'pipeline_complete(result) . return result'),
    'EV-2': ('ev.node_events', 'every path of a node execution spells S ((B|D) Ce)* (B|D) D? (C0 P | Ce P?)'),
    'EV-3': ('ev.emit_all', 'the dispatcher awaits the callback of every event manager in list order'),
    'BD-1': ('bd.marks', 'the marks collected from annotations are exactly the marks the traversal translates'),
    'VL-5': ('bd.marks', 'every public mark class is either translated or rejected by the builder'),
    'BD-2': ('bd.edges', 'every mark branch adds exactly one kwarg_name edge into the consumer, named after the parameter'),
    'BD-3': ('bd.edges', 'two parameters bound to the same node remain distinguishable on the graph'),
    'BD-4': ('bd.edges', 'the implicit input edge is added only for mark-less nodes other than the input node'),
    'SW-6': ('bd.constructs', 'the builder translates SwitchCase into a flagged synthetic node, an is_switch edge and one '
                              'case_branch edge per declared case'),
    'OO-3': ('bd.constructs', 'the builder translates InputOneOf into a flagged head with the ordered candidate list and flags '
                              'every candidate is_oneof_child'),
    'RC-5': ('bd.constructs', 'the builder records start_node / max_iterations of a RecurrentSubGraph on the destination node'),
    'BD-5': ('bd.builder_effects', 'building writes only to the builder\'s own state and to objects it created (no state on node '
                                   'classes, marks, modules)'),
    'BD-7': ('bd.builder_effects', 'graph and registry updates inside a mark branch are unconditional'),
    'PB-1': ('on.publish_atomic', 'no suspension point between obtaining a node value from its execution and publishing it'),
    'RC-6': ('rd.filtered_view', 'the dag of a recurrent re-iteration (the set that is re-armed) is not cut from a view that drops '
                                 'case_branch edges'),
    'BD-8': ('bd.constructs', 'synthetic node ids are unique per declared parameter (own name, fresh id, or consumer + parameter index)'),
    'VL-6': ('bw.reachability', 'a node met more than once, or known before the traversal starts, is validated and traversed like any other'),
    'AS-4': ('fs.saves', 'the artifact is saved before the run waiter is notified'),
    'RC-7': ('rd.subgraph_node_set', 'a sub-dag consists of exactly the nodes on dependency paths from its source to its destination'),
    'ST-2': ('st.default_visibility', 'read accessors of the storage treat hidden entries as absent by default'),
    'EX-3': ('ex.decision_table', 'every path of build() to DAG(...) computes the pool flags from the node map'),
    'BD-6': ('bd.node_map_and_validation', 'every visited node is in the node map; build returns copies'),
    'VL-1': ('bw.reachability', 'a defective node is rejected with the specific error in every slot a declaration set can name it'),
    'VL-2': ('bw.reachability', 'a node named in any slot of any mark is mapped, added to the graph and traversed'),
    'VL-4': ('bd.node_map_and_validation', 'the recurrent validations dominate the construction of the DAG'),
    'VL-3': ('bd.rejections', 'every rejection class is raised under its documented condition in code reachable from the build entries'),
    'EX-1': ('ex.validation_first', 'DAG.run validates every needed pool before constructing the run manager'),
    'EX-2': ('ex.decision_table', 'for all 8 kinds of node the pool run_node fetches is validated by DAG.run, following the builder\'s '
                                  'flags through build() and DAG(...) (abstract interpretation of the three functions)'),
    'EX-4': ('ex.is_ready', 'is_ready raises iff the pool or its manager is missing or shut down; get_pool_executor checks first'),
    'EX-5': ('ex.dispatch_transparent', 'every dispatch leaf of run_node passes (*args, **kwargs) and returns the value unchanged'),
    'FS-1': ('fs.mode_agreement', 'each serializer is handed a file opened in the mode (text/binary) its dump and load need'),
    'FS-2': ('fs.rollback', 'a failed dump removes the file that made the key exist'),
    'FS-3': ('fs.exact_key', 'the node id never reaches a glob pattern; the look-up file name equals the save file name'),
    'FS-4': ('fs.exact_key', 'save / load start with the existence test of exactly this key and raise the documented errors'),
    'AS-1': ('fs.saves', 'a Recurrent marker or a contained failure is never handed to the artifact store'),
    'AS-2': ('fs.saves', 'only the owner of an execution saves, and not before the value is final'),
    'AS-3': ('fs.saves', 'the (node id, value) saved are the ones published'),
    'VW-1': ('vw.nodes_and_edges', 'exactly one node entry per DAG node on every path, synthetic nodes virtual and typed by prefix'),
    'VW-2': ('vw.nodes_and_edges', 'exactly one edge entry per DAG edge, unfiltered, with an id derived from both endpoints'),
    'VW-3': ('vw.pure', 'generating the description writes nothing rooted in the DAG'),
    'VW-4': ('vw.schema', 'schema fields are JSON-closed; as_dict is asdict; generate assembles all parts from the generators'),
    'VW-5': ('vw.types', 'every synthetic id prefix is a NodeType value and by_prefix scans every member'),
    'VW-6': ('vw.types', 'no unguarded partial Enum(value) conversion of a declared node attribute'),
}


PROPERTIES: Dict[str, PropertySpec] = {}


def _p(spec: PropertySpec) -> None:
    PROPERTIES[spec.pid] = spec


_p(PropertySpec(
    'C02',
    [('WK-a', None), ('WK-b', None), ('WK-c', None), ('WK-d', None), ('WK-e', None), ('WK-f', None), ('WK-h', None),
     ('WK-k', None), ('WK-l', None), ('ER-5', None)],
    decides='the wake-up discipline: every state change that can make a waiter\'s predicate true is followed on every '
            'control-flow path by a notification of the condition that waiter blocks on, every fault that ends a task '
            'reaches the run waiter, second arrivals are always released, primitives are used in their lost-wake-up-free form',
    not_decided='termination itself (fairness, progress of the loop), hangs caused by the shape of reduced dags, user '
                'predicates or node bodies that block',
    technique='interprocedural event-CFG path analysis (must-pass-through with flag-sensitive facts) over role-discovered '
              'publish / notify / wait primitives',
    floors={'WK-a': 1, 'WK-b': 20, 'WK-c': 4, 'WK-d': 1, 'WK-e': 2, 'WK-f': 1, 'WK-h': 2, 'WK-k': 1, 'WK-l': 2},
))


def _in(*props):
    ps = set(props)
    return lambda inst: True


_p(PropertySpec(
    'C04',
    [('ON-1', None), ('ON-2', None), ('ON-3', None), ('ON-4', None), ('RD-5', None), ('WK-k', None), ('RC-7', None)],
    decides='the at-most-once guard: the processed test-and-set is atomic on the event loop, node code is reachable only '
            'behind it, results are re-armed only in recurrent contexts, second arrivals are released only after the result '
            'is written, and only the owner of an execution publishes its result',
    not_decided='double execution caused by graph shape (a node re-armed by an overlapping recurrent subgraph while it is '
                'still running); the retry attempts themselves are C12',
    technique='event-CFG path analysis with an await-sensitive automaton (check-then-act atomicity) and dominance of node-code '
              'invocations by the processed mark',
    floors={'ON-1': 1, 'ON-2': 3, 'ON-3': 2, 'ON-4': 2, 'RD-5': 1, 'WK-k': 1},
))

_p(PropertySpec(
    'C05',
    [('ER-1', None), ('ER-2', None), ('ER-3', None), ('ER-4', None), ('ER-5', None), ('ER-6', None), ('LK-7', None)],
    decides='what can surface as the outcome: the chart wraps exactly Exception into an error result, the manager returns the '
            'output only after a negative error test over all tasks, task exceptions are read only in the done-and-not-cancelled '
            'typestate, every raise has an admissible provenance, no engine-internal look-up error can arise from a node result, '
            'failures become values only in one-of dags',
    not_decided='which of several concurrently failing nodes is reported (left open by the property); that a value is never '
                'returned when a required node failed beyond ER-3 / RD-6',
    technique='typestate over syntactic guards, exception-flow reachability in the interprocedural event CFG, taint of node '
              'results into partial look-ups, provenance of raise operands',
    floors={'ER-1': 1, 'ER-2': 3, 'ER-3': 1, 'ER-4': 6, 'ER-5': 1, 'ER-6': 4},
))

_p(PropertySpec(
    'C06',
    [('CC-1', None), ('CC-3', None), ('CC-4', None), ('CC-5', None), ('CC-6', None), ('CC-7', None)],
    decides='the launch loop starts every ready node without waiting for a sibling: coroutines are only spawned, nothing but the '
            'readiness wait is awaited in the loop, readiness reads only the node\'s own inputs, the launch order is generation '
            'ordered, synchronous bodies leave the loop thread unless tagged non_async, no mutual exclusion surrounds bodies',
    not_decided='actual overlap in time (executor capacity, scheduling latency), user bodies that block the loop',
    technique='region analysis of the role-discovered launch loop in the event CFG, read-set analysis of the readiness predicate, '
              'order-source classification',
    floors={'CC-1': 1, 'CC-3': 1, 'CC-4': 1, 'CC-5': 2, 'CC-6': 2},
))

_p(PropertySpec(
    'C07',
    [('SH-1', None), ('SH-2', None), ('SH-3', None), ('SH-5', None)],
    decides='a run writes only to objects it created: no store, delete or mutating call reachable from PipelineChart.run has a '
            'root in the DAG, the chart, the caller\'s dictionaries, a module global or a class attribute; the chart is frozen, '
            'the manager and its stores are created per run, memoisation is per run',
    not_decided='interference through user node code (class attributes of node classes written by bodies), through the '
                'filesystem, or through the capacity of the shared executors',
    technique='interprocedural write-effect and ownership-root analysis with flow-sensitive reaching definitions',
    floors={'SH-1': 15, 'SH-2': 10, 'SH-5': 1},
))

_p(PropertySpec(
    'C08',
    [('SH-1', None), ('SH-2', None), ('SH-3', None), ('SH-5', None)],
    decides='overlapping runs share no mutable engine state: the same ownership statement as C07, restricted to roots shared '
            'between concurrent runs (dag, chart, globals, class attributes, registries)',
    not_decided='interference through user node code or through the capacity of the shared executors; cancellation of one run '
                'affecting another through shared pools',
    technique='interprocedural write-effect and ownership-root analysis with flow-sensitive reaching definitions',
    floors={'SH-1': 15, 'SH-2': 10, 'SH-5': 1},
))

_p(PropertySpec(
    'C13',
    [('LK-1', None), ('LK-2', None), ('LK-3', None), ('LK-4', None), ('LK-5', None), ('LK-6', None), ('LK-7', None), ('ER-1', None)],
    decides='every task is created through the registry, every exit of run() (return, exception, cancellation) cancels every '
            'task that is not done, cleanup code starts no work, no handler swallows cancellation, nothing is shielded or '
            'detached, the engine\'s own cancellations are never read as an outcome',
    not_decided='the bound on the number of loop steps until cancelled tasks finish (a count); thread-pool bodies that cannot be '
                'interrupted; cancellation swallowed by the return-in-finally of the Recurrent branch (examined, task still ends)',
    technique='who-may-spawn check over all functions, post-dominance of the cancel-all loop over all exits (normal, exception, '
              'cancellation edges), effect scan of cleanup regions',
    floors={'LK-1': 1, 'LK-2': 1, 'LK-3': 1, 'LK-4': 1, 'LK-5': 4, 'LK-6': 1, 'ER-1': 1},
))


def _viol(inst):
    return inst.verdict == 'VIOLATION'


def _mentions(*words):
    ws = [w.lower() for w in words]
    return lambda inst: any(w in inst.construct.lower() for w in ws)


PROPERTIES['C13'].rules.append(('RT-2', _mentions('non-exception')))
# C02 also owns the finish predicates
PROPERTIES['C02'].rules.append(('WK-g', None))
PROPERTIES['C02'].rules.append(('ST-1', None))
PROPERTIES['C02'].rules.append(('RD-2', None))
PROPERTIES['C02'].floors.update({'WK-g': 2, 'ST-1': 2})
# a started one-of candidate must stay visible in every later sub-dag, or it is never launched and its owner waits forever
PROPERTIES['C02'].rules.append(('SW-1', _mentions('filter_node')))

_p(PropertySpec(
    'C03',
    [('RD-1', None), ('RD-2', None), ('RD-3', None), ('RD-4', None), ('RD-5', None), ('RD-6', None), ('SW-3', None),
     ('ST-1', None), ('ST-2', None), ('OO-6', None), ('ER-6', None), ('PB-1', None), ('RC-6', None), ('RC-7', None), ('SH-1', _viol),
     ('BD-8', None)],
    decides='the launch is gated by the readiness wait, readiness is strict over every store state (absent / hidden / Recurrent '
            'predecessors never release a node), argument names and the switch indirection agree between builder, readiness and '
            'argument delivery, the input node gets the caller\'s input_kwargs, failure objects become values only in one-of dags '
            'and are gated before any consumer is launched, only the owner of an execution publishes its result',
    not_decided='that the delivered value is the final one when results of a recurrent iteration are read from outside the '
                'subgraph (graph shape and schedule dependent); coverage of the error gate for arbitrary graph shapes',
    technique='dominance in the event CFG + finite-domain abstract interpretation of the readiness predicate over all store states '
              '+ builder/manager vocabulary agreement',
    floors={'RD-1': 1, 'RD-2': 1, 'RD-3': 10, 'RD-4': 1, 'RD-5': 1, 'RD-6': 2, 'SW-3': 2, 'OO-6': 1},
))

_p(PropertySpec(
    'C09',
    [('SW-1', None), ('SW-3', None), ('SW-4', None), ('SW-6', None), ('WK-a', None), ('WK-b', _mentions('switch', 'case_result')),
     ('ER-5', None), ('RC-6', None), ('ST-2', None), ('BD-8', None),
     ('WK-b', _mentions('switch', '_add_case_result')), ('RD-3', _mentions('is_switch', 'case_branch')), ('SH-1', _viol)],
    decides='laziness (every sub-dag is cut from the view without case_branch edges, whose filter is evaluated over the attribute '
            'domain), routing (readiness and argument delivery both resolve a switch to the selected case; the builder writes and '
            'the manager reads the same attributes), per-iteration reset of the selected case, reuse of an already computed case '
            '(consumers are notified), an unknown label is a guarded look-up that fails the run through the notifying raiser',
    not_decided='that only demanded nodes run for every graph shape (a case that is also an ordinary dependency elsewhere is '
                'legitimately executed); value correctness of the routed result',
    technique='def-use of sub-dag constructions, abstract interpretation of the view filters and of the re-arming composite, '
              'path analysis of the switch task root',
    floors={'SW-1': 3, 'SW-3': 2, 'SW-4': 1, 'SW-6': 1, 'WK-a': 1, 'ER-5': 1},
))

_p(PropertySpec(
    'C10',
    [('OO-1', None), ('OO-2', None), ('OO-3', None), ('OO-4', None), ('OO-5', None), ('OO-6', None), ('RD-6', None),
     ('WK-f', None), ('WK-g', _mentions('oneof')), ('SW-1', _mentions('filter_node', 'sub-dag')), ('ER-6', None), ('RD-2', None), ('BD-8', None),
     ('SH-1', _viol), ('OO-8', None)],
    decides='candidates are tried sequentially, lazily and in declared order; untried candidates are excluded from every executed '
            'dag; the errors-as-values flag is inherited by every sub-dag; the error gate precedes every launch; exhaustion '
            'yields OneOfDoesNotHaveResultError; the owner of a candidate is woken on deep failures and on None results; '
            'candidate flags are per run',
    not_decided='that a losing candidate\'s stored exceptions never make an unrelated one-of look failed (has_subgraph_error scans '
                'whole dags), and that cancelling the local tasks of a failed branch never cancels work another consumer shares',
    technique='region and path analysis of the role-discovered candidate loop, abstract interpretation of the wait predicate and '
              'of the node filter, sibling cross-check of error gates',
    floors={'OO-1': 1, 'OO-2': 1, 'OO-3': 1, 'OO-4': 3, 'OO-5': 1, 'OO-6': 1, 'RD-6': 2, 'WK-f': 1, 'WK-g': 1},
))

_p(PropertySpec(
    'C11',
    [('RC-1', None), ('RC-2', None), ('RC-4', None), ('RC-5', None), ('RD-2', None), ('SW-4', None), ('ST-1', None),
     ('ON-3', None), ('SW-1', _mentions('sub-dag')), ('RD-5', None), ('PB-1', None), ('RC-6', None), ('RC-7', None), ('ST-2', None), ('SH-1', _viol), ('RC-8', None)],
    decides='the re-execution loop is bounded by exactly max_iterations and runs the subgraph once per iteration, the marker data '
            'is handed over before every run through a per-run slot the argument builder reads, consumers are never released on a '
            'Recurrent or hidden result, re-arming resets every store readiness and routing read and happens only in recurrent '
            'contexts, exhaustion yields the default only for a marker under use_default and otherwise the documented error',
    not_decided='that exactly the nodes on dependency paths are re-executed (semantics of nx.all_simple_paths on runtime graphs), '
                'and nodes outside the subgraph reading intermediate results of an iteration',
    technique='loop-shape and path analysis of the role-discovered iteration loop, abstract interpretation of readiness and of the '
              're-arming composite',
    floors={'RC-1': 2, 'RC-2': 1, 'RC-4': 1, 'RC-5': 1, 'RD-2': 1, 'SW-4': 1, 'ON-3': 2},
))

_p(PropertySpec(
    'C12',
    [('RT-1', None), ('RT-2', None), ('RT-3', None), ('RT-4', None), ('RT-5', None), ('RT-6', None), ('RT-7', None),
     # the attempt budget belongs to one execution: retry state written on an object that outlives the run is shared by
     # overlapping runs of the chart (SH-1 instances about retry / attempt state only, and only when they fail)
     ('SH-1', lambda inst: inst.verdict == 'VIOLATION' and any(w in (inst.construct + ' ' + ' '.join(inst.path)).lower() for w in ('retry', 'attempt')))],
    decides='the policy defaults (0 / 1 / (Exception,)), the handler classes around the invocation, argument agreement between body '
            'and get_default, the sleep on every retry edge, the counter idiom whose inductive invariant gives exactly `attempts` '
            'invocations, and the exits of both handlers (default only under use_default, otherwise re-raise; no retry of '
            'non-retryable exceptions; BaseException untouched)',
    not_decided='the actual number of invocations and the elapsed delay at run time (decided only through the shape of the one '
                'retry loop; an unrecognised loop idiom is UNDECIDED, never a violation)',
    technique='loop-idiom recognition with an inductive counter invariant, handler-class analysis, path analysis of the retry loop',
    floors={'RT-1': 3, 'RT-2': 1, 'RT-3': 1, 'RT-4': 1, 'RT-5': 1, 'RT-6': 1},
))

_p(PropertySpec(
    'C14',
    [('EV-1', None), ('EV-2', None), ('EV-3', None)],
    decides='under the property\'s own precondition (event managers do not raise) every control-flow path of PipelineChart.run '
            'and of a node execution spells a word of the event language: one pipeline_start first, one pipeline_complete last '
            'carrying the returned object; per node one start, one complete per attempt, complete(error=None) iff a value is '
            'returned, the publish never before the final complete; every manager is called in order',
    not_decided='ordering between events of different nodes (a property of schedules); managers that raise',
    technique='path-language inclusion: product of the projected event CFG with a hand-written DFA, no loop unrolling',
    floors={'EV-1': 1, 'EV-2': 1, 'EV-3': 1},
))

_p(PropertySpec(
    'C15',
    [('BD-1', None), ('BD-2', None), ('BD-3', None), ('BD-4', None), ('BD-5', None), ('BD-6', None), ('BD-7', None), ('VL-2', None),
     ('SW-6', None), ('OO-3', None), ('RC-5', None), ('RD-3', None), ('BD-8', None), ('VL-6', None)],
    decides='every collected mark is translated, every mark branch delivers its parameter by exactly one kwarg_name edge into the '
            'consumer, the implicit input edge exists only for mark-less nodes, every declared node reaches the worklist and the '
            'node map, the three constructs write the attributes the manager reads, build returns copies',
    not_decided='that every defect-free declaration set builds, and order-independence for arbitrary class graphs (quantify over '
                'programs); identity of node ids for classes with equal names',
    technique='syntax-directed checks of the builder\'s mark dispatch against the mark dataclasses and the manager\'s attribute reads',
    floors={'BD-1': 1, 'BD-2': 4, 'BD-3': 2, 'BD-4': 1, 'BD-6': 1, 'VL-2': 8, 'SW-6': 1, 'OO-3': 1, 'RC-5': 1, 'RD-3': 10},
))

_p(PropertySpec(
    'C16',
    [('VL-1', None), ('VL-2', None), ('VL-3', None), ('VL-4', None), ('VL-5', None), ('VL-6', None), ('BD-5', None), ('BD-7', None), ('RC-5', None)],
    decides='every visited node is validated first, every node-valued field of every mark is visited, each of the nine rejection '
            'classes is raised under its documented condition in code reachable from build_dag / build_dag_single / build_node, '
            'the recurrent validations dominate the construction of the DAG, every public mark is translated or rejected',
    not_decided='that every declaration set free of these defects builds successfully (quantifies over programs)',
    technique='call-graph reachability from the build entries, syntactic guards of every raise against a frozen condition table, '
              'statement-order dominance',
    floors={'VL-1': 8, 'VL-2': 8, 'VL-3': 9, 'VL-4': 2, 'VL-5': 6, 'VL-6': 4},
))

_p(PropertySpec(
    'C17',
    [('EX-1', None), ('EX-2', None), ('EX-3', None), ('EX-4', None), ('EX-5', None), ('CC-5', None), ('CC-7', None)],
    decides='pool validation precedes the run manager; for all 8 kinds of node (coroutine x process tag x non_async tag) the pool '
            'that run_node fetches is one that DAG.run validated, following the flags from _is_executor_needed through build() '
            'and DAG(...); is_ready raises exactly when a pool or its manager is missing or shut down; every dispatch leaf passes '
            'the same arguments and returns the body\'s value unchanged',
    not_decided='outcome equality under real pool timing (pickling, process boundaries, executor capacity)',
    technique='abstract interpretation of run_node, _is_executor_needed, _start_runtime_validation and is_ready over the finite '
              'domain of node kinds / registry states, plus dominance in DAG.run',
    floors={'EX-1': 1, 'EX-2': 1, 'EX-4': 4, 'EX-5': 1},
))

_p(PropertySpec(
    'C18',
    [('FS-1', None), ('FS-2', None), ('FS-3', None), ('FS-4', None)],
    decides='text/binary agreement between every serializer and the mode of the file it is handed (for save and load), rollback '
            'of the created file when the dump fails, exactness of the key (no glob pattern, same file name template for save and '
            'look-up), existence test first with the documented error classes',
    not_decided='round-trip equality of values and the behaviour of the underlying filesystem (concurrent writers, crashes '
                'between create and unlink)',
    technique='stdlib fact table (which primitive writes str / bytes) against the open modes, syntactic try/rollback and '
              'template comparison',
    floors={'FS-1': 4, 'FS-2': 1, 'FS-3': 2, 'FS-4': 2},
))

_p(PropertySpec(
    'C19',
    [('AS-1', None), ('AS-2', None), ('AS-3', None), ('AS-4', None)],
    decides='what the engine hands to a configured store: the value classes at the save call (never a Recurrent marker or a '
            'contained failure), who saves (only the owner of an execution) and when (not before the value is final), and that '
            'the saved (id, value) are the published ones',
    not_decided='behaviour of user-supplied stores; exactly-once over all schedules beyond the owner rule',
    technique='guard analysis at the collaborator call, dominance by the processed mark, comparison of symbolic (id, value) terms',
    floors={'AS-1': 2, 'AS-2': 2, 'AS-3': 1},
))

_p(PropertySpec(
    'C20',
    [('VW-1', None), ('VW-2', None), ('VW-3', None), ('VW-4', None), ('VW-5', None), ('VW-6', None)],
    decides='one node entry per DAG node on every path (virtual nodes typed by id prefix, real nodes with declared data), one edge '
            'entry per DAG edge with an id derived from both endpoints, no write to the DAG, JSON-closed schema serialised by '
            'asdict, totality of by_prefix on the synthetic ids the builder generates, no partial Enum conversion of declared '
            'node types',
    not_decided='the content of documentation strings and source links (inspect at run time); the static viewer assets',
    technique='CFG path counting in the node generator, comprehension shape of the edge generator, effect scan, schema type closure',
    floors={'VW-1': 2, 'VW-2': 2, 'VW-3': 1, 'VW-4': 6, 'VW-5': 3, 'VW-6': 1},
))

# rules added for the defects reproduced by independent bug-hunting agents (DESIGN 9.8)
def _add(pid, *rules):
    for r in rules:
        if r not in [x[0] for x in PROPERTIES[pid].rules]:
            PROPERTIES[pid].rules.append((r, None))


_add('C02', 'ON-5', 'RC-9', 'ER-7', 'EX-6', 'CC-8')
_add('C03', 'ON-5', 'RD-8', 'RD-7')
_add('C04', 'ON-5')
_add('C05', 'RD-8', 'ER-7', 'ST-3')
_add('C09', 'CC-8')
_add('C10', 'ON-5', 'RD-8', 'RC-9', 'OO-9', 'ST-3')
_add('C11', 'RC-9', 'ST-3')
_add('C13', 'LK-8')
_add('C14', 'EV-5', 'EV-6')
_add('C16', 'VL-7')
_add('C07', 'SH-6')
_add('C08', 'SH-6')
_add('C04', 'ON-6')
_add('C19', 'ON-6')
_add('C16', 'VL-8', 'VL-9', 'VL-10', 'BD-12', 'BN-3')
_add('C15', 'BD-9', 'BD-10', 'BD-11', 'BD-12', 'BD-13', 'BN-3', 'SH-8')
_add('C17', 'BN-1', 'EX-7', 'BN-4')
_add('C06', 'BN-4')
_add('C15', 'BN-4')
_add('C07', 'ER-8', 'EX-9', 'SH-8', 'BN-4')
_add('C10', 'SH-8', 'OO-10')
_add('C03', 'SH-9', 'RD-9', 'ON-7')
_add('C04', 'ON-7')
_add('C14', 'ON-7')
_add('C09', 'SH-9')
_add('C11', 'SH-9')
_add('C05', 'RT-2', 'RT-5', 'RT-6')
_add('C12', 'RT-8', 'RT-9', 'BN-5')
_add('C02', 'ER-10', 'VL-11', 'BD-15', 'BD-16')
_add('C05', 'ER-10')
_add('C14', 'ER-10', 'EV-7')
_add('C16', 'VL-11', 'VL-12')
_add('C15', 'BD-14', 'BD-15', 'BD-16')
_add('C11', 'RC-10', 'BD-14', 'VL-11', 'RD-10')
_add('C04', 'RC-10')
_add('C06', 'CC-12')
_add('C18', 'FS-8')
_add('C09', 'BD-15', 'RD-10')
_add('C03', 'RD-10')
_add('C02', 'ER-9')
_add('C03', 'SW-4')
_add('C10', 'OO-11')
_add('C02', 'ER-11')
_add('C05', 'ER-11', 'OO-4')
_add('C12', 'EX-13')
_add('C17', 'EX-13', 'RD-7')
_add('C06', 'CC-13')
_add('C13', 'EX-14')
_add('C09', 'SW-7', 'SW-8')
_add('C04', 'EX-5')
_add('C05', 'ER-12', 'ER-13')
_add('C02', 'WK-n')
_add('C03', 'SH-12')
_add('C19', 'ST-1')
_add('C11', 'SH-12')
_add('C06', 'RT-4')
_add('C09', 'RC-12')
_add('C10', 'ER-1')
_add('C11', 'ON-2')
_add('C04', 'WK-n')
_add('C07', 'SH-11')
_add('C08', 'SH-11')
_add('C14', 'LK-1', 'LK-2')
_add('C12', 'EX-5')
_add('C17', 'CC-13')
_add('C10', 'OO-12')
_add('C05', 'OO-12')
_add('C18', 'FS-10')
_add('C08', 'SH-10')
_add('C13', 'SH-10')
_add('C19', 'AS-7')
_add('C11', 'RC-12')
_add('C04', 'RC-12')
_add('C18', 'FS-9')
_add('C17', 'SH-5')
_add('C15', 'BN-6', 'BN-8', 'BD-17')
_add('C10', 'BD-17')
_add('C17', 'BN-4')
_add('C04', 'PB-1')
_add('C14', 'ER-2')
_add('C16', 'BN-7')
_add('C15', 'BN-7')
_add('C07', 'BN-7')
_add('C07', 'SH-13')
for _pid in ('C02', 'C03', 'C09', 'C11'):
    _add(_pid, 'ST-4')
_add('C11', 'RC-11')
_add('C02', 'RC-11')
_add('C02', 'PB-1')
_add('C05', 'ER-9')
_add('C14', 'ER-9')
_add('C02', 'RT-9')
_add('C08', 'EX-9', 'EX-10', 'SH-8', 'BN-4')
_add('C17', 'EX-8', 'EX-9', 'EX-10', 'EX-11')
_add('C18', 'FS-6', 'FS-7')
_add('C19', 'AS-5', 'AS-6')
_add('C06', 'CC-9', 'CC-10', 'CC-11')
_add('C05', 'ER-8')
_add('C20', 'BN-2', 'VW-7', 'VW-8', 'VW-9', 'VW-10')


def _also(pid, text):
    PROPERTIES[pid].decides = PROPERTIES[pid].decides.rstrip('. ') + '; ' + text


_also('C15', 'by abstract interpretation of build() over one mark of each kind: the built graph (nodes, edges, the datum on each edge, '
             'node map) equals the declared relation, also for input = output; id collisions of nodes and of switches, string '
             'annotations and the annotations of build_node wrappers (recorded defects)')
_also('C16', 'by abstract interpretation of build() over single-defect declaration sets: a non-class value in any slot a mark or the '
             'caller can name is rejected with IncorrectTypeClass before anything else is done with it, every path of build() (traversal, '
             'single node, input = output) rejects a defective node, valid sets build; the annotation check exempts parameters by kind')
_also('C17', 'no pool is demanded for a node kind that never fetches it; the generated run method of build_node is picklable by name; '
             'context propagation into the thread pool, replaceability of a dead pool, fork start method (recorded defects)')
_also('C20', 'the source link follows the whole chain of generic classes; build_node keeps the documentation of the wrapped method; '
             'injectivity of the edge id (recorded defect)')
_also('C18', 'whether the free-text parts of a key are sanitised before they become path components (recorded defect)')
_also('C19', 'whether the save of a published value can be cancelled by the end of the run (recorded defect)')
_also('C06', 'no path enumeration, constructor, get_default or inline body on the loop thread (recorded defects)')
_also('C07', 'writes through networkx graph views into the shared attribute dictionary; the task registry iterates in creation order; '
             'replaceability of a dead process-wide pool (recorded defect)')
_also('C08', 'writes through networkx graph views; replaceability of a dead pool and the fork start method (recorded defects)')
_also('C05', 'the error scan iterates the task registry in creation order')
EXTRA_GROUPS = {
    # additional rule groups that report under an existing rule id
    'C03': ['st.ready_vs_active_subgraph', 'st.kwargs_hidden_verdict'],
    'C11': ['st.ready_vs_active_subgraph', 'st.kwargs_hidden_verdict', 'rcw.recurrent_worlds'],
    'C02': ['rcw.recurrent_worlds'],
    'C09': ['st.kwargs_hidden_verdict'],
    'C16': ['bw.recurrent_validations'],
}
