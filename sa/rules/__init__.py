"""Rule registry.

RULE_GROUPS: group id -> function(ctx, out) producing instances of one or more rule ids.
RULES:       rule id -> (group id, one-line statement of the structural condition).
PROPERTIES:  property id -> PropertySpec (rules with optional instance scope, texts for the manifest).
"""
from __future__ import annotations

from dataclasses import dataclass, field
from typing import Callable, Dict, List, Optional, Tuple

from . import wk


@dataclass
class PropertySpec:
    pid: str
    rules: List[Tuple[str, Optional[Callable]]]      # (rule id, scope predicate on Instance or None)
    decides: str                                      # the clauses decided
    not_decided: str                                  # what is left undecided
    technique: str
    floors: Dict[str, int] = field(default_factory=dict)   # rule id -> minimal instance count


RULE_GROUPS: Dict[str, Callable] = {
    'wk.publish_notify': wk.rule_publish_notify,
    'wk.fault_reaches_run': wk.rule_fault_reaches_run,
    'wk.launch_loop_error_exit': wk.rule_launch_loop_error_exit,
    'wk.primitives': wk.rule_primitives,
    'wk.event_set': wk.rule_event_set,
    'wk.lock_regions': wk.rule_lock_regions,
}

RULES: Dict[str, Tuple[str, str]] = {
    'WK-a': ('wk.publish_notify', 'after a switch result is published every path to the end of the task root notifies the '
                                  'descendants of the switch node'),
    'WK-b': ('wk.fault_reaches_run', 'every fault (node body, collaborator, explicit raise) that can end a task root with an '
                                     'exception has notified the run waiter after the last real suspension point'),
    'WK-c': ('wk.publish_notify', 'after a final node result is published every path to the end of the task root notifies '
                                  'the descendants of that node'),
    'WK-d': ('wk.publish_notify', 'after a node value (result of node code) is published every path notifies the run waiter'),
    'WK-e': ('wk.publish_notify', 'after the result of a real node is published, on paths where the node is the destination '
                                  'of its dag, its own condition is notified'),
    'WK-f': ('wk.launch_loop_error_exit', 'the error exit of the launch loop notifies the destination of the dag it runs'),
    'WK-h': ('wk.primitives', 'notify_all / wait_for(predicate) under the condition lock; no bare wait(), notify(), Event.clear()'),
    'WK-k': ('wk.event_set', 'after a node is marked as processed every exit of the task (normal, exception, cancellation) '
                             'sets the node\'s execution event'),
    'WK-l': ('wk.lock_regions', 'while a condition lock is held only the wait itself is awaited, no user code runs, no other '
                                'lock is taken'),
}


PROPERTIES: Dict[str, PropertySpec] = {}


def _p(spec: PropertySpec) -> None:
    PROPERTIES[spec.pid] = spec


_p(PropertySpec(
    'C02',
    [('WK-a', None), ('WK-b', None), ('WK-c', None), ('WK-d', None), ('WK-e', None), ('WK-f', None), ('WK-h', None),
     ('WK-k', None), ('WK-l', None)],
    decides='the wake-up discipline: every state change that can make a waiter\'s predicate true is followed on every '
            'control-flow path by a notification of the condition that waiter blocks on, every fault that ends a task '
            'reaches the run waiter, second arrivals are always released, primitives are used in their lost-wake-up-free form',
    not_decided='termination itself (fairness, progress of the loop), hangs caused by the shape of reduced dags, user '
                'predicates or node bodies that block',
    technique='interprocedural event-CFG path analysis (must-pass-through with flag-sensitive facts) over role-discovered '
              'publish / notify / wait primitives',
    floors={'WK-a': 1, 'WK-b': 20, 'WK-c': 4, 'WK-d': 1, 'WK-e': 2, 'WK-f': 1, 'WK-h': 2, 'WK-k': 1, 'WK-l': 2},
))
