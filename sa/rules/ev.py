"""EV-* (C14): lifecycle events form a well-formed history.  Decided by path-language inclusion: the
event CFG, projected onto a small alphabet, is explored together with a hand-written DFA of the
allowed words; loops need no unrolling (the product is finite)."""
from __future__ import annotations

import ast
from typing import Dict, List, Optional, Set, Tuple

from .. import sym
from ..cfg import Ev, Graph, reach
from ..engine import CHART_RUN, Ctx
from ..paths import EXC_LABELS, NORMAL_LABELS, Search
from ..program import AnalysisError, FuncEnv, FuncUnit, dotted, unparse
from ..report import Collector
from .common import path_text, publishes


def emit_kind(ctx: Ctx, ev: Ev) -> Optional[str]:
    """'on_node_start' ... for a call of an emit function (a function whose body calls the dispatcher
    with that constant event name)."""
    if ev.kind != 'call':
        return None
    for t in ev.info.get('targets', ()):
        if t[0] == 'func':
            unit = t[1]
            for n in ast.walk(unit.node):
                if isinstance(n, ast.Call) and n.args and isinstance(n.args[0], ast.Constant) and isinstance(n.args[0].value, str) \
                        and n.args[0].value.startswith('on_') and isinstance(n.func, ast.Attribute) and n.func.attr.startswith('_emit'):
                    return n.args[0].value
    return None


def _collab_sources(ctx: Ctx, g: Graph, kinds=('event', 'store')) -> Set[int]:
    """Events whose exception edge is a fault of a user-supplied collaborator of the given kinds."""
    out = set()
    for ev in g.evs:
        src = ev
        if ev.kind == 'await' and ev.info.get('call') is not None:
            src = g.evs[ev.info['call']]
        if src.kind == 'call' and ctx.roles.collab(src) in kinds:
            out.add(ev.id)
    return out


def rule_pipeline_events(ctx: Ctx, out: Collector) -> None:
    """EV-1: PipelineChart.run emits pipeline_start, runs the entrypoint, emits pipeline_complete with the
    object it then returns - in that order, each exactly once, on every path (event managers do not raise)."""
    unit = ctx.p.func(CHART_RUN)
    g = ctx.graph(CHART_RUN, depth=max(ctx.depth, 10))
    root = g.root_inst
    collab = _collab_sources(ctx, g)
    sym_of: Dict[int, str] = {}
    c_arg: Dict[int, tuple] = {}
    from ..engine import follow_values

    def value_terms(expr, inst):
        if expr is None:
            return frozenset()
        direct = sym.term(ctx.p, expr, inst)
        return frozenset([direct]) | frozenset(sym.term(ctx.p, e, i) for e, i in follow_values(ctx.p, expr, inst))

    for ev in g.events('call'):
        k = emit_kind(ctx, ev)
        if ev.inst is not root and k not in ('on_pipeline_start', 'on_pipeline_complete'):
            continue
        if k == 'on_pipeline_start':
            sym_of[ev.id] = 'S'
        elif k == 'on_pipeline_complete':
            sym_of[ev.id] = 'C'
            c = ev.node
            arg = c.args[0] if c.args else next((kw.value for kw in c.keywords if kw.arg == 'result'), None)
            c_arg[ev.id] = (arg, ev.inst)
        elif isinstance(ev.node, ast.Call) and isinstance(ev.node.func, ast.Attribute) and ev.node.func.attr == 'run' \
                and 'entrypoint' in unparse(ev.node.func.value):
            sym_of[ev.id] = 'R'
    for ev in g.events('return'):
        if ev.inst is root:
            sym_of[ev.id] = 'ret'
    if set(sym_of.values()) != {'S', 'R', 'C', 'ret'}:
        raise AnalysisError(f'PipelineChart.run: alphabet incomplete ({sorted(set(sym_of.values()))}) (EV-1 anchors vanished)')
    delta = {(0, 'S'): 1, (1, 'R'): 2, (2, 'C'): 3, (3, 'ret'): 4}
    s = Search(ctx.p, g, EXC_LABELS)
    first_r = {}

    def estep(prev, lab, e, state, facts):
        q, cname = state
        if prev is not None and lab == 'exc' and prev.id in collab:
            return None                       # precondition: event managers do not raise
        sy = sym_of.get(e.id)
        if sy is None:
            return state
        if sy == 'R':
            # the inlined implementations and the opaque protocol call are alternatives of one R
            if q == 2:
                return state
        nq = delta.get((q, sy))
        if nq is None:
            return ('BAD', f'{sy} in state {q}')
        if sy == 'C':
            arg, ainst = c_arg.get(e.id)
            cname = value_terms(arg, ainst)
        if sy == 'ret':
            rv = e.info.get('value')
            rterms = value_terms(rv, e.inst)
            if not (rterms & cname) or (len(rterms) > 2 and rterms != cname):
                return ('BAD', f'returns {unparse(rv) if rv is not None else None} but completed with '
                               f'{sorted(sym.show(t) for t in cname)[:2]}')
        return (nq, cname)

    def goal(e, state, facts):
        if state[0] == 'BAD':
            return True
        if e.id == g.exit and state[0] != 4:
            return True
        return False

    res = s.run([(g.entry, (0, None), frozenset())], None, goal, edge_step=estep)
    cons = f'{unit.module.name}::{unit.qualname}::pipeline_start . entrypoint.run . pipeline_complete(result) . return result'
    if res is None:
        out.ok('EV-1', cons, ctx.p.loc(unit, unit.node), 'every path of run() spells S R C ret; the completed object is the returned one')
    else:
        st = res[1]
        why = st[1] if st[0] == 'BAD' else f'run() returns in state {st[0]} of S R C ret'
        out.bad('EV-1', cons, ctx.p.loc(unit, unit.node), f'a path of PipelineChart.run leaves the language pipeline_start . entrypoint.run . '
                                                          f'pipeline_complete(result) . return result: {why}', path_text(g, res[0]))
    # no reassignment of the result between C and ret is covered by the name equality on single-assignment paths


def rule_node_events(ctx: Ctx, out: Collector) -> None:
    """EV-2: per node execution: one start, one complete per attempt, complete(error=None) iff a value is
    returned, the publish never precedes the final complete."""
    mgr = ctx.manager_class()
    n = 0
    for fid, g in ctx.run_graphs().items():
        pubs = {pb.ev.id for pb in publishes(ctx, g, ['node_results']) if _pub_of_executed(ctx, g, pb)}
        sym_of: Dict[int, str] = {}
        for ev in g.events('call'):
            k = emit_kind(ctx, ev)
            if k == 'on_node_start':
                sym_of[ev.id] = 'S'
            elif k == 'on_node_complete':
                c = ev.node
                err = next((kw.value for kw in c.keywords if kw.arg == 'error'), c.args[1] if len(c.args) > 1 else None)
                sym_of[ev.id] = 'C0' if (isinstance(err, ast.Constant) and err.value is None) else 'Ce'
            else:
                role = ctx.roles.body(ev)
                if role in ('process', 'executor'):
                    sym_of[ev.id] = 'B'
                elif role == 'default':
                    sym_of[ev.id] = 'D'
                elif role == 'ctor':
                    sym_of[ev.id] = 'K'
        for p_ in pubs:
            sym_of[p_] = 'P'
        from .rt import _retry_loop
        ru, _rg, rhead = _retry_loop(ctx)
        for ev in g.events('loophead') + g.events('loop'):
            if ev.inst.unit is ru and ev.node is rhead.node:
                sym_of[ev.id] = 'A'          # a new attempt begins
        if 'S' not in sym_of.values():
            continue
        n += 1
        # the property speaks of event managers that do not raise; a configured artifact store may well raise (write-once)
        collab = _collab_sources(ctx, g, kinds=('event',))
        # DFA (see DESIGN 4, C14).  q1: started; qk: constructing; q2: body/default invoked; q2d: default after body;
        # q3: attempt completed with error; q4: completed ok; q5: published
        delta = {
            ('q0', 'S'): 'q1', ('q0', 'P'): 'q5',
            ('q1', 'A'): 'qa',
            # the execution fails before its first attempt (the configured retry policy cannot be instantiated): reported once
            ('q1', 'Ce'): 'q3',
            # a forced default is produced without entering the attempt loop
            ('q1', 'K'): 'qf', ('q1', 'D'): 'q2', ('qf', 'K'): 'qf', ('qf', 'D'): 'q2', ('qf', 'Ce'): 'q3',
            ('qa', 'K'): 'qk', ('qa', 'B'): 'q2', ('qa', 'D'): 'q2', ('qa', 'Ce'): 'q3',
            ('qk', 'K'): 'qk', ('qk', 'B'): 'q2', ('qk', 'D'): 'q2', ('qk', 'Ce'): 'q3',
            ('q2', 'K'): 'q2', ('q2', 'D'): 'q2d', ('q2', 'Ce'): 'q3', ('q2', 'C0'): 'q4', ('q2', 'B'): 'q2',
            ('q2d', 'C0'): 'q4', ('q2d', 'Ce'): 'q3', ('q2d', 'K'): 'q2d',
            ('q3', 'A'): 'qa', ('q3', 'P'): 'q5',
            ('q4', 'P'): 'q5',
        }
        accept_exit = {'q0', 'q5', 'q3'}
        s = Search(ctx.p, g, EXC_LABELS)

        def estep(prev, lab, e, state, facts):
            if prev is not None and lab == 'exc' and prev.id in collab:
                return None
            sy = sym_of.get(e.id)
            if sy is None:
                return state
            if sy == 'B' and state == 'q2' and prev is not None:
                # the three dispatch leaves of one invocation are alternatives, not a second invocation
                pass
            nq = delta.get((state, sy))
            if nq is None:
                return f'BAD:{sy} in {state}'
            return nq

        def goal(e, state, facts):
            if isinstance(state, str) and state.startswith('BAD'):
                return True
            if e.id == g.exit and state not in accept_exit:
                return True
            return False

        res = s.run([(g.entry, 'q0', frozenset())], None, goal, edge_step=estep)
        if res is None:
            # cancellation: once a cancellation propagates, no further lifecycle event is emitted and nothing is published
            from ..paths import ALL_LABELS
            s2 = Search(ctx.p, g, ALL_LABELS)

            def estep2(prev, lab, e, state, facts):
                if prev is not None and lab == 'exc' and prev.id in collab:
                    return None
                if state == 'qx':
                    if sym_of.get(e.id) in ('S', 'B', 'D', 'C0', 'Ce', 'P'):
                        return f'BAD:{sym_of[e.id]} after the execution was cancelled'
                    return 'qx'
                if lab == 'cancel':
                    return 'qx'
                return state if not str(state).startswith('BAD') else state

            res = s2.run([(g.entry, 'q', frozenset())], None, lambda e, st, f: isinstance(st, str) and st.startswith('BAD'), edge_step=estep2)
        cons = f'{g.root.module.name}::{g.root.qualname}::S ((B|D) Ce)* (B|D) D? (C0 P | Ce P?)'
        if res is None:
            out.ok('EV-2', cons, g.evs[g.entry].where(), 'every path spells a word of the node-event language', alphabet=sorted(set(sym_of.values())))
        else:
            st = res[1]
            why = st[4:] if str(st).startswith('BAD') else f'the task ends in state {st}'
            out.bad('EV-2', cons, g.evs[g.entry].where(),
                    f'a path of task root {g.root.qualname} leaves the node-event language (start, one complete per attempt, '
                    f'complete(error=None) iff a value, publish after the final complete): {why}', path_text(g, res[0]))
    if n == 0:
        raise AnalysisError('no task root emits node events (EV-2 anchors vanished)')


def _pub_of_executed(ctx: Ctx, g: Graph, pb) -> bool:
    from .wk import _value_from_body
    return _value_from_body(ctx, pb)


def rule_emit_all(ctx: Ctx, out: Collector) -> None:
    """EV-3: the dispatcher awaits the callback of every registered manager, in list order: on the graph of the
    dispatcher every way around the manager loop passes the awaited call of the looked-up callback unless the
    path has established that the manager has no such callback; nothing leaves the loop early."""
    from ..guards import decompose
    from .common import loop_region
    n = 0
    for unit in ctx.p.functions.values():
        if unit.cls is None or not unit.is_async:
            continue
        env = FuncEnv.of(ctx.p, unit)
        loops = [x for x in env.own_nodes() if isinstance(x, ast.For)]
        for lp in loops:
            # the look-up of the manager's hook: getattr(<manager>, <event>, ...) itself, or a helper called with the
            # loop's manager variable, in a loop over the registered event managers
            tnames = {x.id for x in ast.walk(lp.target) if isinstance(x, ast.Name)}
            getattrs = [x for x in ast.walk(lp) if isinstance(x, ast.Call) and isinstance(x.func, ast.Name) and x.func.id == 'getattr']
            if not getattrs and 'event_manager' in unparse(lp.iter).lower():
                getattrs = [a.value for a in ast.walk(lp) if isinstance(a, ast.Assign) and isinstance(a.value, ast.Call)
                            and any(isinstance(x, ast.Name) and x.id in tnames for arg in a.value.args for x in ast.walk(arg))]
            if not getattrs:
                continue
            n += 1
            cons = f'{unit.module.name}::{unit.qualname}::for {unparse(lp.target)} in {unparse(lp.iter)}: await callback'
            problems = []
            it = unparse(lp.iter)
            if any(w in it for w in ('sorted(', 'reversed(', 'set(', '[:', '[1:', '[-')):
                problems.append(f'iterates {it}, not the registered list in order')
            g = ctx.graph(unit.fid)
            heads = [ev for ev in g.events('loop') if ev.node is lp and ev.inst.parent is None]
            if not heads:
                raise AnalysisError(f'{unit.fid}: dispatcher loop not in the graph')
            head = heads[0]
            region = loop_region(g, head, labels=EXC_LABELS)
            # the callback variable(s): names assigned from getattr(<manager>, <event>, ...)
            cbs = {t.id for a in ast.walk(lp) if isinstance(a, ast.Assign) and any(a.value is ga for ga in getattrs)
                   for t in a.targets if isinstance(t, ast.Name)}
            delivered = set()
            for m in region:
                ev = g.evs[m]
                if ev.kind == 'await' and ev.info.get('call') is not None:
                    c = g.evs[ev.info['call']].node
                    if isinstance(c, ast.Call) and (isinstance(c.func, ast.Name) and c.func.id in cbs or any(c.func is ga for ga in getattrs)):
                        delivered.add(m)
            if not delivered:
                problems.append('the callback is not awaited')
            for m in region:
                ev = g.evs[m]
                if ev.kind in ('break', 'return') and ev.inst is head.inst:
                    problems.append('leaves the loop early')

            def no_callback(test, pol) -> bool:
                parts = []
                decompose(test, pol, parts)
                for e, p_ in parts:
                    if isinstance(e, ast.Name) and e.id in cbs and not p_:
                        return True
                    if isinstance(e, ast.Compare) and len(e.ops) == 1 and isinstance(e.ops[0], ast.Is) and isinstance(e.left, ast.Name) \
                            and e.left.id in cbs and isinstance(e.comparators[0], ast.Constant) and e.comparators[0].value is None and p_:
                        return True
                    if isinstance(e, ast.Call) and isinstance(e.func, ast.Name) and e.func.id == 'callable' and e.args \
                            and isinstance(e.args[0], ast.Name) and e.args[0].id in cbs and not p_:
                        return True
                return False

            s = Search(ctx.p, g, NORMAL_LABELS)

            def estep(prev, lab, e, state, facts):
                if prev is not None and prev.kind == 'branch' and lab in ('T', 'F') and prev.info.get('test') is not None \
                        and no_callback(prev.info['test'], lab == 'T'):
                    return 1
                if e.id in delivered:
                    return 1
                return state
            tsucc = [(m, 0, frozenset()) for m, lab in g.succ[head.id] if lab == 'T']
            res = s.run(tsucc, None, lambda e, st, f: e.id == head.id and st == 0, edge_step=estep)
            if res is not None and delivered:
                skip = [g.evs[i] for i in res[0] if g.evs[i].kind == 'branch']
                why = f'filters managers by {skip[-1].text(60)}' if skip else 'skips managers'
                problems.append(why)
            if not problems:
                out.ok('EV-3', cons, ctx.p.loc(unit, lp), 'every manager\'s callback is awaited, in list order')
            else:
                out.bad('EV-3', cons, ctx.p.loc(unit, lp), 'the event dispatcher does not deliver the event to every manager in order: '
                        + '; '.join(sorted(set(problems))))
    if n == 0:
        raise AnalysisError('event dispatcher loop not found (EV-3 anchor vanished)')
