"""EV-* (C14): lifecycle events form a well-formed history.  Decided by path-language inclusion: the
event CFG, projected onto a small alphabet, is explored together with a hand-written DFA of the
allowed words; loops need no unrolling (the product is finite)."""
from __future__ import annotations

import ast
from typing import Dict, List, Optional, Set, Tuple

from .. import sym
from ..cfg import Ev, Graph, reach
from ..engine import CHART_RUN, Ctx
from ..paths import EXC_LABELS, NORMAL_LABELS, Search
from ..program import AnalysisError, FuncEnv, FuncUnit, dotted, unparse
from ..report import Collector
from .common import path_text, publishes


def emit_kind(ctx: Ctx, ev: Ev) -> Optional[str]:
    """'on_node_start' ... for a call of an emit function (a function whose body calls the dispatcher
    with that constant event name)."""
    if ev.kind != 'call':
        return None
    for t in ev.info.get('targets', ()):
        if t[0] == 'func':
            unit = t[1]
            for n in ast.walk(unit.node):
                if isinstance(n, ast.Call) and n.args and isinstance(n.func, ast.Attribute) and n.func.attr.startswith('_emit'):
                    name = _const_str(ctx, unit, n.args[0])
                    if name is not None and name.startswith('on_'):
                        return name
    return None


def _const_str(ctx: Ctx, unit, expr: ast.AST) -> Optional[str]:
    """The string an expression denotes: a literal, or a module-level constant (in this or an imported module)."""
    if isinstance(expr, ast.Constant):
        return expr.value if isinstance(expr.value, str) else None
    if isinstance(expr, (ast.Name, ast.Attribute)):
        from ..absint import Interp, Oracle
        try:
            v = Interp(ctx.p, Oracle()).eval(expr, {'__module__': unit.module, '__unit__': None, '__closure__': None})
        except Exception:
            return None
        return v if isinstance(v, str) else None
    return None


def _collab_sources(ctx: Ctx, g: Graph, kinds=('event', 'store')) -> Set[int]:
    """Events whose exception edge is a fault of a user-supplied collaborator of the given kinds."""
    out = set()
    for ev in g.evs:
        src = ev
        if ev.kind == 'await' and ev.info.get('call') is not None:
            src = g.evs[ev.info['call']]
        if src.kind == 'call' and ctx.roles.collab(src) in kinds:
            out.add(ev.id)
    return out


def rule_pipeline_events(ctx: Ctx, out: Collector) -> None:
    """EV-1: PipelineChart.run emits pipeline_start, runs the entrypoint, emits pipeline_complete with the
    object it then returns - in that order, each exactly once (event managers do not raise).  Decided by interpreting
    run(), the context and the event mixin over chart worlds (cw.py)."""
    from .cw import rule_chart_worlds_events
    rule_chart_worlds_events(ctx, out)


def rule_node_events(ctx: Ctx, out: Collector) -> None:
    """EV-2: per node execution: one start, one complete per attempt, complete(error=None) iff a value is
    returned, the publish never precedes the final complete."""
    mgr = ctx.manager_class()
    n = 0
    for fid, g in ctx.run_graphs().items():
        pubs = {pb.ev.id for pb in publishes(ctx, g, ['node_results']) if _pub_of_executed(ctx, g, pb)}
        sym_of: Dict[int, str] = {}
        for ev in g.events('call'):
            k = emit_kind(ctx, ev)
            if k == 'on_node_start':
                sym_of[ev.id] = 'S'
            elif k == 'on_node_complete':
                c = ev.node
                err = next((kw.value for kw in c.keywords if kw.arg == 'error'), c.args[1] if len(c.args) > 1 else None)
                sym_of[ev.id] = 'C0' if (isinstance(err, ast.Constant) and err.value is None) else 'Ce'
            else:
                role = ctx.roles.body(ev)
                if role in ('process', 'executor'):
                    sym_of[ev.id] = 'B'
                elif role == 'default':
                    sym_of[ev.id] = 'D'
                elif role == 'ctor':
                    sym_of[ev.id] = 'K'
        for p_ in pubs:
            sym_of[p_] = 'P'
        from .rt import _retry_loop
        ru, _rg, rhead = _retry_loop(ctx)
        for ev in g.events('loophead') + g.events('loop'):
            if ev.inst.unit is ru and ev.node is rhead.node:
                sym_of[ev.id] = 'A'          # a new attempt begins
        if 'S' not in sym_of.values():
            continue
        n += 1
        # the property speaks of event managers that do not raise; a configured artifact store may well raise (write-once)
        collab = _collab_sources(ctx, g, kinds=('event',))
        # DFA (see DESIGN 4, C14).  q1: started; qk: constructing; q2: body/default invoked; q2d: default after body;
        # q3: attempt completed with error; q4: completed ok; q5: published
        delta = {
            ('q0', 'S'): 'q1', ('q0', 'P'): 'q5',
            ('q1', 'A'): 'qa',
            # the execution fails before its first attempt (the configured retry policy cannot be instantiated): reported once
            ('q1', 'Ce'): 'q3',
            # a forced default is produced without entering the attempt loop
            ('q1', 'K'): 'qf', ('q1', 'D'): 'q2', ('qf', 'K'): 'qf', ('qf', 'D'): 'q2', ('qf', 'Ce'): 'q3',
            ('qa', 'K'): 'qk', ('qa', 'B'): 'q2', ('qa', 'D'): 'q2', ('qa', 'Ce'): 'q3',
            ('qk', 'K'): 'qk', ('qk', 'B'): 'q2', ('qk', 'D'): 'q2', ('qk', 'Ce'): 'q3',
            ('q2', 'K'): 'q2', ('q2', 'D'): 'q2d', ('q2', 'Ce'): 'q3', ('q2', 'C0'): 'q4', ('q2', 'B'): 'q2',
            ('q2d', 'C0'): 'q4', ('q2d', 'Ce'): 'q3', ('q2d', 'K'): 'q2d',
            ('q3', 'A'): 'qa', ('q3', 'P'): 'q5',
            ('q4', 'P'): 'q5',
        }
        accept_exit = {'q0', 'q5', 'q3'}
        s = Search(ctx.p, g, EXC_LABELS)

        def estep(prev, lab, e, state, facts):
            if prev is not None and lab == 'exc' and prev.id in collab:
                return None
            sy = sym_of.get(e.id)
            if sy is None:
                return state
            if sy == 'B' and state == 'q2' and prev is not None:
                # the three dispatch leaves of one invocation are alternatives, not a second invocation
                pass
            nq = delta.get((state, sy))
            if nq is None:
                return f'BAD:{sy} in {state}'
            return nq

        def goal(e, state, facts):
            if isinstance(state, str) and state.startswith('BAD'):
                return True
            if e.id == g.exit and state not in accept_exit:
                return True
            return False

        res = s.run([(g.entry, 'q0', frozenset())], None, goal, edge_step=estep)
        if res is None:
            # cancellation: once a cancellation propagates, no further lifecycle event is emitted and nothing is published
            from ..paths import ALL_LABELS
            s2 = Search(ctx.p, g, ALL_LABELS)

            def estep2(prev, lab, e, state, facts):
                if prev is not None and lab == 'exc' and prev.id in collab:
                    return None
                if state == 'qx':
                    if sym_of.get(e.id) in ('S', 'B', 'D', 'C0', 'Ce', 'P'):
                        return f'BAD:{sym_of[e.id]} after the execution was cancelled'
                    return 'qx'
                if lab == 'cancel':
                    return 'qx'
                return state if not str(state).startswith('BAD') else state

            res = s2.run([(g.entry, 'q', frozenset())], None, lambda e, st, f: isinstance(st, str) and st.startswith('BAD'), edge_step=estep2)
        cons = f'{g.root.module.name}::{g.root.qualname}::S ((B|D) Ce)* (B|D) D? (C0 P | Ce P?)'
        if res is None:
            out.ok('EV-2', cons, g.evs[g.entry].where(), 'every path spells a word of the node-event language', alphabet=sorted(set(sym_of.values())))
        else:
            st = res[1]
            why = st[4:] if str(st).startswith('BAD') else f'the task ends in state {st}'
            out.bad('EV-2', cons, g.evs[g.entry].where(),
                    f'a path of task root {g.root.qualname} leaves the node-event language (start, one complete per attempt, '
                    f'complete(error=None) iff a value, publish after the final complete): {why}', path_text(g, res[0]))
    if n == 0:
        raise AnalysisError('no task root emits node events (EV-2 anchors vanished)')


def _pub_of_executed(ctx: Ctx, g: Graph, pb) -> bool:
    from .wk import _value_from_body
    return _value_from_body(ctx, pb)


def rule_emit_all(ctx: Ctx, out: Collector) -> None:
    """EV-3: the dispatcher awaits the callback of every registered manager that has one, in list order, with the context and
    the payload.  Decided by interpreting the context class and the event mixin over a four-manager world (cw.py)."""
    from .cw import rule_dispatch_worlds
    rule_dispatch_worlds(ctx, out)
