"""Rules added for the defects that independent bug-hunting agents reproduced on the unmodified tree (DESIGN 9.8).
Each states a structural necessary condition of a property that the current tree violates at one named construct; the
construct is listed in known_findings.json, so the finding is reported as KNOWN-FINDING while any other construct
violating the same rule is a new VIOLATION.

ON-5  a node execution that is cancelled after its processed-mark un-marks the node (or publishes an outcome)
RD-8  outside a one-of dag a stored failure is never handed on as a value (second requester of a processed node)
RD-7  no engine-owned keyword parameter can collide with a declared parameter name of a node
RC-9  every exit of the recurrent driver publishes an outcome for the destination or raises
EV-5  every on_node_start is followed by an on_node_complete, also when the execution is cancelled
EV-6  one event manager's failure does not change what the other managers observe
ER-7  a task that ended cancelled without the engine having cancelled it is not ignored by the error scan
OO-9  engine errors raised inside a scope that may belong to a one-of candidate are contained like node failures
ST-3  a failure is not recognised by the type of the stored value (a node may return an exception instance)
EX-6  an exception class that cannot be set on a Future (StopIteration) cannot escape an executor-run body
LK-8  the retry loop starts no new attempt once the task has been asked to cancel
CC-8  the launch order of a dag is consistent with the dependencies its readiness predicates wait for
"""
from __future__ import annotations

import ast
from typing import Dict, List, Optional, Set, Tuple

from .. import sym
from ..cfg import Ev, Graph, find_path, reach
from ..engine import CHART_RUN, Ctx, resolve_all
from ..guards import decompose, guards, text
from ..paths import ALL_LABELS, EXC_LABELS, NORMAL_LABELS, Search
from ..program import AnalysisError, FuncEnv, FuncUnit, dotted, unparse
from ..report import Collector
from ..roles import store_field
from .common import hidden_marker_fields, in_loop_body, loop_region, path_text, publishes
from .on import _marks


def _root_name(g: Graph) -> str:
    return g.root.qualname


def implies(t, pol: bool, atom) -> bool:
    """The outcome `pol` of a test with term `t` holds only if the atomic condition `atom(term)` is true."""
    if not isinstance(t, tuple) or not t:
        return False
    if t[0] == 'not':
        return implies(t[1], not pol, atom)
    if t[0] in ('and', 'or'):
        every = (t[0] == 'or') == pol
        vals = [implies(x, pol, atom) for x in t[1]]
        return all(vals) if every else any(vals)
    if t[0] == 'call' and t[1] == 'ext:builtins.bool' and t[2]:
        return implies(t[2][0], pol, atom)
    return bool(pol and atom(t))


# ---------------------------------------------------------------------------------------------
# ON-5
# ---------------------------------------------------------------------------------------------

def rule_cancelled_execution(ctx: Ctx, out: Collector) -> None:
    """ON-5: a task that marked a node as processed and is then cancelled (another scope's error exit cancels every task it
    created, the end of the run cancels all) must not leave the node "processed without a result": every later requester
    skips it (node order) or reads a missing result.  On every path from the processed-mark that leaves through a
    cancellation edge, the task un-marks the node or publishes an outcome for it before it ends."""
    n = 0
    for fid, g in ctx.run_graphs().items():
        marks = _marks(ctx, g)
        if not marks:
            continue
        pubs = publishes(ctx, g, ['node_results'])
        for mark in marks:
            K = mark.key
            barrier = {pb.ev.id for pb in pubs if pb.key == K}
            for ev in g.events('call'):
                c = ev.node
                if isinstance(c, ast.Call) and isinstance(c.func, ast.Attribute) and c.func.attr in ('delete', 'pop', 'discard', 'remove') \
                        and c.args:
                    recv = sym.term(ctx.p, c.func.value, ev.inst)
                    if store_field(recv) == 'processed_nodes' or (isinstance(recv, tuple) and recv[0] == 'attr' and recv[2] in ({'data'} | hidden_marker_fields(ctx))
                                                                  and store_field(recv[1]) == 'processed_nodes'):
                        if sym.term(ctx.p, c.args[0], ev.inst) == K:
                            barrier.add(ev.id)
            n += 1
            goals = {g.exit, g.rexit['cancel'], g.rexit['exc']}
            s = Search(ctx.p, g, ALL_LABELS)

            def estep(prev, lab, e, state, facts, barrier=barrier):
                if e.id in barrier:
                    return None
                if state == 0 and lab == 'exc':
                    return None             # the execution failed on its own: not the cancellation of a healthy execution
                if lab == 'cancel':
                    return 1
                return state

            res = s.run([(mark.ev.id, 0, frozenset())], None, lambda e, st, f: st == 1 and e.id in goals, edge_step=estep)
            cons = ctx.construct(g.root, mark.site.node) + ' in task root ' + _root_name(g) + ' [cancelled execution keeps the processed mark]'
            if res is None:
                out.ok('ON-5', cons, mark.site.where(), 'a cancelled execution un-marks the node or publishes an outcome before the task ends')
            else:
                out.bad('ON-5', cons, mark.site.where(),
                        f'{sym.show(K)} stays marked as processed, without a result, when the task that executes it is cancelled (the error '
                        f'exit of another scope\'s launch loop cancels every task it created, including nodes other scopes share): later '
                        f'scopes drop the node from their order and wait for it forever, or a waiting second requester reads a missing result '
                        f'and publishes None', path_text(g, res[0]), props={'C02', 'C03', 'C04', 'C10'})
    if n == 0:
        raise AnalysisError('no processed-mark found (ON-5 anchor vanished)')


# ---------------------------------------------------------------------------------------------
# RD-8
# ---------------------------------------------------------------------------------------------

def rule_stored_failure_not_a_value(ctx: Ctx, out: Collector) -> None:
    """RD-8: a failure becomes a stored value only for one-of scopes (ER-6).  The store is shared by all scopes of the run,
    so a requester that is not a one-of scope and finds the node already processed must not hand the stored object on
    as the node's value: the return of a stored result is dominated by an error test of that result (re-raise) unless the
    requesting dag is a one-of dag."""
    errp = {u.fid for u in ctx.error_predicates()}
    n = 0
    seen = set()

    def mark_key(a):
        """the key whose processed-mark the atom reads (a call on the store, or the membership the store's predicate is made of)"""
        if isinstance(a, tuple) and a and a[0] == 'call' and len(a) > 2 and len(a[2]) > 1 and store_field(a[2][0]) == 'processed_nodes':
            return a[2][1]
        if isinstance(a, tuple) and a and a[0] == 'cmp' and a[1] == 'In' and len(a) > 3 and isinstance(a[3], tuple) and a[3] \
                and a[3][0] == 'attr' and (a[3][2] == 'processed_nodes' or (a[3][2] == 'data' and store_field(a[3][1]) == 'processed_nodes')):
            return a[2]
        return None

    for fid, g in ctx.run_graphs().items():
        if not any(isinstance(x, ast.Attribute) and x.attr == 'is_oneof' for u in {e.inst.unit for e in g.events('entry')}
                   if u.cls is ctx.manager_class() for x in ast.walk(u.node)):
            continue
        for r in g.events('return'):
            v = r.info.get('value')
            if v is None or r.inst.unit.cls is not ctx.manager_class() or not r.inst.unit.is_async:
                continue
            t = sym.term(ctx.p, v, r.inst)
            # a direct read of node_results[K] handed back to the caller
            if not (isinstance(t, tuple) and t and t[0] == 'call' and len(t) > 2 and t[2] and store_field(t[2][0]) == 'node_results'):
                continue
            cons = ctx.construct(r) + ' [stored result handed on to a second requester]'
            if cons in seen:
                continue
            Kret = t[2][1] if len(t[2]) > 1 else None
            s = Search(ctx.p, g, EXC_LABELS)

            def estep(prev, lab, e, state, facts):
                # state 0: nothing known; 1: the path established that the node was already processed (second requester);
                # 2: ... and the stored result was tested for being a failure / the scope is known to be a one-of scope
                if prev is not None and prev.kind == 'branch' and prev.info.get('test') is not None and lab in ('T', 'F'):
                    tt = sym.term(ctx.p, prev.info['test'], prev.inst)
                    if state == 0 and implies(tt, lab == 'T', lambda a, Kret=Kret: mark_key(a) is not None and mark_key(a) == Kret):
                        return 1
                    if state >= 1:
                        txt = sym.show(tt)
                        if any(isinstance(s_, tuple) and s_ and s_[0] == 'call' and s_[1] in errp for s_ in sym.subterms(tt)) \
                                or 'BaseException' in txt or 'is_oneof' in txt:
                            return 2
                return state

            res = s.run([(g.entry, 0, frozenset())], None, lambda e, st, f, r=r: e.id == r.id and st == 1, edge_step=estep)
            reach_any = s.explored
            # is this return on a second-requester path at all?
            s2 = Search(ctx.p, g, EXC_LABELS)
            on_second = s2.run([(g.entry, 0, frozenset())], None, lambda e, st, f, r=r: e.id == r.id and st >= 1, edge_step=estep)
            if on_second is None:
                continue
            seen.add(cons)
            n += 1
            if res is None:
                out.ok('RD-8', cons, r.where(), 'the stored result is tested for being a failure (or the scope is a one-of scope) before it is returned')
            else:
                out.bad('RD-8', cons, r.where(),
                        'a requester that finds the node already processed returns whatever is stored as the node\'s value: when a one-of '
                        'scope executed the node first and its failure was stored as a value, a plain consumer outside the one-of is '
                        'invoked with the exception object as an argument and the run reports success (the outcome depends on which scope '
                        'reaches the node first)', path_text(g, res[0]), props={'C03', 'C05', 'C10'})
    if n == 0:
        raise AnalysisError('no second-requester return of a stored result found (RD-8 anchor vanished)')


# ---------------------------------------------------------------------------------------------
# RD-7
# ---------------------------------------------------------------------------------------------

def rule_reserved_parameter_names(ctx: Ctx, out: Collector) -> None:
    """RD-7: the node's keyword arguments (one per declared parameter, names chosen by the user) are splatted into engine
    functions; a callee that also has named parameters of its own collides with a node parameter of the same name
    (TypeError: multiple values) unless the builder rejects such names."""
    mgr = ctx.manager_class()
    from .st import rule_kwargs_semantics  # noqa: F401  (same discovery of the argument builder)
    builder_src = ''
    for m in ctx.p.modules.values():
        if m.name.endswith('dag_builders.annotation.builder'):
            builder_src = m.source
    units = list(mgr.methods.values()) + [u for u in ctx.p.functions.values() if u.module.name.endswith('node.node') and u.parent is None]
    # functions whose **kwargs parameter carries the node's arguments: they are called with **<argument builder result>
    carriers: Set[str] = set()
    from .st import argument_builder
    arg_builder = argument_builder(ctx)
    sites: List[Tuple[FuncUnit, ast.Call, FuncUnit, List[str]]] = []
    work = True
    rounds = 0
    while work and rounds < 4:
        work = False
        rounds += 1
        for u in units:
            env = FuncEnv.of(ctx.p, u)
            kwparam = u.node.args.kwarg.arg if not isinstance(u.node, ast.Lambda) and u.node.args.kwarg else None
            for c in env.own_nodes():
                if not isinstance(c, ast.Call):
                    continue
                splats = [k.value for k in c.keywords if k.arg is None]
                carries = False
                for sp in splats:
                    if isinstance(sp, ast.Name) and sp.id == kwparam and u.fid in carriers:
                        carries = True
                    if isinstance(sp, ast.Call) and any(t[0] == 'func' and t[1] is arg_builder for t in env.resolve_call(sp)):
                        carries = True
                    if isinstance(sp, ast.Name):
                        for d in env.local_defs().get(sp.id, []):
                            if d[0] == 'assign' and isinstance(d[1], ast.Call) and any(t[0] == 'func' and t[1] is arg_builder for t in env.resolve_call(d[1])):
                                carries = True
                if not carries:
                    continue
                for t in env.resolve_call(c):
                    if t[0] != 'func':
                        continue
                    callee = t[1]
                    a = callee.node.args
                    own = [x.arg for x in a.args] + [x.arg for x in a.kwonlyargs]
                    if callee.cls is not None and own and not callee.is_static:
                        own = own[1:]
                    if a.kwarg is not None and callee.fid not in carriers:
                        carriers.add(callee.fid)
                        work = True
                    if own and not any(s_[1] is c for s_ in sites):
                        sites.append((u, c, callee, own))
    if not sites:
        raise AnalysisError('no call that splats the node arguments found (RD-7 anchor vanished)')
    seen = set()
    for u, c, callee, own in sites:
        cons = f'{u.module.name}::{u.qualname}::{callee.name}(**<node arguments>) [engine keyword parameters vs declared parameter names]'
        if cons in seen:
            continue
        seen.add(cons)
        rejected = [nm for nm in own if f"'{nm}'" in builder_src or f'"{nm}"' in builder_src]
        clash = [nm for nm in own if nm not in rejected]
        if not clash:
            out.ok('RD-7', cons, ctx.p.loc(u, c), f'the builder rejects the parameter names {own}')
        else:
            out.bad('RD-7', cons, ctx.p.loc(u, c),
                    f'{callee.qualname} has its own keyword parameters {clash} and receives the node\'s arguments by ** : a node (or the '
                    f'caller\'s input_kwargs) with a parameter of that name is never invoked - the call raises TypeError "multiple values", '
                    f'which is even retried as if the body had failed; nothing rejects such names at build time',
                    # a capture below the mode dispatch of run_node hits some execution modes only: the outcome depends on the mode
                    props={'C03', 'C17'} if u.fid.endswith('::run_node') or (u.module.name.endswith('node.node') and u.name != 'run_node'
                                                                            and u.name.startswith('_')) else {'C03'})


# ---------------------------------------------------------------------------------------------
# RC-9
# ---------------------------------------------------------------------------------------------

def rule_recurrent_error_exit(ctx: Ctx, out: Collector) -> None:
    """RC-9: when a re-iteration of a recurrent subgraph fails, the driver must still give the destination an outcome its
    consumers / owners can see (publish an error for it and notify, or raise): every exit of the driver taken because the
    sub-dag has an error passes a publish of node_results[dest] or a raise."""
    herr = {u.fid for u in ctx.has_error_functions()}
    from .oo import _iteration_loops
    n = 0
    seen = set()
    for fid, g in ctx.run_graphs().items():
        for lp in _iteration_loops(ctx, g):
            unit = lp.inst.unit
            base = f'{unit.module.name}::{unit.qualname}'
            if base in seen:
                continue
            seen.add(base)
            region = loop_region(g, lp, labels=EXC_LABELS)
            ends = {g.exit} if lp.inst.parent is None else {ev.id for ev in g.events('ret') if ev.info.get('callee') is lp.inst}
            pubs = {pb.ev.id for pb in publishes(ctx, g, ['node_results'])}
            raises = {ev.id for ev in g.events('raise')}
            for b in g.events('branch'):
                if b.id not in region or b.inst is not lp.inst or b.info.get('test') is None:
                    continue
                tt = sym.term(ctx.p, b.info['test'], b.inst)
                if not implies(tt, True, lambda a: isinstance(a, tuple) and a and a[0] == 'call' and a[1] in herr):
                    continue
                n += 1
                tsucc = [m for m, lab in g.succ[b.id] if lab == 'T']
                s = Search(ctx.p, g, NORMAL_LABELS)

                def step(e, st, f):
                    if e.id in pubs or e.id in raises or e.id == lp.id:
                        return None
                    return 0
                res = s.run([(m, 0, frozenset()) for m in tsucc], step, lambda e, st, f: e.id in ends)
                cons = base + '::error exit of a re-iteration gives the destination an outcome'
                if res is None:
                    out.ok('RC-9', cons, b.where(), 'the error exit publishes an outcome for the destination or raises')
                else:
                    out.bad('RC-9', cons, b.where(),
                            'when a re-iteration of the subgraph fails the driver just returns: the destination keeps its hidden Recurrent '
                            'marker, nothing is published or notified for it, so its consumers - and a one-of owner more than one hop away - '
                            'wait forever (the error is seen only by accident when the failing node is the direct predecessor)',
                            path_text(g, res[0]), props={'C02', 'C10', 'C11'})
    if n == 0:
        # the iterations are not a range loop with an error test in its body: decided over the recurrent worlds
        from .rcw import error_exit_worlds
        try:
            driver, problems, table = error_exit_worlds(ctx)
        except AnalysisError as ex:
            raise AnalysisError(f'no error test inside a re-iteration loop found, and {ex} (RC-9 anchor vanished)')
        cons = f'{driver.module.name}::{driver.qualname}::error exit of a re-iteration gives the destination an outcome'
        if not problems:
            out.ok('RC-9', cons, ctx.p.loc(driver, driver.node), 'after a failing re-iteration the destination has a visible outcome, or the driver raises', table=table)
        else:
            out.bad('RC-9', cons, ctx.p.loc(driver, driver.node),
                    'when a re-iteration of the subgraph fails the driver just returns: the destination keeps its hidden Recurrent '
                    'marker, nothing is published or notified for it, so its consumers - and a one-of owner more than one hop away - '
                    'wait forever (the error is seen only by accident when the failing node is the direct predecessor): ' + '; '.join(problems),
                    table=table, props={'C02', 'C10', 'C11'})


# ---------------------------------------------------------------------------------------------
# EV-5 / EV-6
# ---------------------------------------------------------------------------------------------

def rule_cancelled_node_events(ctx: Ctx, out: Collector) -> None:
    """EV-5: every on_node_start is followed by an on_node_complete for that attempt on every way out of the task,
    including the cancellation of the task (a slow sibling of a failing node, a node of a rejected one-of candidate):
    a path from the start event that leaves through a cancellation edge reaches the end of the task without a
    complete event."""
    from .ev import emit_kind
    n = 0
    for fid, g in ctx.run_graphs().items():
        starts = [ev for ev in g.events('call') if emit_kind(ctx, ev) == 'on_node_start']
        completes = {ev.id for ev in g.events('call') if emit_kind(ctx, ev) == 'on_node_complete'}
        if not starts:
            continue
        goals = {g.exit, g.rexit['cancel'], g.rexit['exc']}
        for st in starts:
            n += 1
            s = Search(ctx.p, g, ALL_LABELS)

            def estep(prev, lab, e, state, facts):
                if e.id in completes:
                    return None
                if lab == 'cancel':
                    return 1
                return state
            res = s.run([(st.id, 0, frozenset())], None, lambda e, st_, f: st_ == 1 and e.id in goals, edge_step=estep)
            cons = ctx.construct(st) + ' in task root ' + _root_name(g) + ' [a cancelled execution still completes its node event]'
            if res is None:
                out.ok('EV-5', cons, st.where(), 'on_node_complete is emitted on the cancellation paths too')
            else:
                out.bad('EV-5', cons, st.where(),
                        'a node execution that is cancelled (the run ends because a sibling failed, or its one-of candidate is rejected) has '
                        'emitted on_node_start but never emits on_node_complete, and on_pipeline_complete is emitted while that node is '
                        'still open: the history the event managers observe is not well formed', path_text(g, res[0]), props={'C14'})
    if n == 0:
        raise AnalysisError('no on_node_start emission found (EV-5 anchor vanished)')


def rule_managers_isolated(ctx: Ctx, out: Collector) -> None:
    """EV-6: a raising event manager must not change what the other (well-behaved) managers observe: the dispatcher
    awaits each manager's callback inside a handler for Exception, so that the remaining managers still get the event
    and the emitting code does not take its own error path because of a hook."""
    from .cw import rule_managers_isolated_worlds
    return rule_managers_isolated_worlds(ctx, out)
    from .er import _inside_try_catching          # the loop-shape reading, kept for reference
    n = 0
    for unit in ctx.p.functions.values():
        if unit.cls is None or not unit.is_async or isinstance(unit.node, ast.Lambda):
            continue
        env = FuncEnv.of(ctx.p, unit)
        for lp in [x for x in env.own_nodes() if isinstance(x, ast.For)]:
            if 'event_manager' not in unparse(lp.iter).lower():
                continue
            awaits = [x for x in ast.walk(lp) if isinstance(x, ast.Await)]
            if not awaits:
                continue
            n += 1
            cons = f'{unit.module.name}::{unit.qualname}::a raising event manager does not disturb the other managers'
            isolated = all(_inside_try_catching(lp, a, ('Exception', 'BaseException')) for a in awaits)
            if isolated:
                out.ok('EV-6', cons, ctx.p.loc(unit, lp), 'each callback is awaited inside a handler for Exception within the loop')
            else:
                out.bad('EV-6', cons, ctx.p.loc(unit, lp),
                        'the dispatcher awaits the callbacks of all managers in one unprotected loop: when one manager raises, the '
                        'managers after it miss the event, and the emitting code takes its error path, so a well-behaved manager sees zero or '
                        'two on_pipeline_complete events (neither carrying the object run returns) or a duplicated on_node_complete',
                        props={'C14'})
    if n == 0:
        raise AnalysisError('event dispatcher loop not found (EV-6 anchor vanished)')


# ---------------------------------------------------------------------------------------------
# ER-7
# ---------------------------------------------------------------------------------------------

def rule_foreign_cancellation_reported(ctx: Ctx, out: Collector) -> None:
    """ER-7: the error scan of run() skips cancelled tasks because the engine cancels its own helper tasks (ER-1).  A task
    can also end cancelled because node code raised CancelledError itself (it awaited something that was cancelled); such a
    task is a failed node, and skipping it makes the failure invisible: the scan must tell the engine's own cancellations
    from foreign ones (a record of the tasks it cancelled)."""
    from .er import _first_error_functions
    fes = [u for u in _first_error_functions(ctx)
           if any(isinstance(n, ast.Call) and isinstance(n.func, ast.Attribute) and n.func.attr == 'exception' for n in ast.walk(u.node))]
    if not fes:
        raise AnalysisError('no function reading Task.exception() found (ER-7 anchor vanished)')
    mgr = ctx.manager_class()
    # does the engine record which tasks it cancelled?  (a container that receives the task next to Task.cancel())
    records = False
    for m in mgr.methods.values():
        for loop in [x for x in ast.walk(m.node) if isinstance(x, ast.For)]:
            has_cancel = any(isinstance(c, ast.Call) and isinstance(c.func, ast.Attribute) and c.func.attr == 'cancel' for c in ast.walk(loop))
            has_record = any(isinstance(c, ast.Call) and isinstance(c.func, ast.Attribute) and c.func.attr in ('add', 'append')
                             and isinstance(c.func.value, ast.Attribute) for c in ast.walk(loop))
            if has_cancel and has_record:
                records = True
    for u in fes:
        skips = [n for n in ast.walk(u.node) if isinstance(n, ast.Call) and isinstance(n.func, ast.Attribute) and n.func.attr == 'cancelled']
        cons = f'{u.module.name}::{u.qualname}::a task that ended cancelled without the engine having cancelled it is reported'
        if not skips:
            out.ok('ER-7', cons, ctx.p.loc(u, u.node), 'cancelled tasks are not skipped')
        elif records:
            out.ok('ER-7', cons, ctx.p.loc(u, u.node), 'the engine records the tasks it cancels')
        else:
            out.bad('ER-7', cons, ctx.p.loc(u, skips[0]),
                    'every cancelled task is treated as "no error", whoever cancelled it: a node body that ends with CancelledError of its own '
                    '(it awaited a future someone else cancelled) leaves a cancelled task the scan ignores and no result - run() is notified, '
                    'finds neither an error nor the output, and waits forever', props={'C02', 'C05'})


# ---------------------------------------------------------------------------------------------
# OO-9
# ---------------------------------------------------------------------------------------------

def rule_engine_errors_contained(ctx: Ctx, out: Collector) -> None:
    """OO-9: inside the sub-pipeline of a one-of candidate every failure is contained - also the failures the engine
    raises itself (no branch for a switch label, an exhausted inner one-of, an exhausted recurrent subgraph).  (a) a call of
    the run-failing raise helper in a task root that works on behalf of a dag is guarded by the dag not being (nested in) a
    one-of dag; (b) a sub-dag created inside such a scope inherits both flags (is_oneof and is_nested_oneof)."""
    mgr = ctx.manager_class()
    raisers = []
    for m in mgr.methods.values():
        params = m.params()[1:] if m.params() else []
        if any(isinstance(n, ast.Raise) and isinstance(n.exc, ast.Name) and n.exc.id in params for n in ast.walk(m.node)):
            raisers.append(m)
    if not raisers:
        raise AnalysisError('no run-failing raise helper found (OO-9 anchor vanished)')
    n = 0
    for m in mgr.methods.values():
        if not m.is_async or m in raisers:
            continue
        env = FuncEnv.of(ctx.p, m)
        dag_params = [p_ for p_ in m.params()[1:] if env.name_type(p_)[0] == 'class' and 'Graph' in env.name_type(p_)[1].name]
        if not dag_params:
            continue
        for c in env.own_nodes():
            if isinstance(c, ast.Call) and any(t[0] == 'func' and t[1] in raisers for t in env.resolve_call(c)):
                n += 1
                gs = guards(m.node, c)
                guarded = any(isinstance(e, ast.Attribute) and e.attr in ('is_oneof', 'is_nested_oneof') and not pol for e, pol in gs)
                cons = f'{m.module.name}::{m.qualname}::{text(c)[:60]} [engine error raised to run() only outside one-of scopes]'
                if guarded:
                    out.ok('OO-9', cons, ctx.p.loc(m, c), 'under `not dag.is_oneof / is_nested_oneof`')
                else:
                    out.bad('OO-9', cons, ctx.p.loc(m, c),
                            f'{m.name} fails the whole run with the engine\'s own error whatever scope it works for: inside the sub-pipeline '
                            f'of a one-of candidate the error must be contained like a node failure (the candidate loses, the next one is '
                            f'tried), instead the run ends with it although a later candidate succeeds', props={'C10'})
            # (b) flag propagation
            if isinstance(c, ast.Call):
                kws = {k.arg: k.value for k in c.keywords if k.arg}
                if 'is_oneof' in kws and isinstance(kws['is_oneof'], ast.Attribute) and kws['is_oneof'].attr == 'is_oneof' \
                        and isinstance(kws['is_oneof'].value, ast.Name) and kws['is_oneof'].value.id in dag_params:
                    n += 1
                    cons = f'{m.module.name}::{m.qualname}::{text(c.func)}(..., is_oneof={text(kws["is_oneof"])}) [sub-dag inherits the nested flag]'
                    if 'is_nested_oneof' in kws:
                        out.ok('OO-9', cons, ctx.p.loc(m, c), 'is_nested_oneof is passed on as well')
                    else:
                        out.bad('OO-9', cons, ctx.p.loc(m, c),
                                'the sub-dag is created with the one-of flag of the enclosing dag but without its nested flag: an inner '
                                'one-of (or recurrent subgraph) reached through this sub-dag inside a candidate believes it is at the top '
                                'level and fails the run when all its candidates fail, instead of failing the enclosing candidate',
                                props={'C10'})
    if n == 0:
        raise AnalysisError('no call of the run-failing raise helper found (OO-9 anchor vanished)')


# ---------------------------------------------------------------------------------------------
# ST-3
# ---------------------------------------------------------------------------------------------

def rule_failure_channel(ctx: Ctx, out: Collector) -> None:
    """ST-3: whether a node failed must not be read off the type of its stored value: a node may legitimately return an
    exception instance.  The error predicate of the store tests isinstance(<stored result>, BaseException) on the very
    field that also holds ordinary return values."""
    preds = ctx.error_predicates()
    if not preds:
        raise AnalysisError('error predicate of the storage not found (ST-3 anchor vanished)')
    stored_failures = 0
    for fid, g in ctx.run_graphs().items():
        for pb in publishes(ctx, g, ['node_results']):
            if isinstance(pb.value, tuple) and pb.value and pb.value[0] == 'caught':
                stored_failures += 1
            if isinstance(pb.value, tuple) and pb.value and pb.value[0] == 'new' and 'Error' in pb.value[1]:
                stored_failures += 1
    seen = set()
    for u in preds:
        cons = f'{u.module.name}::{u.qualname}::failures are told from values by something else than the type of the stored object'
        if cons in seen:
            continue
        seen.add(cons)
        src = unparse(u.node)
        type_based = 'BaseException' in src or 'Exception' in src
        if type_based and stored_failures:
            out.bad('ST-3', cons, ctx.p.loc(u, u.node),
                    'a failure is stored in node_results like a value and recognised later by isinstance(result, BaseException): a node that '
                    'returns an exception instance as its value is treated as failed - a healthy one-of candidate is rejected (or all '
                    'candidates without running), a recurrent loop stops silently and hangs', props={'C05', 'C10', 'C11'})
        else:
            out.ok('ST-3', cons, ctx.p.loc(u, u.node), 'failures have their own channel')


# ---------------------------------------------------------------------------------------------
# EX-6
# ---------------------------------------------------------------------------------------------

def _converts_stop_iteration(ctx: Ctx, w: FuncUnit) -> bool:
    """The wrapper, interpreted with a body that raises StopIteration, ends with another exception (and hands on the value of a
    body that returns)."""
    from ..absint import AExt, AObj, ARaise, Interp, Oracle, enumerate_outcomes
    if w.is_async or isinstance(w.node, ast.Lambda):
        return False

    def run(oracle: Oracle, raising: bool):
        tok = AObj(('ext', 'Value'), {}, tag='body-value')

        def body(a, k):
            if raising:
                raise ARaise('StopIteration')
            return tok
        r = Interp(ctx.p, oracle, ext_stubs={'body': body}).call_unit(w, [AExt('body')], {})
        return r is tok
    try:
        bad = enumerate_outcomes(lambda o: run(o, True))
        good = enumerate_outcomes(lambda o: run(o, False))
    except AnalysisError:
        return False
    return bool(bad) and all(o[0] == 'raise' and 'StopIteration' not in str(o[1]) for o in bad) \
        and bool(good) and all(o[0] == 'value' and o[1] is True for o in good)


def rule_executor_exception_transfer(ctx: Ctx, out: Collector) -> None:
    """EX-6: an exception raised by a body that runs in a pool is handed to the awaiting coroutine through a Future, and
    StopIteration cannot be set on a Future (asyncio logs a TypeError and the future stays pending for ever on the Python
    versions the project supports).  The callable given to run_in_executor is therefore a wrapper that converts it, not
    the bare run method."""
    n = 0
    for unit in ctx.p.functions.values():
        if isinstance(unit.node, ast.Lambda):
            continue
        env = FuncEnv.of(ctx.p, unit)
        for c in env.own_nodes():
            if not (isinstance(c, ast.Call) and isinstance(c.func, ast.Attribute)):
                continue
            # loop.run_in_executor(pool, fn, ...) or <pool>.submit(fn, ...) (whose future is then copied into an asyncio future)
            if c.func.attr == 'run_in_executor' and len(c.args) >= 2:
                handed = c.args[1]
            elif c.func.attr == 'submit' and c.args and 'parallelism' not in unit.module.name:
                handed = c.args[0]
            else:
                continue
            n += 1
            pseudo = __import__('sa.cfg', fromlist=['Inst']).Inst(unit, None, None, {})
            fn, _ = sym.resolve_value(ctx.p, handed, pseudo)          # the callable may be bound to a local first
            cons = f'{unit.module.name}::{unit.qualname}::{text(c)[:60]} [StopIteration cannot cross the executor future]'
            wrapped = False
            target = fn
            if isinstance(fn, ast.Call) and (dotted(fn.func) or '').endswith('partial') and fn.args:
                target = fn.args[0]
            for e, i in resolve_all(ctx.p, target, pseudo):
                if isinstance(e, (ast.Name, ast.Attribute)):
                    t = FuncEnv.of(ctx.p, unit).type_of(e)
                    if t[0] == 'func' and _converts_stop_iteration(ctx, t[1]):
                        wrapped = True
            if wrapped:
                out.ok('EX-6', cons, ctx.p.loc(unit, c), 'the body is wrapped by a function that converts StopIteration')
            else:
                out.bad('EX-6', cons, ctx.p.loc(unit, c),
                        'the node\'s run method itself is handed to the executor: when a synchronous body raises StopIteration '
                        '(next() on an exhausted iterator) asyncio cannot copy it into the future, the awaiting task never wakes, the node '
                        'never completes and the run hangs', props={'C02'})
    if n == 0:
        raise AnalysisError('no hand-over of a body to a pool (run_in_executor / submit) found (EX-6 anchor vanished)')


# ---------------------------------------------------------------------------------------------
# LK-8
# ---------------------------------------------------------------------------------------------

def rule_no_attempt_after_cancel(ctx: Ctx, out: Collector) -> None:
    """LK-8: cancellation is delivered to a task once.  A body whose clean-up answers it with an ordinary exception turns it
    into a "failed attempt"; the retry loop must not sleep and start another attempt (or produce the default, emit events,
    save) for a task that has been asked to cancel: between a failed attempt and the next one the loop consults the
    cancellation state of the task (Task.cancelling / a finished flag of the run)."""
    from .rt import _body_region, _retry_loop
    unit, g, head = _retry_loop(ctx)
    region = _body_region(g, head)
    consults = [ev for ev in g.events('call') if ev.id in region and isinstance(ev.node, ast.Call) and isinstance(ev.node.func, ast.Attribute)
                and ev.node.func.attr in ('cancelling', 'uncancel')]
    flags = [n for n in ast.walk(head.node) if isinstance(n, ast.Attribute) and any(w in n.attr.lower() for w in ('finished', 'stopped', 'closed', 'cancelled'))
             and isinstance(n.value, ast.Name) and n.value.id == 'self']
    cons = f'{unit.module.name}::{unit.qualname}::no new attempt once the task has been asked to cancel'
    if consults or flags:
        out.ok('LK-8', cons, head.where(), 'the loop consults the cancellation state before the next attempt')
    else:
        out.bad('LK-8', cons, head.where(),
                'the retry loop never asks whether its task has been cancelled: when the run ends while a body is executing and the body\'s '
                'clean-up raises an ordinary exception in answer to the cancellation, the handler treats it as a failed attempt - after run() '
                'has returned the task emits on_node_complete, sleeps, restarts the body (or produces the default) and saves an artifact',
                props={'C13'})


# ---------------------------------------------------------------------------------------------
# CC-8
# ---------------------------------------------------------------------------------------------

def rule_order_vs_dependencies(ctx: Ctx, out: Collector) -> None:
    """CC-8: the launch loop waits for its nodes one after the other in the order of the sub-dag it runs; a node must
    therefore never wait for a node that comes later in that order.  The order is a topological order of the (filtered)
    sub-dag, so every dependency set that is restricted to the nodes of the sub-dag has to be taken from the sub-dag's own
    edges - not from the full graph, whose case_branch edges the sub-dag does not have."""
    mgr = ctx.manager_class()
    n = 0
    for m in mgr.methods.values():
        if isinstance(m.node, ast.Lambda):
            continue
        env = FuncEnv.of(ctx.p, m)
        dag_params = [p_ for p_ in m.params()[1:] if env.name_type(p_)[0] == 'class' and 'Graph' in env.name_type(p_)[1].name]
        if not dag_params:
            continue
        preds_calls = [c for c in env.own_nodes() if isinstance(c, ast.Call) and isinstance(c.func, ast.Attribute) and c.func.attr == 'predecessors']
        if not preds_calls:
            continue
        # is the predecessor set intersected with / filtered by the nodes of the sub-dag parameter?
        src = unparse(m.node)
        restricts = any(w in src for w in ('.intersection(', ' & ')) and any(
            isinstance(x, ast.Name) and x.id in dag_params for x in ast.walk(m.node) if isinstance(x, ast.Name) and isinstance(x.ctx, ast.Load))
        if not restricts:
            continue
        for c in preds_calls:
            n += 1
            recv = c.func.value
            own_edges = isinstance(recv, ast.Name) and recv.id in dag_params
            cons = f'{m.module.name}::{m.qualname}::{text(c)[:60]} [dependencies inside a sub-dag come from the sub-dag\'s own edges]'
            if own_edges:
                out.ok('CC-8', cons, ctx.p.loc(m, c), 'predecessors of the sub-dag itself')
            else:
                out.bad('CC-8', cons, ctx.p.loc(m, c),
                        f'the dependencies a switch / one-of head waits for inside a sub-dag are the predecessors in {text(recv)} (the full graph) '
                        f'restricted to the sub-dag\'s nodes, while the launch order is a topological order of the sub-dag, which has no '
                        f'case_branch edges: a case node that is also needed elsewhere in the same sub-dag can be ordered after the switch, the '
                        f'sequential launch loop then waits for the switch, the switch waits for that case node, which is never launched',
                        props={'C02', 'C09'})
    if n == 0:
        raise AnalysisError('no dependency set restricted to a sub-dag found (CC-8 anchor vanished)')
