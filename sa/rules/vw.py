"""VW-* (C20): the viewer graph description is a faithful projection of the DAG."""
from __future__ import annotations

import ast
from typing import Any, Dict, List, Optional, Set, Tuple

from .. import sym
from ..cfg import Ev, Graph, find_path, reach
from ..effects import MUTATORS
from ..engine import Ctx
from ..guards import guards, parents, text
from ..paths import NORMAL_LABELS
from ..program import AnalysisError, ClassInfo, FuncEnv, FuncUnit, dotted, unparse
from ..report import Collector
from .common import loop_region


def _config_class(ctx: Ctx) -> ClassInfo:
    for ci in ctx.p.classes_by_name.get('GraphConfigImpl', []):
        return ci
    raise AnalysisError('GraphConfigImpl not found')


def _schema_class(ctx: Ctx, name: str) -> ClassInfo:
    for sc in ctx.p.classes_by_name.get(name, []):
        if sc.module.name.endswith('visualization.schema'):
            return sc
    raise AnalysisError(f'schema class {name} not found (VW anchors vanished)')


def _generator_roles(ctx: Ctx, gen: FuncUnit) -> Dict[str, str]:
    """fid -> 'nodes' | 'edges' | 'node_types': the methods of the config class that `generate` calls and that construct
    (directly or through helpers) the schema entries of that kind."""
    ci = _config_class(ctx)
    cls = {k: _schema_class(ctx, k) for k in ('Node', 'Edge', 'NodeType')}
    roles: Dict[str, str] = {}
    env = FuncEnv.of(ctx.p, gen)
    called = []
    for c in env.own_nodes():
        if isinstance(c, ast.Call):
            for t in env.resolve_call(c):
                if t[0] == 'func' and t[1].cls is ci and t[1] is not gen and t[1] not in called:
                    called.append(t[1])
    for m in called:
        g = ctx.graph(m.fid, depth=4)
        made = {k for k, c in cls.items() if _ctor_events(g, c)}
        if 'Edge' in made:
            roles[m.fid] = 'edges'
        elif 'Node' in made:
            roles[m.fid] = 'nodes'
        elif 'NodeType' in made:
            roles[m.fid] = 'node_types'
    if sorted(roles.values()) != ['edges', 'node_types', 'nodes']:
        raise AnalysisError(f'the three generators of the viewer description were not identified ({sorted(roles.values())}) (VW-4 anchor vanished)')
    return roles


def _ctor_events(g: Graph, ci: ClassInfo) -> List[Ev]:
    return [ev for ev in g.events('call') if any(t[0] == 'class' and t[1] is ci for t in ev.info.get('targets', ()))]


def rule_nodes_and_edges(ctx: Ctx, out: Collector) -> None:
    """VW-1: exactly one node entry per DAG node; synthetic nodes are virtual and typed by the prefix of their id, real nodes are
    described by the attributes of the DAG's own node object.  VW-2: one edge entry per DAG edge, no filter.  Both decided by
    interpreting the generators over a small DAG (library-typed, string-typed, enum-typed, untyped nodes and a synthetic one)."""
    from ..absint import AObj, Interp, Oracle, TOP, enumerate_outcomes
    p = ctx.p
    ci = _config_class(ctx)
    gen = ci.methods.get('generate')
    if gen is None:
        raise AnalysisError('GraphConfigImpl.generate not found (VW-1 anchor vanished)')
    roles = {role: p.functions[fid] for fid, role in _generator_roles(ctx, gen).items()}
    gen_nodes, gen_edges = roles['nodes'], roles['edges']
    nt = next((c for c in p.classes_by_name.get('NodeType', []) if c.module.name.endswith('node.enums')), None)
    if nt is None:
        raise AnalysisError('NodeType enum not found (VW-1 anchor vanished)')
    node_map, graph_nodes, switch_member = _viewer_world(nt)

    def run_nodes(oracle: Oracle):
        interp = Interp(p, oracle, stubs=_viewer_stubs(ctx, nt, ci, switch_member), ext_stubs={'inspect.getdoc': lambda a, k: 'doc'})
        graph = AObj(('ext', 'networkx.DiGraph'), {'nodes': {n: {} for n in graph_nodes}, 'edges': {}})
        dag = AObj(('ext', 'DAG'), {'graph': graph, 'node_map': dict(node_map)})
        res = interp.call_unit(gen_nodes, [], {}, AObj(ci, {'_dag': dag}))
        return interp._to_list(res)

    def val(x):
        return x.attrs.get('value') if isinstance(x, AObj) and 'value' in x.attrs else x
    count_p, kind_p, attr_p = [], [], []
    for o in enumerate_outcomes(run_nodes):
        if o[0] != 'value':
            count_p.append(f'the node generator fails: {str(o[1])[:60]}')
            continue
        entries = [e for e in o[1] if isinstance(e, AObj)]
        ids = [e.attrs.get('id') for e in entries]
        if len(entries) != len(o[1]):
            count_p.append('an entry is not a schema.Node')
        if sorted(map(str, ids)) != sorted(graph_nodes):
            count_p.append(f'entries {sorted(map(str, ids))} for the DAG nodes {sorted(graph_nodes)}')
        for e in entries:
            nid = e.attrs.get('id')
            if nid not in node_map:
                if e.attrs.get('is_virtual') is not True:
                    kind_p.append(f'the synthetic node {nid} is not marked virtual')
                if val(e.attrs.get('type')) != 'switch':
                    kind_p.append(f'the synthetic node {nid} is typed {val(e.attrs.get("type"))!r}, not by the prefix of its id')
                continue
            cls_ = node_map[nid]
            if e.attrs.get('is_virtual') is not False:
                kind_p.append(f'the described node {nid} is marked virtual')
            t_, want = e.attrs.get('type'), cls_.attrs['node_type']
            if not (t_ is want or (val(t_) == val(want) and val(t_) is not None) or (want is None and t_ is None)):
                attr_p.append(f'{nid}: type={val(t_)!r} (declared {val(want)!r})')
            data = e.attrs.get('data')
            dattrs = data.attrs if isinstance(data, AObj) else {}
            for fld in ('name', 'verbose_name'):
                if dattrs.get(fld) != cls_.attrs[fld]:
                    attr_p.append(f'{nid}: {fld}={dattrs.get(fld)!r} (declared {cls_.attrs[fld]!r})')
            if not isinstance(data, AObj):
                attr_p.append(f'{nid}: no NodeAttributes entry')
    where = p.loc(gen_nodes, gen_nodes.node)
    cons = f'{gen_nodes.module.name}::{gen_nodes.qualname}::one entry per node of graph.nodes'
    if not count_p:
        out.ok('VW-1', cons, where, f'{len(graph_nodes)} DAG nodes in, one entry each out')
    else:
        out.bad('VW-1', cons, where, 'the node list of the graph description is not one entry per DAG node: ' + '; '.join(sorted(set(count_p))[:3]))
    cons = f'{gen_nodes.module.name}::{gen_nodes.qualname}::synthetic nodes are virtual and typed by prefix, real nodes carry declared data'
    if not kind_p:
        out.ok('VW-1', cons, where, 'virtual: NodeType.by_prefix(id); real: not virtual')
    else:
        out.bad('VW-1', cons, where, 'node entries do not distinguish synthetic (virtual, typed by id prefix) from real nodes: '
                + '; '.join(sorted(set(kind_p))[:3]))
    cons = f'{gen_nodes.module.name}::{gen_nodes.qualname}::real node entries carry the attributes of the DAG node itself'
    if not attr_p:
        out.ok('VW-1', cons, where, 'name, verbose_name, type equal those of the node_map entry of the node id')
    else:
        out.bad('VW-1', cons, where, 'a real node is not described by its own declared attributes (' + '; '.join(sorted(set(attr_p))[:3])
                + '): nodes built from a generic class with their own name are shown with the template\'s name')
    # ---- VW-2: the edge generator is interpreted over a small graph
    cons = f'{gen_edges.module.name}::{gen_edges.qualname}::one entry per edge of graph.edges, unfiltered'
    from ..absint import AObj, Interp, Oracle, TOP, enumerate_outcomes
    world_edges = {('a', 'b'): {}, ('a', 'c'): {'kwarg_name': 'x'}, ('b', 'c'): {'is_switch': True}, ('switch__s', 'c'): {}}

    def run_edges(oracle: Oracle):
        graph = AObj(('ext', 'networkx.DiGraph'), {'nodes': {n: {} for e in world_edges for n in e}, 'edges': dict(world_edges)})
        dag = AObj(('ext', 'DAG'), {'graph': graph, 'node_map': {}})
        return Interp(p, oracle).call_unit(gen_edges, [], {}, AObj(ci, {'_dag': dag}))
    detail = None
    for o in enumerate_outcomes(run_edges):
        if o[0] != 'value' or not isinstance(o[1], (list, tuple)):
            detail = f'the edge generator does not return a list ({o[1]!r})'
            continue
        got = sorted((getattr(e, 'attrs', {}).get('source'), getattr(e, 'attrs', {}).get('target')) for e in o[1])
        if got != sorted(world_edges):
            detail = f'for the DAG edges {sorted(world_edges)} the description has {got}'
    if detail is None:
        out.ok('VW-2', cons, p.loc(gen_edges, gen_edges.node), f'{len(world_edges)} edges in, the same (source, target) pairs out, once each')
    else:
        out.bad('VW-2', cons, p.loc(gen_edges, gen_edges.node), f'the edge list of the graph description is not one entry per DAG dependency: {detail}')
    # edge id unique: derived from both endpoints
    for sc in p.classes_by_name.get('Edge', []):
        if sc.module.name.endswith('visualization.schema'):
            post = sc.methods.get('__post_init__')
            cons = f'{sc.module.name}::Edge::id is derived from both endpoints'
            ptxt = unparse(post.node) if post is not None else ''
            if 'self.source' in ptxt and 'self.target' in ptxt and 'self.id' in ptxt:
                out.ok('VW-2', cons, p.loc(sc.module, sc.node), ptxt.split('\n')[-1].strip()[:80])
            else:
                out.bad('VW-2', cons, p.loc(sc.module, sc.node), 'the edge id is not a function of (source, target): ids are not unique')


def rule_pure(ctx: Ctx, out: Collector) -> None:
    """VW-3: generating the description does not write to the DAG."""
    p = ctx.p
    ci = _config_class(ctx)
    n = 0
    bad = []
    for m in ci.methods.values():
        for node in ast.walk(m.node):
            tgt = None
            if isinstance(node, (ast.Assign, ast.AugAssign, ast.AnnAssign)):
                tgts = node.targets if isinstance(node, ast.Assign) else [node.target]
                for t in tgts:
                    if isinstance(t, (ast.Subscript, ast.Attribute)):
                        n += 1
                        if '_dag' in unparse(t.value) or _alias_of_dag(m, t.value):
                            bad.append((m, node))
            if isinstance(node, ast.Delete):
                for t in node.targets:
                    if '_dag' in unparse(t):
                        bad.append((m, node))
            if isinstance(node, ast.Call) and isinstance(node.func, ast.Attribute) and node.func.attr in MUTATORS | {'update', 'clear'}:
                n += 1
                if '_dag' in unparse(node.func.value) or _alias_of_dag(m, node.func.value):
                    bad.append((m, node))
            if isinstance(node, ast.Call) and (dotted(node.func) or '').split('.')[-1] in ('set_node_attributes', 'set_edge_attributes', 'setattr', 'relabel_nodes'):
                if node.args and ('_dag' in unparse(node.args[0]) or _alias_of_dag(m, node.args[0])):
                    bad.append((m, node))
    cons = f'{ci.module.name}::{ci.name}::no write rooted in self._dag'
    if not bad:
        out.ok('VW-3', cons, p.loc(ci.module, ci.node), f'{n} write sites examined, none rooted in the DAG')
    else:
        m, node = bad[0]
        out.bad('VW-3', cons, p.loc(m, node), f'{m.name} writes to the DAG while generating its description ({unparse(node)[:70]}): '
                                              f'visualising a DAG changes what later runs see')


def _alias_of_dag(m: FuncUnit, expr: ast.AST) -> bool:
    root = expr
    while isinstance(root, (ast.Attribute, ast.Subscript, ast.Call)):
        root = root.value if not isinstance(root, ast.Call) else root.func
    if not isinstance(root, ast.Name) or root.id == 'self':
        return False
    for n in ast.walk(m.node):
        if isinstance(n, ast.Assign) and any(isinstance(t, ast.Name) and t.id == root.id for t in n.targets):
            v = unparse(n.value)
            if '_dag' in v and not any(f in v for f in ('.copy(', 'deepcopy(', 'list(', 'dict(')) and 'node_map.get' not in v \
                    and '_get_node' not in v:
                return True
    return False


JSON_CLOSED = {'str', 'int', 'bool', 'float', 'None'}


def rule_schema(ctx: Ctx, out: Collector) -> None:
    """VW-4: the schema consists of JSON-closed field types and serialises with dataclasses.asdict."""
    p = ctx.p
    mod = None
    for m in p.modules.values():
        if m.name.endswith('visualization.schema'):
            mod = m
    if mod is None:
        raise AnalysisError('viewer schema module not found')
    classes = {ci.name: ci for ci in p.classes.values() if ci.module is mod}
    for name, ci in sorted(classes.items()):
        bad = []
        for f, (ann, default) in ci.fields.items():
            if ann is None:
                continue
            if not _json_closed(ann, set(classes)):
                bad.append(f'{f}: {unparse(ann)}')
        cons = f'{mod.name}::{name}::field types are JSON-closed'
        if 'dataclass' not in ci.decorators:
            bad.append('not a dataclass')
        if not bad:
            out.ok('VW-4', cons, p.loc(mod, ci.node), f'{len(ci.fields)} fields')
        else:
            out.bad('VW-4', cons, p.loc(mod, ci.node), f'{name} has fields that do not serialise to JSON: {", ".join(bad)}')
    gc = classes.get('GraphConfig')
    if gc is None or 'as_dict' not in gc.methods:
        raise AnalysisError('GraphConfig.as_dict not found')
    ad = gc.methods['as_dict']
    ret = sym.simple_return(ad)
    if ret is None or isinstance(ret, ast.Name):
        # the single return hands back a local that was assigned once: `d = asdict(self); return d`
        rets = [n for n in ast.walk(ad.node) if isinstance(n, ast.Return) and n.value is not None]
        if len(rets) == 1 and isinstance(rets[0].value, ast.Name):
            vals = [a.value for a in ast.walk(ad.node) if isinstance(a, (ast.Assign, ast.AnnAssign)) and a.value is not None
                    and any(isinstance(x, ast.Name) and x.id == rets[0].value.id for x in (a.targets if isinstance(a, ast.Assign) else [a.target]))]
            if len(vals) == 1:
                ret = vals[0]
    cons = f'{mod.name}::GraphConfig.as_dict::is dataclasses.asdict(self)'
    if isinstance(ret, ast.Call) and (dotted(ret.func) or '').split('.')[-1] == 'asdict' and len(ret.args) == 1 and unparse(ret.args[0]) == 'self':
        out.ok('VW-4', cons, p.loc(ad, ad.node), 'asdict(self)')
    else:
        out.bad('VW-4', cons, p.loc(ad, ad.node), 'as_dict does not return dataclasses.asdict(self): the description is not the full projection')
    # generate() fills all four parts from the three generators
    ci = _config_class(ctx)
    gen = ci.methods.get('generate')
    if gen is None:
        raise AnalysisError('GraphConfigImpl.generate not found')
    cons = f'{gen.module.name}::{gen.qualname}::nodes, edges and node_types come from the three generators'
    from ..absint import AObj, Interp, Oracle, TOP, enumerate_outcomes
    roles = _generator_roles(ctx, gen)

    def run(oracle: Oracle):
        stubs = {fid: (lambda interp, a, k, s_, role=role: ('GENERATED', role)) for fid, role in roles.items()}
        interp = Interp(p, oracle, stubs=stubs)
        obj = AObj(ci, {'_dag': TOP})
        return interp.call_unit(gen, ['name'], {}, obj)
    problems = []
    for o in enumerate_outcomes(run):
        if o[0] != 'value' or not isinstance(o[1], AObj):
            problems.append(f'generate() does not return a description ({o[1]!r})')
            continue
        for part in ('nodes', 'edges', 'node_types'):
            if o[1].attrs.get(part) != ('GENERATED', part):
                problems.append(f'{part} is {o[1].attrs.get(part)!r}')
    if not problems:
        out.ok('VW-4', cons, p.loc(gen, gen.node), 'GraphConfig(nodes=<node generator>, edges=<edge generator>, node_types=<type generator>)')
    else:
        out.bad('VW-4', cons, p.loc(gen, gen.node), 'generate() does not assemble the description from the node / edge / node-type generators: '
                + '; '.join(sorted(set(problems))))


def _json_closed(ann: ast.AST, classes: Set[str]) -> bool:
    if isinstance(ann, ast.Constant):
        return ann.value is None or isinstance(ann.value, str) and ann.value in classes
    if isinstance(ann, ast.Name):
        return ann.id in JSON_CLOSED or ann.id in classes
    if isinstance(ann, ast.Attribute):
        return ann.attr in JSON_CLOSED
    if isinstance(ann, ast.Subscript):
        head = (dotted(ann.value) or '').split('.')[-1]
        args = ann.slice.elts if isinstance(ann.slice, ast.Tuple) else [ann.slice]
        if head in ('Optional', 'List', 'list'):
            return all(_json_closed(a, classes) for a in args)
        if head in ('Dict', 'dict'):
            return len(args) == 2 and isinstance(args[0], ast.Name) and args[0].id == 'str' and _json_closed(args[1], classes)
        if head == 'Union':
            return all(_json_closed(a, classes) for a in args)
    return False


def rule_types(ctx: Ctx, out: Collector) -> None:
    """VW-5: every synthetic id the builder generates starts with a NodeType value, and by_prefix scans all
    members.  VW-6: no partial Enum(value) conversion of a declared node attribute without a guard."""
    p = ctx.p
    # ---- VW-5: the ids of the synthetic nodes the builder creates (builder worlds: named and unnamed switch, one-of) are typed by
    # NodeType.by_prefix, interpreted as written
    from ..absint import AClass, ARaise, Interp, Oracle, enumerate_outcomes
    from .bw import Marks, node as mknode, run_build
    nt = next((ci for ci in p.classes_by_name.get('NodeType', []) if ci.module.name.endswith('node.enums')), None)
    if nt is None:
        raise AnalysisError('NodeType enum not found')
    bp = nt.methods.get('by_prefix')
    if bp is None:
        raise AnalysisError('NodeType.by_prefix not found')
    mk = Marks(ctx)
    decls = {
        'a named switch': [('p', mk.switch(mknode('S'), [('a', mknode('G'))], 'choice'))],
        'an unnamed switch': [('p', mk.switch(mknode('S'), [('a', mknode('G'))], None))],
        'a one-of': [('p', mk.oneof([mknode('G'), mknode('G2')]))],
    }
    interp0 = Interp(p, Oracle())
    values = interp0._to_list(AClass(nt))
    want_prefix = {'a named switch': 'switch', 'an unnamed switch': 'switch', 'a one-of': 'input_one_of'}
    n = 0
    for label, marks in decls.items():
        ids = set()
        for o in run_build(ctx, mknode('I'), mknode('O', marks)):
            if o[0] == 'value':
                ids |= {x for x in o[1][0].attrs['nodes'] if not (isinstance(x, str) and x.startswith('id:'))}
        if not ids:
            raise AnalysisError(f'the builder world with {label} has no synthetic node (VW-5 anchors vanished)')
        for sid in sorted(ids, key=str):
            n += 1
            def run(oracle: Oracle, sid=sid):
                return Interp(p, oracle).call_unit(bp, [AClass(nt), sid] if not bp.params() or bp.params()[0] != 'cls' else [sid], {}, AClass(nt))
            got = sorted({str(o[1]) if o[0] == 'value' else f'raises {str(o[1])[:40]}' for o in enumerate_outcomes(run)})
            cons = f'{nt.module.name}::NodeType.by_prefix::the synthetic node of {label} is typed by its id prefix [prefix is a NodeType value]'
            if got == [want_prefix[label]] and want_prefix[label] in values:
                out.ok('VW-5', cons, p.loc(bp, bp.node), f'{sid!r} -> {got[0]}')
            else:
                out.bad('VW-5', cons, p.loc(bp, bp.node), f'the id {sid!r} the builder gives the synthetic node of {label} is typed {got} by '
                        f'NodeType.by_prefix (expected {want_prefix[label]!r}): no description can be generated for a DAG with this construct, '
                        f'or the node is shown with the wrong type')
    # an id without any type prefix is refused, not typed by accident
    def run_none(oracle: Oracle):
        return Interp(p, oracle).call_unit(bp, ['zzz__1'], {}, AClass(nt))
    got = sorted({str(o[1]) if o[0] == 'value' else 'raises' for o in enumerate_outcomes(run_none)})
    cons = f'{nt.module.name}::NodeType.by_prefix::scans every member with startswith'
    if got == ['raises']:
        out.ok('VW-5', cons, p.loc(bp, bp.node), f'{n} synthetic ids typed by their prefix; an id without a type prefix raises')
    else:
        out.bad('VW-5', cons, p.loc(bp, bp.node), f'by_prefix types an id without a NodeType prefix as {got}')
    # ---- VW-6
    ci = _config_class(ctx)
    hits = _partial_enum_conversions(ci)
    fixture = ast.parse('class X:\n    def f(self, node):\n        return NodeType(node.node_type)\n')
    fake = type('F', (), {})()
    if not _scan_partial(fixture):
        raise AnalysisError('VW-6 self-check failed: the detector does not match its positive fixture')
    cons = f'{ci.module.name}::{ci.name}::no unguarded Enum(value) conversion of a declared node attribute'
    if not hits:
        out.ok('VW-6', cons, p.loc(ci.module, ci.node), 'none (detector checked against its positive fixture)')
    else:
        m, node = hits[0]
        out.bad('VW-6', cons, p.loc(m, node), f'{unparse(node)} converts a node-class attribute with a partial Enum constructor: the custom '
                                              f'node types shown in the documentation raise ValueError and no description is generated')


def _scan_partial(tree: ast.AST) -> List[ast.Call]:
    out = []
    for n in ast.walk(tree):
        if isinstance(n, ast.Call) and isinstance(n.func, ast.Name) and n.func.id in ('NodeType', 'NodeTag', 'DataFormat') and len(n.args) == 1:
            a = n.args[0]
            if isinstance(a, ast.Attribute) and isinstance(a.value, ast.Name) and a.value.id not in ('cls', 'self', 'NodeType'):
                out.append(n)
    return out


def _partial_enum_conversions(ci: ClassInfo) -> List[Tuple[FuncUnit, ast.Call]]:
    out = []
    for m in ci.methods.values():
        for c in _scan_partial(m.node):
            # inside a try that catches ValueError?
            pm = parents(m.node)
            cur = c
            caught = False
            while id(cur) in pm:
                par = pm[id(cur)]
                if isinstance(par, ast.Try) and cur in par.body:
                    for h in par.handlers:
                        if h.type is None or any(x in unparse(h.type) for x in ('ValueError', 'Exception')):
                            caught = True
                cur = par
            if not caught:
                out.append((m, c))
    return out


def _pure_path_model(ext: dict) -> None:
    """pathlib pure paths over strings: objects (not strings) with the string-producing methods - enough to tell a path object from
    the text of a path in what a function returns."""
    from ..absint import AExt, AObj
    counter = {'n': 0}

    def mk(s_: str):
        o = AObj(('ext', 'pathlib.PurePosixPath'), {'s': s_, 'name': s_.rsplit('/', 1)[-1]}, tag=f'PurePosixPath({s_})')

        def method(fn):
            counter['n'] += 1
            name = f'purepath.m{counter["n"]}'
            ext[name] = fn
            return AExt(name)
        stem = s_[:-len('.' + s_.rsplit('.', 1)[-1])] if '.' in s_.rsplit('/', 1)[-1] else s_
        o.attrs['with_suffix'] = method(lambda a, k: mk(stem + (a[0] if a and isinstance(a[0], str) else '')))
        o.attrs['with_name'] = method(lambda a, k: mk(s_.rsplit('/', 1)[0] + '/' + a[0] if '/' in s_ else a[0]))
        o.attrs['joinpath'] = method(lambda a, k: mk('/'.join([s_] + [x if isinstance(x, str) else x.attrs['s'] for x in a])))
        o.attrs['as_posix'] = method(lambda a, k: s_)
        o.attrs['__str__'] = method(lambda a, k: s_)
        o.attrs['__fspath__'] = method(lambda a, k: s_)
        return o

    def ctor(a, k):
        parts = [x if isinstance(x, str) else (x.attrs.get('s') if isinstance(x, AObj) else None) for x in a]
        if any(x is None for x in parts):
            from ..absint import TOP
            return TOP
        return mk('/'.join(parts))
    for nm in ('pathlib.PurePosixPath', 'pathlib.PurePath', 'pathlib.Path', 'pathlib.PosixPath', 'pathlib.PureWindowsPath'):
        ext[nm] = ctor
    ext['operator.truediv'] = lambda a, k: ctor(a, k)
    ext['builtins.str'] = lambda a, k: (a[0].attrs['s'] if a and isinstance(a[0], AObj) and 's' in a[0].attrs else
                                        (str(a[0]) if a and isinstance(a[0], (str, int)) and not isinstance(a[0], bool) else __import__('sa.absint', fromlist=['TOP']).TOP))
    ext['os.fspath'] = ext['builtins.str']


def rule_source_and_ids(ctx: Ctx, out: Collector) -> None:
    """VW-7: the source link of a node built by build_node from another build_node node is computed from the class that has a
    source (the chain of __generic_class__ is followed to its end).  VW-8: the edge id is an injective function of the pair
    (source, target).  Both are decided by interpreting the code over small worlds."""
    from ..absint import AObj, ARaise, Interp, Oracle, TOP, enumerate_outcomes
    p = ctx.p
    ci = _config_class(ctx)
    def asks_source(u: FuncUnit, depth: int = 2) -> bool:
        # inspect.getsourcelines & co, called by the function itself or by a helper of its module
        if any(isinstance(n, ast.Call) and (dotted(n.func) or '').split('.')[-1] in ('getsourcelines', 'findsource', 'getsourcefile')
               for n in ast.walk(u.node)):
            return True
        if depth == 0 or isinstance(u.node, ast.Lambda):
            return False
        env_ = FuncEnv.of(p, u)
        return any(t_[0] == 'func' and t_[1].module is u.module and t_[1] is not u and asks_source(t_[1], depth - 1)
                   for c_ in env_.own_nodes() if isinstance(c_, ast.Call) for t_ in env_.resolve_call(c_))
    cands = [m for m in ci.methods.values() if asks_source(m)]
    # the innermost method of the class that does it (generate() reaches it too)
    target = None
    for m in cands:
        env_ = FuncEnv.of(p, m)
        calls_other = any(t_[0] == 'func' and t_[1] in cands and t_[1] is not m for c_ in env_.own_nodes() if isinstance(c_, ast.Call)
                          for t_ in env_.resolve_call(c_))
        if not calls_other:
            target = m
    if target is None:
        raise AnalysisError('the function computing the source link of a node was not found (VW-7 anchor vanished)')
    table = {}
    problems = []
    for depth in (0, 1, 2, 3):
        def run(oracle: Oracle, depth=depth):
            asked = []

            def src(a, k):
                asked.append(a[0])
                if isinstance(a[0], AObj) and a[0].attrs.get('__generic_class__') is not None:
                    raise ARaise('OSError (a class created by type() has no source)')
                return (TOP, 10)
            node = AObj(('ext', 'created-class'), {'__module__': 'user.base', '__name__': 'Base', '__generic_class__': None}, tag='Base')
            for i in range(depth):
                node = AObj(('ext', 'created-class'), {'__module__': 'ml_pipeline_engine.node.node', '__name__': f'G{i}',
                                                       '__generic_class__': node}, tag=f'G{i}')
            ext_ = {'inspect.getsourcelines': src, 'inspect.findsource': src,
                    'inspect.getsourcefile': lambda a, k: (asked.append(a[0]), 'user/base.py')[1]}
            _pure_path_model(ext_)
            interp = Interp(p, oracle, ext_stubs=ext_)
            res = interp.call_unit(target, [node], {}, None if target.is_static else AObj(ci, {}))
            if not (isinstance(res, str) or res is TOP):
                raise ARaise(f'TypeError (the source link is {res!r}, not a string: the description does not serialise to JSON)')
            return res, [getattr(a, 'tag', repr(a)) for a in asked]
        outs = enumerate_outcomes(run)
        got = sorted({(str(o[1][0]), tuple(o[1][1])) if o[0] == 'value' else ('raises ' + str(o[1]), ()) for o in outs})
        table[f'{depth} level(s) of build_node'] = [f'{r} (source of {list(a)})' for r, a in got]
        for r, asked in got:
            if r.startswith('raises') or any(a != 'Base' for a in asked) or (r != str(TOP) and 'user/base' not in r):
                problems.append(f'{depth} level(s) of build_node: {r}' + (f', source asked of {list(asked)}' if asked else ''))
    # a hand-written subclass of a build_node class (inherits __generic_class__) links to itself; a class without source does not
    # make the generation fail
    def run_special(oracle: Oracle, which: str):
        asked = []

        def src(a, k):
            asked.append(a[0])
            if which == 'no-source' or (isinstance(a[0], AObj) and a[0].attrs.get('__made_by_type__')):
                raise ARaise('OSError (no source)')
            return (TOP, 10)
        base = AObj(('ext', 'created-class'), {'__module__': 'user.base', '__name__': 'Base', '__generic_class__': None}, tag='Base')
        generic = AObj(('ext', 'created-class'), {'__module__': 'ml_pipeline_engine.node.node', '__name__': 'G', '__generic_class__': base,
                                                  '__made_by_type__': True}, tag='G')
        own = AObj(('ext', 'created-class'), {'__module__': 'user.own', '__name__': 'Own', '__bases__': (generic,)}, tag='Own')
        node = own if which == 'subclass' else base
        ext_ = {'inspect.getsourcelines': src, 'inspect.findsource': src,
                'inspect.getsourcefile': lambda a, k: (asked.append(a[0]), 'x.py')[1]}
        _pure_path_model(ext_)
        interp = Interp(p, oracle, ext_stubs=ext_)
        res = interp.call_unit(target, [node], {}, None if target.is_static else AObj(ci, {}))
        if not (isinstance(res, str) or res is TOP):
            raise ARaise(f'TypeError (the source link is {res!r}, not a string: the description does not serialise to JSON)')
        return res, [getattr(a, 'tag', repr(a)) for a in asked]
    for which, label in (('subclass', 'a hand-written subclass of a build_node class'), ('no-source', 'a class without retrievable source')):
        outs = enumerate_outcomes(lambda oracle, which=which: run_special(oracle, which))
        got = sorted({(str(o[1][0]), tuple(o[1][1])) if o[0] == 'value' else ('raises ' + str(o[1]), ()) for o in outs})
        table[label] = [f'{r} (source of {list(a)})' for r, a in got]
        for r, asked in got:
            if r.startswith('raises'):
                problems.append(f'{label}: {r}')
            elif which == 'subclass' and (any(a != 'Own' for a in asked) or (r != str(TOP) and 'user/own' not in r)):
                problems.append(f'{label}: linked to {r}, source asked of {list(asked)} (must be its own class)')
    cons = f'{target.module.name}::{target.qualname}::the source link follows the chain of generic classes to the class that has a source [generic-chain]'
    if not problems:
        out.ok('VW-7', cons, p.loc(target, target.node), '0..3 levels of build_node', table=table)
    else:
        out.bad('VW-7', cons, p.loc(target, target.node), 'generating the description of a buildable pipeline fails (or links the wrong file) for a '
                'node made by build_node from a build_node node: ' + '; '.join(problems[:3]), table=table)
    # ---- VW-8
    for sc in p.classes_by_name.get('Edge', []):
        if not sc.module.name.endswith('visualization.schema'):
            continue
        post = sc.methods.get('__post_init__')
        if post is None:
            raise AnalysisError('schema.Edge has no __post_init__ computing the id (VW-8 anchor vanished)')
        seps = sorted({v.value for n in ast.walk(post.node) if isinstance(n, ast.JoinedStr) for v in n.values
                       if isinstance(v, ast.Constant) and isinstance(v.value, str) and v.value} |
                      {n.value for n in ast.walk(post.node) if isinstance(n, ast.Constant) and isinstance(n.value, str) and n.value
                       and len(n.value) <= 4}) or ['']
        seps.append('')
        collisions = []
        undecided = False
        for sep in seps:
            pair_a, pair_b = ('x' + sep + 'y', 'z'), ('x', 'y' + sep + 'z')
            ids = []
            for s_, t_ in (pair_a, pair_b):
                def run(oracle: Oracle, s_=s_, t_=t_):
                    e = AObj(sc, {'source': s_, 'target': t_, 'id': None})
                    Interp(p, oracle).call_unit(post, [], {}, e)
                    return e.attrs.get('id')
                outs = enumerate_outcomes(run)
                vals = {o[1] if o[0] == 'value' else 'raises' for o in outs}
                if len(vals) != 1 or TOP in vals:
                    undecided = True
                ids.append(next(iter(vals)))
            if not undecided and ids[0] == ids[1]:
                collisions.append(f'{pair_a} and {pair_b} both get the id {ids[0]!r}')
        # endpoints that differ in one character give different ids
        folded: List[str] = []
        if not undecided:
            seen_ids: Dict[Any, Tuple[str, str]] = {}
            for s_ in ('a.b', 'a_b', 'a-b', 'a b', 'A_b', 'a__b'):
                for t_ in ('c', 'c.d', 'c_d'):
                    def run2(oracle: Oracle, s_=s_, t_=t_):
                        e = AObj(sc, {'source': s_, 'target': t_, 'id': None})
                        Interp(p, oracle).call_unit(post, [], {}, e)
                        return e.attrs.get('id')
                    vals = {o[1] if o[0] == 'value' else 'raises' for o in enumerate_outcomes(run2)}
                    if len(vals) != 1 or TOP in vals:
                        undecided = True
                        continue
                    v_ = next(iter(vals))
                    if v_ in seen_ids and seen_ids[v_] != (s_, t_):
                        folded.append(f'{seen_ids[v_]} and {(s_, t_)} both get the id {v_!r}')
                    seen_ids.setdefault(v_, (s_, t_))
        if undecided:
            raise AnalysisError('the edge id computed by schema.Edge.__post_init__ could not be evaluated (VW-8 undecided)')
        cons = f'{sc.module.name}::Edge::the id is an injective function of (source, target) [edge-id-injective]'
        if not collisions:
            out.ok('VW-8', cons, p.loc(sc.module, sc.node), f'{len(seps)} separator worlds')
        else:
            out.bad('VW-8', cons, p.loc(sc.module, sc.node), 'node names are free text; the edge id is the two node ids joined by a separator '
                    'that may occur in them, so two different DAG edges can get the same id: ' + collisions[0])
        cons = f'{sc.module.name}::Edge::endpoints that differ in one character give different edge ids [edge-id-keeps-characters]'
        if not folded:
            out.ok('VW-8', cons, p.loc(sc.module, sc.node), '18 (source, target) pairs that differ in one character: 18 ids')
        else:
            out.bad('VW-8', cons, p.loc(sc.module, sc.node), 'the edge id folds characters of the node ids: two different DAG edges get the same '
                    'id (one entry per dependency with a unique id no longer holds): ' + folded[0])


def rule_type_table(ctx: Ctx, out: Collector) -> None:
    """VW-9: the node-type table covers every type that occurs on a node entry.  The node generator and the type-table
    generator are interpreted over one DAG whose nodes declare a library NodeType member, a plain string, a member of a
    project-defined (str, Enum) class and no type at all, plus a synthetic node; a (str, Enum) member counts as equal to its
    value (that is how it compares and serialises)."""
    from ..absint import AObj, Interp, Oracle, TOP, enumerate_outcomes
    p = ctx.p
    ci = _config_class(ctx)
    gen = ci.methods.get('generate')
    if gen is None:
        raise AnalysisError('GraphConfigImpl.generate not found')
    roles = {role: fid for fid, role in _generator_roles(ctx, gen).items()}
    nt = next((c for c in p.classes_by_name.get('NodeType', []) if c.module.name.endswith('node.enums')), None)
    if nt is None:
        raise AnalysisError('NodeType enum not found (VW-9 anchor vanished)')

    node_map, graph_nodes, switch_member = _viewer_world(nt)

    def run(oracle: Oracle):
        stubs = _viewer_stubs(ctx, nt, ci, switch_member)
        interp = Interp(p, oracle, stubs=stubs, ext_stubs={'inspect.getdoc': lambda a, k: 'doc'})
        graph = AObj(('ext', 'networkx.DiGraph'), {'nodes': {n: {} for n in graph_nodes}, 'edges': {}})
        dag = AObj(('ext', 'DAG'), {'graph': graph, 'node_map': dict(node_map)})
        obj = AObj(ci, {'_dag': dag})
        nodes = interp.call_unit(p.functions[roles['nodes']], [], {}, obj)
        table = interp.call_unit(p.functions[roles['node_types']], [], {}, obj)
        return nodes, table

    def same(t, k) -> bool:
        if t is k:
            return True
        tv = t.attrs.get('value') if isinstance(t, AObj) else t
        kv = k.attrs.get('value') if isinstance(k, AObj) else k
        return isinstance(tv, str) and isinstance(kv, str) and tv == kv
    problems = []
    for o in enumerate_outcomes(run):
        if o[0] != 'value':
            problems.append(f'generation fails: {o[1]}')
            continue
        nodes, table = o[1]
        if not isinstance(table, dict) or not isinstance(nodes, (list, tuple)):
            raise AnalysisError('the generators do not return a list of entries and a table (VW-9 undecided)')
        for entry in nodes:
            t = getattr(entry, 'attrs', {}).get('type')
            if t is None or t is TOP:
                continue
            if not any(same(t, k) for k in table):
                problems.append(f'node {entry.attrs.get("id")} has type {t!r}; the table has {sorted(map(repr, table))}')
        for k, v in table.items():
            nm = getattr(v, 'attrs', {}).get('name')
            if nm is not None and not same(nm, k):
                problems.append(f'table entry {k!r} is named {nm!r}')
    unit = p.functions[roles['node_types']]
    cons = f'{unit.module.name}::{unit.qualname}::the node-type table covers every type that occurs on a node [type-table-covers]'
    if not problems:
        out.ok('VW-9', cons, p.loc(unit, unit.node), 'library NodeType, plain string and project (str, Enum) types are covered; untyped nodes skipped')
    else:
        out.bad('VW-9', cons, p.loc(unit, unit.node), 'a type that occurs on a node entry has no entry in the node-type table (the viewer '
                'cannot colour / group it): ' + '; '.join(sorted(set(problems))[:3]))


def _viewer_world(nt: ClassInfo):
    from ..absint import AObj

    def member(cls, value, tag):
        return AObj(cls, {'value': value, 'name': value, '_value_': value}, tag=tag)
    lib = member(nt, 'processor', 'NodeType.processor')
    switch_member = member(nt, 'switch', 'NodeType.switch')
    custom = member(('ext', 'project.ProjectNodeType'), 'ml_model', 'ProjectNodeType.ml_model')

    def node_cls(name, node_type):
        return AObj(('ext', 'created-class'), {'__name__': name, 'name': name, 'verbose_name': name, 'node_type': node_type,
                                               '__module__': 'user', '__generic_class__': None, 'process': 'RUNMETHOD'}, tag=name)
    node_map = {'processor__a': node_cls('a', lib), 'custom__b': node_cls('b', 'feature'), 'custom__c': node_cls('c', custom),
                'untyped__d': node_cls('d', None)}
    return node_map, list(node_map) + ['switch__s'], switch_member


def _viewer_stubs(ctx: Ctx, nt: ClassInfo, ci: ClassInfo, switch_member) -> dict:
    p = ctx.p
    stubs = {}
    for m in nt.methods.values():
        if m.name == 'by_prefix':
            stubs[m.fid] = lambda interp, a, k, s_: switch_member
        elif m.name == 'is_generic':
            stubs[m.fid] = lambda interp, a, k, s_: False
    for m in ci.methods.values():
        if any(isinstance(n, ast.Call) and (dotted(n.func) or '').split('.')[-1] in ('getsourcelines', 'findsource', 'getsourcefile')
               for n in ast.walk(m.node)):
            stubs[m.fid] = lambda interp, a, k, s_: 'user.py#L1'
    for u in p.functions.values():
        if u.parent is None and u.cls is None and u.name == 'get_callable_run_method':
            stubs[u.fid] = lambda interp, a, k, s_: 'RUNMETHOD'
    return stubs


def rule_generate_total(ctx: Ctx, out: Collector) -> None:
    """VW-10: generate() itself, interpreted over one DAG (library-typed, string-typed, enum-typed and untyped nodes, a
    synthetic node, three edges): the description has exactly one node entry per DAG node and one edge entry per DAG edge, the
    DAG is not written to, and a second call on the same object gives the same description (nothing accumulates)."""
    from ..absint import AObj, Interp, Oracle, TOP, enumerate_outcomes
    p = ctx.p
    ci = _config_class(ctx)
    gen = ci.methods.get('generate')
    if gen is None:
        raise AnalysisError('GraphConfigImpl.generate not found')
    nt = next((c for c in p.classes_by_name.get('NodeType', []) if c.module.name.endswith('node.enums')), None)
    if nt is None:
        raise AnalysisError('NodeType enum not found (VW-10 anchor vanished)')
    node_map, graph_nodes, switch_member = _viewer_world(nt)
    edges = {('processor__a', 'custom__b'): {'kwarg_name': 'x'}, ('custom__b', 'switch__s'): {'case_branch': 'k'},
             ('switch__s', 'custom__c'): {'kwarg_name': 'y'}}

    def run(oracle: Oracle):
        interp = Interp(p, oracle, stubs=_viewer_stubs(ctx, nt, ci, switch_member), ext_stubs={'inspect.getdoc': lambda a, k: 'doc'})
        graph = AObj(('ext', 'networkx.DiGraph'), {'nodes': {n: {} for n in graph_nodes}, 'edges': {k: dict(v) for k, v in edges.items()}})
        dag = AObj(('ext', 'DAG'), {'graph': graph, 'node_map': dict(node_map)})
        init = p.lookup_method(ci, '__init__')
        obj = AObj(ci, {})
        if init is not None:
            interp.call_unit(init, [dag], {}, obj)
        else:
            obj.attrs['_dag'] = dag
        first = interp.call_unit(gen, ['name'], {}, obj)
        second = interp.call_unit(gen, ['name'], {}, obj)
        return first, second, graph

    def shape(desc):
        if not isinstance(desc, AObj):
            return None
        ns, es = desc.attrs.get('nodes'), desc.attrs.get('edges')
        if not isinstance(ns, (list, tuple)) or not isinstance(es, (list, tuple)):
            return None
        return (sorted(str(getattr(n, 'attrs', {}).get('id')) for n in ns),
                sorted((str(getattr(e, 'attrs', {}).get('source')), str(getattr(e, 'attrs', {}).get('target'))) for e in es),
                sorted(map(repr, desc.attrs.get('node_types') or {})) if isinstance(desc.attrs.get('node_types'), dict) else None)
    problems = []
    for o in enumerate_outcomes(run):
        if o[0] != 'value':
            problems.append(f'generate() fails for a buildable DAG: {o[1]}')
            continue
        first, second, graph = o[1]
        a, b = shape(first), shape(second)
        if a is None:
            raise AnalysisError('generate() does not return a description with node and edge lists (VW-10 undecided)')
        if a[0] != sorted(graph_nodes):
            problems.append(f'node entries {a[0]} for the DAG nodes {sorted(graph_nodes)}')
        if a[1] != sorted((str(u), str(v)) for u, v in edges):
            problems.append(f'edge entries {a[1]} for the DAG edges {sorted(edges)}')
        if b != a:
            problems.append(f'a second generate() on the same object differs from the first (nodes {len(b[0]) if b else "?"} vs {len(a[0])}): '
                            f'the description accumulates state between calls')
        if sorted(graph.attrs['nodes']) != sorted(graph_nodes) or set(graph.attrs['edges']) != set(edges) \
                or any(graph.attrs['edges'][e] != edges[e] for e in edges) or any(v for v in graph.attrs['nodes'].values()):
            problems.append('generating the description changed the DAG')
    cons = f'{gen.module.name}::{gen.qualname}::one entry per node and per edge, idempotent, the DAG untouched [generate-total]'
    if not problems:
        out.ok('VW-10', cons, p.loc(gen, gen.node), f'{len(graph_nodes)} nodes, {len(edges)} edges, two calls')
    else:
        out.bad('VW-10', cons, p.loc(gen, gen.node), 'the generated description is not a faithful projection of the DAG: '
                + '; '.join(sorted(set(problems))[:3]))
