"""VW-* (C20): the viewer graph description is a faithful projection of the DAG."""
from __future__ import annotations

import ast
from typing import Dict, List, Optional, Set, Tuple

from .. import sym
from ..cfg import Ev, Graph, find_path, reach
from ..effects import MUTATORS
from ..engine import Ctx
from ..guards import guards, parents, text
from ..paths import NORMAL_LABELS
from ..program import AnalysisError, ClassInfo, FuncEnv, FuncUnit, dotted, unparse
from ..report import Collector
from .common import loop_region


def _config_class(ctx: Ctx) -> ClassInfo:
    for ci in ctx.p.classes_by_name.get('GraphConfigImpl', []):
        return ci
    raise AnalysisError('GraphConfigImpl not found')


def rule_nodes_and_edges(ctx: Ctx, out: Collector) -> None:
    """VW-1: exactly one node entry per DAG node on every path.  VW-2: one edge entry per DAG edge, no filter."""
    p = ctx.p
    ci = _config_class(ctx)
    gen_nodes = None
    gen_edges = None
    for m in ci.methods.values():
        src = unparse(m.node)
        if 'graph.nodes' in src and 'schema.Node(' in src:
            gen_nodes = m
        if 'graph.edges' in src and 'schema.Edge(' in src:
            gen_edges = m
    if gen_nodes is None or gen_edges is None:
        raise AnalysisError('node / edge generators of the viewer not found (VW-1/2 anchors vanished)')
    g = ctx.graph(gen_nodes.fid, depth=1)
    loops = [lp for lp in g.events('loop') if lp.inst.parent is None and lp.info.get('comp') is None
             and unparse(lp.info['iter']).endswith('graph.nodes')]
    cons = f'{gen_nodes.module.name}::{gen_nodes.qualname}::one entry per node of graph.nodes'
    if len(loops) != 1:
        out.bad('VW-1', cons, p.loc(gen_nodes, gen_nodes.node), f'{len(loops)} loops over graph.nodes (expected exactly one, unfiltered)')
    else:
        lp = loops[0]
        region = loop_region(g, lp)
        appends = {m for m in region if g.evs[m].kind == 'call' and isinstance(g.evs[m].node.func, ast.Attribute)
                   and g.evs[m].node.func.attr == 'append' and g.evs[m].inst.parent is None}
        tsucc = [m for m, lab in g.succ[lp.id] if lab == 'T']
        problems = []
        if find_path(g, tsucc[0], {lp.id}, avoid=appends, labels=NORMAL_LABELS) is not None and tsucc[0] not in appends:
            problems.append('an iteration can add no entry')
        for a in appends:
            nxt = reach(g, [a], stop={lp.id}, labels=NORMAL_LABELS)
            if nxt & (appends - {a}):
                problems.append('an iteration can add two entries')
        leaves = [g.evs[m] for m in region if g.evs[m].kind in ('break', 'return', 'continue') and g.evs[m].inst.parent is None]
        if leaves:
            problems.append(f'the loop is left / skipped early ({leaves[0].kind})')
        # the entry carries the loop variable as id
        idok = True
        for a in appends:
            call = g.evs[a].node
            node_ctor = call.args[0] if call.args else None
            if isinstance(node_ctor, ast.Call):
                kws = {k.arg: k.value for k in node_ctor.keywords}
                if not (isinstance(kws.get('id'), ast.Name) and kws['id'].id in {x.id for x in ast.walk(lp.info['target']) if isinstance(x, ast.Name)}):
                    idok = False
        if not idok:
            problems.append('an entry does not carry the DAG node id')
        # returned list is the appended list
        if not problems:
            out.ok('VW-1', cons, lp.where(), f'{len(appends)} append sites, exactly one on every path of an iteration')
        else:
            out.bad('VW-1', cons, lp.where(), 'the node list of the graph description is not one entry per DAG node: ' + '; '.join(sorted(set(problems))))
    # virtual / real classification
    src = unparse(gen_nodes.node)
    cons = f'{gen_nodes.module.name}::{gen_nodes.qualname}::synthetic nodes are virtual and typed by prefix, real nodes carry declared data'
    ok = 'is_virtual=True' in src and 'by_prefix(' in src and 'is_virtual=False' in src and 'node.node_type' in src \
        and 'node.name' in src and 'getdoc' in src
    if ok:
        out.ok('VW-1', cons, p.loc(gen_nodes, gen_nodes.node), 'virtual: NodeType.by_prefix(id); real: node_type, name, verbose_name, doc')
    else:
        out.bad('VW-1', cons, p.loc(gen_nodes, gen_nodes.node), 'node entries do not distinguish synthetic (virtual, typed by id prefix) from '
                                                                'real nodes (declared name, type, documentation)')
    # real nodes are described by the attributes of the DAG's own node object
    node_var = None
    for n_ in ast.walk(gen_nodes.node):
        if isinstance(n_, ast.Assign) and isinstance(n_.targets[0], ast.Name) and isinstance(n_.value, ast.Call) \
                and ('_get_node' in unparse(n_.value.func) or 'node_map' in unparse(n_.value.func)):
            node_var = n_.targets[0].id
    cons = f'{gen_nodes.module.name}::{gen_nodes.qualname}::real node entries carry the attributes of the DAG node itself'
    if node_var is None:
        raise AnalysisError('the node object of the DAG is not looked up in the node generator (VW-1 anchor vanished)')
    problems = []
    found_attrs = False
    for c in ast.walk(gen_nodes.node):
        if isinstance(c, ast.Call) and unparse(c.func).endswith('NodeAttributes'):
            found_attrs = True
            kws = {k.arg: k.value for k in c.keywords}
            for fld in ('name', 'verbose_name'):
                v = kws.get(fld)
                if not (isinstance(v, ast.Attribute) and v.attr == fld and isinstance(v.value, ast.Name) and v.value.id == node_var):
                    problems.append(f'{fld}={unparse(v) if v is not None else None}')
        if isinstance(c, ast.Call) and unparse(c.func).endswith('schema.Node'):
            kws = {k.arg: k.value for k in c.keywords}
            if 'data' in kws:
                v = kws.get('type')
                if not (isinstance(v, ast.Attribute) and v.attr == 'node_type' and isinstance(v.value, ast.Name) and v.value.id == node_var):
                    problems.append(f'type={unparse(v) if v is not None else None}')
    if not found_attrs:
        problems.append('no NodeAttributes entry')
    if not problems:
        out.ok('VW-1', cons, p.loc(gen_nodes, gen_nodes.node), f'name, verbose_name, type read from {node_var} = self._get_node(node_id)')
    else:
        out.bad('VW-1', cons, p.loc(gen_nodes, gen_nodes.node), f'a real node is not described by its own declared attributes '
                                                                f'({", ".join(problems)} instead of {node_var}.<attr>): nodes built from a '
                                                                f'generic class with their own name are shown with the template\'s name')
    # ---- VW-2
    cons = f'{gen_edges.module.name}::{gen_edges.qualname}::one entry per edge of graph.edges, unfiltered'
    comps = [n for n in ast.walk(gen_edges.node) if isinstance(n, (ast.ListComp, ast.GeneratorExp))]
    fors = [n for n in ast.walk(gen_edges.node) if isinstance(n, ast.For)]
    ok = False
    detail = 'no comprehension / loop over graph.edges'
    for c in comps:
        if len(c.generators) == 1 and unparse(c.generators[0].iter).endswith('graph.edges'):
            gen = c.generators[0]
            names = [x.id for x in ast.walk(gen.target) if isinstance(x, ast.Name)]
            elt = c.elt
            if gen.ifs:
                detail = 'edges are filtered'
            elif isinstance(elt, ast.Call) and unparse(elt.func).endswith('Edge'):
                kws = {k.arg: unparse(k.value) for k in elt.keywords}
                if len(names) == 2 and kws.get('source') == names[0] and kws.get('target') == names[1]:
                    ok = True
                else:
                    detail = f'Edge({kws}) does not map (source, target) of the DAG edge'
    if ok:
        out.ok('VW-2', cons, p.loc(gen_edges, gen_edges.node), 'Edge(source=u, target=v) for (u, v) in graph.edges')
    else:
        out.bad('VW-2', cons, p.loc(gen_edges, gen_edges.node), f'the edge list of the graph description is not one entry per DAG dependency: {detail}')
    # edge id unique: derived from both endpoints
    for sc in p.classes_by_name.get('Edge', []):
        if sc.module.name.endswith('visualization.schema'):
            post = sc.methods.get('__post_init__')
            cons = f'{sc.module.name}::Edge::id is derived from both endpoints'
            ptxt = unparse(post.node) if post is not None else ''
            if 'self.source' in ptxt and 'self.target' in ptxt and 'self.id' in ptxt:
                out.ok('VW-2', cons, p.loc(sc.module, sc.node), ptxt.split('\n')[-1].strip()[:80])
            else:
                out.bad('VW-2', cons, p.loc(sc.module, sc.node), 'the edge id is not a function of (source, target): ids are not unique')


def rule_pure(ctx: Ctx, out: Collector) -> None:
    """VW-3: generating the description does not write to the DAG."""
    p = ctx.p
    ci = _config_class(ctx)
    n = 0
    bad = []
    for m in ci.methods.values():
        for node in ast.walk(m.node):
            tgt = None
            if isinstance(node, (ast.Assign, ast.AugAssign, ast.AnnAssign)):
                tgts = node.targets if isinstance(node, ast.Assign) else [node.target]
                for t in tgts:
                    if isinstance(t, (ast.Subscript, ast.Attribute)):
                        n += 1
                        if '_dag' in unparse(t.value) or _alias_of_dag(m, t.value):
                            bad.append((m, node))
            if isinstance(node, ast.Delete):
                for t in node.targets:
                    if '_dag' in unparse(t):
                        bad.append((m, node))
            if isinstance(node, ast.Call) and isinstance(node.func, ast.Attribute) and node.func.attr in MUTATORS | {'update', 'clear'}:
                n += 1
                if '_dag' in unparse(node.func.value) or _alias_of_dag(m, node.func.value):
                    bad.append((m, node))
            if isinstance(node, ast.Call) and (dotted(node.func) or '').split('.')[-1] in ('set_node_attributes', 'set_edge_attributes', 'setattr', 'relabel_nodes'):
                if node.args and ('_dag' in unparse(node.args[0]) or _alias_of_dag(m, node.args[0])):
                    bad.append((m, node))
    cons = f'{ci.module.name}::{ci.name}::no write rooted in self._dag'
    if not bad:
        out.ok('VW-3', cons, p.loc(ci.module, ci.node), f'{n} write sites examined, none rooted in the DAG')
    else:
        m, node = bad[0]
        out.bad('VW-3', cons, p.loc(m, node), f'{m.name} writes to the DAG while generating its description ({unparse(node)[:70]}): '
                                              f'visualising a DAG changes what later runs see')


def _alias_of_dag(m: FuncUnit, expr: ast.AST) -> bool:
    root = expr
    while isinstance(root, (ast.Attribute, ast.Subscript, ast.Call)):
        root = root.value if not isinstance(root, ast.Call) else root.func
    if not isinstance(root, ast.Name) or root.id == 'self':
        return False
    for n in ast.walk(m.node):
        if isinstance(n, ast.Assign) and any(isinstance(t, ast.Name) and t.id == root.id for t in n.targets):
            v = unparse(n.value)
            if '_dag' in v and not any(f in v for f in ('.copy(', 'deepcopy(', 'list(', 'dict(')) and 'node_map.get' not in v \
                    and '_get_node' not in v:
                return True
    return False


JSON_CLOSED = {'str', 'int', 'bool', 'float', 'None'}


def rule_schema(ctx: Ctx, out: Collector) -> None:
    """VW-4: the schema consists of JSON-closed field types and serialises with dataclasses.asdict."""
    p = ctx.p
    mod = None
    for m in p.modules.values():
        if m.name.endswith('visualization.schema'):
            mod = m
    if mod is None:
        raise AnalysisError('viewer schema module not found')
    classes = {ci.name: ci for ci in p.classes.values() if ci.module is mod}
    for name, ci in sorted(classes.items()):
        bad = []
        for f, (ann, default) in ci.fields.items():
            if ann is None:
                continue
            if not _json_closed(ann, set(classes)):
                bad.append(f'{f}: {unparse(ann)}')
        cons = f'{mod.name}::{name}::field types are JSON-closed'
        if 'dataclass' not in ci.decorators:
            bad.append('not a dataclass')
        if not bad:
            out.ok('VW-4', cons, p.loc(mod, ci.node), f'{len(ci.fields)} fields')
        else:
            out.bad('VW-4', cons, p.loc(mod, ci.node), f'{name} has fields that do not serialise to JSON: {", ".join(bad)}')
    gc = classes.get('GraphConfig')
    if gc is None or 'as_dict' not in gc.methods:
        raise AnalysisError('GraphConfig.as_dict not found')
    ad = gc.methods['as_dict']
    ret = sym.simple_return(ad)
    cons = f'{mod.name}::GraphConfig.as_dict::is dataclasses.asdict(self)'
    if isinstance(ret, ast.Call) and (dotted(ret.func) or '').split('.')[-1] == 'asdict' and len(ret.args) == 1 and unparse(ret.args[0]) == 'self':
        out.ok('VW-4', cons, p.loc(ad, ad.node), 'asdict(self)')
    else:
        out.bad('VW-4', cons, p.loc(ad, ad.node), 'as_dict does not return dataclasses.asdict(self): the description is not the full projection')
    # generate() fills all four parts from the three generators
    ci = _config_class(ctx)
    gen = ci.methods.get('generate')
    if gen is None:
        raise AnalysisError('GraphConfigImpl.generate not found')
    gtxt = unparse(gen.node)
    cons = f'{gen.module.name}::{gen.qualname}::nodes, edges and node_types come from the three generators'
    want = ['nodes=self._generate_nodes()', 'edges=self._generate_edges()', 'node_types=self._generate_node_types(']
    if all(w in gtxt for w in want):
        out.ok('VW-4', cons, p.loc(gen, gen.node), 'GraphConfig(nodes=..., edges=..., node_types=..., attributes=...)')
    else:
        out.bad('VW-4', cons, p.loc(gen, gen.node), 'generate() does not assemble the description from the node / edge / node-type generators')


def _json_closed(ann: ast.AST, classes: Set[str]) -> bool:
    if isinstance(ann, ast.Constant):
        return ann.value is None or isinstance(ann.value, str) and ann.value in classes
    if isinstance(ann, ast.Name):
        return ann.id in JSON_CLOSED or ann.id in classes
    if isinstance(ann, ast.Attribute):
        return ann.attr in JSON_CLOSED
    if isinstance(ann, ast.Subscript):
        head = (dotted(ann.value) or '').split('.')[-1]
        args = ann.slice.elts if isinstance(ann.slice, ast.Tuple) else [ann.slice]
        if head in ('Optional', 'List', 'list'):
            return all(_json_closed(a, classes) for a in args)
        if head in ('Dict', 'dict'):
            return len(args) == 2 and isinstance(args[0], ast.Name) and args[0].id == 'str' and _json_closed(args[1], classes)
        if head == 'Union':
            return all(_json_closed(a, classes) for a in args)
    return False


def rule_types(ctx: Ctx, out: Collector) -> None:
    """VW-5: every synthetic id the builder generates starts with a NodeType value, and by_prefix scans all
    members.  VW-6: no partial Enum(value) conversion of a declared node attribute without a guard."""
    p = ctx.p
    # ---- VW-5
    from .bd import _traverse_function
    trav = _traverse_function(ctx)
    members = set()
    for ci in p.classes_by_name.get('NodeType', []):
        if ci.module.name.endswith('node.enums'):
            members = {f for f, (a, d) in ci.fields.items() if isinstance(d, ast.Constant)}
            nt = ci
    if not members:
        raise AnalysisError('NodeType enum not found')
    n = 0
    for node in ast.walk(trav.node):
        if isinstance(node, ast.Call) and (dotted(node.func) or '').split('.')[-1] == 'generate_node_id' and node.args:
            n += 1
            pre = node.args[0]
            ok = False
            first = pre
            if isinstance(pre, ast.JoinedStr) and pre.values and isinstance(pre.values[0], ast.FormattedValue):
                first = pre.values[0].value
            t = unparse(first)
            if t.startswith('NodeType.') and t.endswith('.value') and t.split('.')[1] in members:
                ok = True
            cons = f'{trav.module.name}::{trav.qualname}::{unparse(node)[:60]} [prefix is a NodeType value]'
            if ok:
                out.ok('VW-5', cons, p.loc(trav, node), f'prefix starts with {t}')
            else:
                out.bad('VW-5', cons, p.loc(trav, node), f'the synthetic node id prefix {unparse(pre)} does not start with a NodeType value: '
                                                         f'NodeType.by_prefix raises for this node and no description can be generated')
    if n < 2:
        raise AnalysisError('synthetic id generation not found in the builder (VW-5 anchors vanished)')
    bp = nt.methods.get('by_prefix')
    cons = f'{nt.module.name}::NodeType.by_prefix::scans every member with startswith'
    if bp is None:
        raise AnalysisError('NodeType.by_prefix not found')
    btxt = unparse(bp.node)
    loops = [x for x in ast.walk(bp.node) if isinstance(x, ast.For)]
    if loops and unparse(loops[0].iter) == 'cls' and 'startswith' in btxt and not any(isinstance(x, (ast.Break, ast.Continue)) for x in ast.walk(bp.node)):
        out.ok('VW-5', cons, p.loc(bp, bp.node), 'for item in cls: if value.startswith(item): return')
    else:
        out.bad('VW-5', cons, p.loc(bp, bp.node), 'by_prefix does not test every member of NodeType as a prefix')
    # ---- VW-6
    ci = _config_class(ctx)
    hits = _partial_enum_conversions(ci)
    fixture = ast.parse('class X:\n    def f(self, node):\n        return NodeType(node.node_type)\n')
    fake = type('F', (), {})()
    if not _scan_partial(fixture):
        raise AnalysisError('VW-6 self-check failed: the detector does not match its positive fixture')
    cons = f'{ci.module.name}::{ci.name}::no unguarded Enum(value) conversion of a declared node attribute'
    if not hits:
        out.ok('VW-6', cons, p.loc(ci.module, ci.node), 'none (detector checked against its positive fixture)')
    else:
        m, node = hits[0]
        out.bad('VW-6', cons, p.loc(m, node), f'{unparse(node)} converts a node-class attribute with a partial Enum constructor: the custom '
                                              f'node types shown in the documentation raise ValueError and no description is generated')


def _scan_partial(tree: ast.AST) -> List[ast.Call]:
    out = []
    for n in ast.walk(tree):
        if isinstance(n, ast.Call) and isinstance(n.func, ast.Name) and n.func.id in ('NodeType', 'NodeTag', 'DataFormat') and len(n.args) == 1:
            a = n.args[0]
            if isinstance(a, ast.Attribute) and isinstance(a.value, ast.Name) and a.value.id not in ('cls', 'self', 'NodeType'):
                out.append(n)
    return out


def _partial_enum_conversions(ci: ClassInfo) -> List[Tuple[FuncUnit, ast.Call]]:
    out = []
    for m in ci.methods.values():
        for c in _scan_partial(m.node):
            # inside a try that catches ValueError?
            pm = parents(m.node)
            cur = c
            caught = False
            while id(cur) in pm:
                par = pm[id(cur)]
                if isinstance(par, ast.Try) and cur in par.body:
                    for h in par.handlers:
                        if h.type is None or any(x in unparse(h.type) for x in ('ValueError', 'Exception')):
                            caught = True
                cur = par
            if not caught:
                out.append((m, c))
    return out
