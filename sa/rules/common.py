"""Helpers shared by the rule modules: publish events, notification points, phased searches."""
from __future__ import annotations

import ast
from dataclasses import dataclass
from typing import Dict, Iterable, List, Optional, Tuple

from .. import sym
from ..cfg import Ev, Graph, describe_path, find_path, reach
from ..engine import Ctx
from ..paths import EXC_LABELS, NORMAL_LABELS, ALL_LABELS, Search
from ..program import AnalysisError, ClassInfo, FuncEnv, norm_stmt
from ..roles import access_path, store_field


@dataclass
class Publish:
    ev: Ev                 # the primitive store event
    field: str             # node_results / switch_results / processed_nodes / ...
    key: tuple             # key term in root terms
    value: tuple           # value term in root terms
    value_expr: Optional[ast.AST]
    value_inst: object
    site: Ev               # outermost call event in the root activation chain that leads here (for reports)
    home: Ev = None        # the call statement (outside the storage classes) that performs the publish


def _strip_data(t):
    # UserDict: self.data[key] = value is the same store
    if isinstance(t, tuple) and t and t[0] == 'attr' and t[2] == 'data':
        return t[1]
    return t


def storage_fields(ctx: Ctx) -> List[str]:
    st = ctx.storage_class()
    return list(st.fields)


def publishes(ctx: Ctx, g: Graph, fields: Optional[Iterable[str]] = None) -> List[Publish]:
    """Primitive writes `<storage>.<field>[key] = value` (through HiddenDict.set or directly)."""
    known = set(storage_fields(ctx))
    want = set(fields) if fields is not None else known
    out = []
    for ev in g.events('store'):
        if ev.info.get('how') != 'item':
            continue
        tgt = ev.info['target']
        base = _strip_data(sym.term(ctx.p, tgt.value, ev.inst))
        fld = store_field(base)
        if fld not in known or fld not in want:
            continue
        # the storage object must be the run's storage: <root self>.<something>.<field>
        key = sym.term(ctx.p, tgt.slice, ev.inst)
        vexpr, vinst = sym.resolve_params_only(ctx.p, ev.info['value'], ev.inst)
        value = sym.term(ctx.p, ev.info['value'], ev.inst)
        out.append(Publish(ev, fld, key, value, vexpr, vinst, outer_site(g, ev), home_site(ctx, g, ev)))
    return out


def storage_classes(ctx: Ctx) -> set:
    st = ctx.storage_class()
    out = {st}
    for name, (ann, default) in st.fields.items():
        if ann is not None:
            t = ctx.p.ann_to_type(ann, st.module)
            if t[0] == 'class':
                out.add(t[1])
    return out


def home_site(ctx: Ctx, g: Graph, ev: Ev) -> Ev:
    """The call event, outside the storage classes, through which the primitive `ev` is performed."""
    stc = storage_classes(ctx)
    inst = ev.inst
    home = ev
    while inst is not None and inst.unit.cls in stc and inst.parent is not None:
        for cand in g.evs:
            if cand.kind == 'call' and cand.info.get('callee') is inst:
                home = cand
                break
        inst = inst.parent
    return home


_marker_fields: Dict[int, set] = {}


def hidden_marker_fields(ctx: Ctx) -> set:
    """Attribute names of the hiding dictionaries that hold the set of hidden keys: the instance attributes the constructor
    creates as an empty set (whatever they are called)."""
    if id(ctx) in _marker_fields:
        return _marker_fields[id(ctx)]
    out = set()
    for ci in storage_classes(ctx):
        if ci is ctx.storage_class():
            continue
        def _is_set(v):
            return (isinstance(v, ast.Call) and isinstance(v.func, ast.Name) and v.func.id in ('set', 'frozenset')) \
                or isinstance(v, (ast.Set, ast.SetComp))
        # a class-level set is the same kind of marker (shared by every instance - the sharing rules judge that)
        out |= {name for name, (ann, default) in ci.fields.items() if default is not None and _is_set(default)}
        init = ci.methods.get('__init__')
        if init is None:
            continue
        # what the constructor, interpreted, leaves on the object as a set (whichever helper produced it)
        try:
            from ..absint import AObj as _AObj, Interp as _Interp, Oracle as _Oracle, reset_world as _reset
            _reset()
            probe = _AObj(ci, {'data': {}})
            _Interp(ctx.p, _Oracle()).call_unit(init, [], {}, probe)
            out |= {name for name, v in probe.attrs.items() if name != 'data' and isinstance(v, (set, frozenset))}
        except Exception:          # the syntactic reading below still applies
            pass
        for n in ast.walk(init.node):
            if isinstance(n, (ast.Assign, ast.AnnAssign)):
                tgts = n.targets if isinstance(n, ast.Assign) else [n.target]
                v = n.value
                is_set = (isinstance(v, ast.Call) and isinstance(v.func, ast.Name) and v.func.id in ('set', 'frozenset')) \
                    or isinstance(v, (ast.Set, ast.SetComp))
                for t_ in tgts:
                    if is_set and isinstance(t_, ast.Attribute) and isinstance(t_.value, ast.Name) and t_.value.id == 'self':
                        out.add(t_.attr)
    if not out:
        raise AnalysisError('the set of hidden keys of the hiding dictionary not found (HIDE anchor vanished)')
    _marker_fields[id(ctx)] = out
    return out


def hides(ctx: Ctx, g: Graph) -> List[Tuple[Ev, str, tuple]]:
    """`<storage>.<field>.<hidden keys>.add(key)` primitives -> (event, field, key term)."""
    known = set(storage_fields(ctx))
    markers = hidden_marker_fields(ctx)
    out = []
    for ev in g.events('call'):
        c = ev.node
        if not (isinstance(c, ast.Call) and isinstance(c.func, ast.Attribute) and c.func.attr == 'add'):
            continue
        recv = sym.term(ctx.p, c.func.value, ev.inst)
        if not (isinstance(recv, tuple) and recv[0] == 'attr' and recv[2] in markers):
            continue
        fld = store_field(recv[1])
        if fld in known and c.args:
            out.append((ev, fld, sym.term(ctx.p, c.args[0], ev.inst)))
            continue
        # the store is an element of a table of stores (`for store in self._stores(): store.hide(k)`): one HIDE per listed store
        inner = recv[1]
        if isinstance(inner, tuple) and inner and inner[0] == 'elem' and c.args:
            for f_ in _store_table(ctx, inner[1]):
                if f_ in known:
                    out.append((ev, f_, sym.term(ctx.p, c.args[0], ev.inst)))
    return out


def _store_table(ctx: Ctx, t) -> List[str]:
    """Fields named by a table of stores: a tuple / list display of `self.<field>` terms, or what an in-repo function returns."""
    if not isinstance(t, tuple) or not t:
        return []
    if t[0] in ('tuple', 'list') and len(t) > 1 and isinstance(t[1], (tuple, list)):
        return [store_field(x) for x in t[1] if store_field(x)]
    if t[0] == 'call' and isinstance(t[1], str) and t[1] in ctx.p.functions:
        fn = ctx.p.functions[t[1]]
        rets = [n for n in ast.walk(fn.node) if isinstance(n, ast.Return) and n.value is not None]
        out = []
        for r in rets:
            if isinstance(r.value, (ast.Tuple, ast.List)):
                for e in r.value.elts:
                    if isinstance(e, ast.Attribute) and isinstance(e.value, ast.Name) and e.value.id in ('self', 'cls'):
                        out.append(e.attr)
        return out
    return []


def outer_site(g: Graph, ev: Ev) -> Ev:
    """The call event in the root activation through which `ev` is reached (ev itself if in root)."""
    inst = ev.inst
    site = ev
    while inst.parent is not None:
        call_node = inst.call
        parent = inst.parent
        # find the call event of that activation
        for cand in g.evs:
            if cand.kind == 'call' and cand.info.get('callee') is inst:
                site = cand
                break
        inst = parent
    return site


_body_ids: Dict[int, set] = {}


def _loop_body_ids(lp: Ev) -> set:
    node = lp.node
    key = id(node)
    if key not in _body_ids:
        ids = set()
        if isinstance(node, (ast.For, ast.AsyncFor, ast.While)):
            for st in node.body:
                for x in ast.walk(st):
                    ids.add(id(x))
        elif isinstance(node, ast.comprehension):
            comp = lp.info.get('comp')
            if comp is not None:
                for x in ast.walk(comp):
                    ids.add(id(x))
        _body_ids[key] = ids
    return _body_ids[key]


def in_loop_body(ev: Ev, lp: Ev) -> bool:
    """ev is executed by the body of loop `lp` (syntactically inside it, or in an activation called
    from inside it)."""
    ids = _loop_body_ids(lp)
    inst = ev.inst
    node = ev.node
    while inst is not None and inst is not lp.inst:
        node = inst.call
        inst = inst.parent
    if inst is None or node is None:
        return False
    return id(node) in ids


def loop_region(g: Graph, lp: Ev, labels=NORMAL_LABELS) -> set:
    tsucc = [m for m, lab in g.succ[lp.id] if lab == 'T']
    r = reach(g, tsucc, stop={lp.id}, labels=labels) | set(tsucc)
    r.discard(lp.id)
    return {n for n in r if in_loop_body(g.evs[n], lp)}


def notify_points(ctx: Ctx, g: Graph) -> List[Tuple[int, tuple, str]]:
    """(event id, key term, how) for every notification: a direct notify_all call ('call'), or the
    header of a loop that notifies every element of its iterable ('loop': key = elem(iter))."""
    pts: List[Tuple[int, tuple, str]] = []
    direct: Dict[int, tuple] = {}
    for ev in g.events('call'):
        n = ctx.roles.notify(ev)
        if n is not None and n[2] == 'all':
            direct[ev.id] = n[0]
            pts.append((ev.id, n[0], 'call'))
    for lp in g.events('loop'):
        if lp.info.get('comp') is not None:
            continue
        key = ('elem', sym.term(ctx.p, lp.info['iter'], lp.inst))
        tsucc = [m for m, lab in g.succ[lp.id] if lab == 'T']
        if not tsucc:
            continue
        region = loop_region(g, lp)
        if any(g.evs[n].kind in ('return', 'break', 'raise') and g.evs[n].inst is lp.inst for n in region):
            continue
        matching = {n for n, k in direct.items() if k == key}
        if not matching:
            continue
        # every iteration passes a matching notification
        first = tsucc[0]
        if first in matching or find_path(g, first, {lp.id}, avoid=matching, labels=NORMAL_LABELS) is None:
            pts.append((lp.id, key, 'loop'))
    return pts


def is_desc_key(ctx: Ctx, k, K) -> bool:
    """k == elem(DESC(K)) for a descendants function DESC."""
    if not (isinstance(k, tuple) and k[0] == 'elem'):
        return False
    inner = k[1]
    if not (isinstance(inner, tuple) and inner[0] == 'call'):
        return False
    fids = {u.fid for u in ctx.desc_functions()}
    if inner[1] not in fids:
        return False
    return bool(inner[2]) and inner[2][-1] == K


def is_recurrent_class(ctx: Ctx, expr: ast.AST, inst) -> bool:
    env = FuncEnv.of(ctx.p, inst.unit)
    elts = expr.elts if isinstance(expr, ast.Tuple) else [expr]
    for e in elts:
        t = env.type_of(e)
        if t[0] == 'type' and t[1][0] == 'class' and t[1][1].name == 'Recurrent':
            return True
    return False


def marker_fact(ctx: Ctx, pub: Publish, facts) -> bool:
    """True if the facts establish that the published value is a Recurrent marker."""
    if not isinstance(pub.value_expr, ast.Name):
        return False
    name = pub.value_expr.id
    iid = pub.value_inst.iid
    for k, v in facts:
        if k[0] == 't' and k[1] == iid and v is True and name in k[3] and k[2].startswith('isinstance('):
            try:
                call = ast.parse(k[2], mode='eval').body
            except SyntaxError:
                continue
            if isinstance(call, ast.Call) and len(call.args) == 2 and isinstance(call.args[0], ast.Name) \
                    and call.args[0].id == name and is_recurrent_class(ctx, call.args[1], pub.value_inst):
                return True
    return False


def after_event_search(ctx: Ctx, g: Graph, via: int, barrier: set, goals: set, labels=EXC_LABELS,
                       prune_at_via=None, init_facts=frozenset(), forbid=None):
    """Is there a feasible path  entry ->* via ->* goal  that passes no `barrier` event after `via`?
    Returns the path (list of event ids) or None."""
    s = Search(ctx.p, g, labels)

    def step(ev: Ev, state, facts):
        if forbid is not None and forbid(ev, state, facts):
            return None
        if state == 0:
            if ev.id == via:
                if prune_at_via is not None and prune_at_via(facts):
                    return None
                return 1
            return 0
        if ev.id in barrier:
            return None
        return 1

    def goal(ev: Ev, state, facts):
        return state == 1 and ev.id in goals

    res = s.run([(g.entry, 0, init_facts)], step, goal)
    return res[0] if res else None


def path_text(g: Graph, path: List[int]) -> List[str]:
    return describe_path(g, path)


def awaited_in_frame(ctx: Ctx, g: Graph, ev: Ev, depth: int = 0) -> bool:
    """The awaitable a call creates is awaited by the frame that created it: directly, or the call is what a synchronous helper
    returns and the caller awaits the helper's call (the helper only builds the awaitable)."""
    if ev.info.get('awaited'):
        return True
    inst = ev.inst
    if depth > 3 or inst.parent is None or inst.unit.is_async:
        return False
    env = FuncEnv.of(ctx.p, inst.unit)
    returned = False
    for n in env.own_nodes():
        if isinstance(n, ast.Return) and n.value is not None:
            v, _ = sym.resolve_value(ctx.p, n.value, inst)
            if v is ev.node or n.value is ev.node:
                returned = True
    if not returned:
        return False
    for cand in g.evs:
        if cand.kind == 'call' and cand.info.get('callee') is inst:
            return awaited_in_frame(ctx, g, cand, depth + 1)
    return False


def lock_world(ctx: Ctx, record):
    """The lock manager of a world: an object of the repo's lock class whose *primitives* - the methods that touch a condition or
    an event themselves (notify_all, Event.set, wait_for, Event.wait) - are replaced by `record(kind, name)`; every other method of
    the class (helpers built on the primitives) is interpreted as written.  -> (object, stubs by function id)."""
    from ..absint import AObj
    p = ctx.p
    kinds = {'notify_all': 'unlock_condition', 'notify': 'unlock_condition', 'set': 'unlock_event', 'wait_for': 'wait_for_condition',
             'wait': 'wait_for_event'}
    lock_cls = None
    for ci in p.classes.values():
        if ci.module.name.startswith('ml_pipeline_engine') and any(
                isinstance(n, ast.Call) and isinstance(n.func, ast.Attribute) and n.func.attr == 'notify_all'
                for m in ci.methods.values() for n in ast.walk(m.node)):
            lock_cls = ci
            break
    if lock_cls is None:
        raise AnalysisError('the lock class (the class that notifies a condition) was not found')
    stubs = {}
    for m in lock_cls.methods.values():
        own = [n.func.attr for n in ast.walk(m.node) if isinstance(n, ast.Call) and isinstance(n.func, ast.Attribute)
               and n.func.attr in kinds and not (isinstance(n.func.value, ast.Name) and n.func.value.id in ('self', 'cls'))]
        if not own:
            continue
        kind = kinds[own[0]] if 'notify_all' not in own else 'unlock_condition'

        def prim(interp, a, k, s_, kind=kind):
            record(kind, a[0] if a else next(iter(k.values()), None))
            return None
        stubs[m.fid] = prim
    return AObj(lock_cls, {}, tag='lock-manager'), stubs
