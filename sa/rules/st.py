"""Rules decided by finite-domain abstract interpretation of the result store (absint.py):
RD-2 (readiness is strict), WK-g (finish predicates are total on final values), SW-4 / ST-1 (re-arming
resets every store readiness and routing read; publishing makes a result visible again)."""
from __future__ import annotations

import ast
from typing import Any, Dict, List, Optional, Tuple

from .. import sym
from ..absint import (AClass, AExt, AFunc, AObj, ARaise, Interp, Oracle, TOP, enumerate_outcomes, key_states, make_storage,
                      presence_of, value_token)
from ..cfg import Ev, Graph
from ..engine import Ctx
from ..program import AnalysisError, ClassInfo, FuncEnv, FuncUnit, dotted, unparse
from ..report import Collector
from .cc import launch_loops

FINAL = ('NONE', 'FALSY', 'TRUTHY')


def _dag_class(ctx: Ctx) -> Optional[ClassInfo]:
    for ci in ctx.p.classes_by_name.get('DiGraph', []):
        if ci.module.name.startswith('ml_pipeline_engine'):
            return ci
    return None


def _abstract_world(ctx: Ctx, contents: Dict[str, Dict[str, Tuple[str, Any]]], dag_nodes=('C', 'O'), dest='C', graph=None):
    p = ctx.p
    storage = make_storage(p, ctx.storage_class(), contents)
    dcls = _dag_class(ctx)
    adag = AObj(dcls, {'nodes': list(dag_nodes), 'dest': dest, 'source': 'I', 'is_oneof': TOP, 'is_recurrent': TOP,
                       'is_nested_oneof': TOP}, tag='dag')
    mgr_cls = ctx.manager_class()
    the_dag = AObj(('ext', 'DAG'), {'output_node': dest, 'input_node': 'I', 'graph': graph if graph is not None else TOP,
                                    'node_map': TOP}, tag='DAG')
    mgr = AObj(mgr_cls, {'dag': the_dag, 'ctx': TOP}, tag='manager')
    # per-instance fields of the manager
    for name, (ann, default) in mgr_cls.fields.items():
        t = p.ann_to_type(ann, mgr_cls.module) if ann is not None else None
        if t and t[0] == 'class' and t[1] is ctx.storage_class():
            mgr.attrs[name] = storage
        elif t and t[0] == 'seq':
            mgr.attrs[name] = set()
        elif t and t[0] == 'dict':
            mgr.attrs[name] = {}
    return mgr, storage, adag


def _env_for(ctx: Ctx, unit: FuncUnit, mgr: AObj, adag: AObj, key: str = 'C') -> dict:
    """Abstract environment of the activation that defines a predicate: self -> manager, variables of
    the dag class -> the abstract dag, every other local (node ids) -> the key token."""
    env: Dict[str, Any] = {'__unit__': unit, '__closure__': None, '__module__': unit.module, '__self__': mgr}
    fenv = FuncEnv.of(ctx.p, unit)
    dcls = _dag_class(ctx)
    for name in fenv.local_defs():
        t = fenv.name_type(name)
        if name == 'self':
            env[name] = mgr
        elif t[0] == 'class' and t[1] is dcls:
            env[name] = adag
        elif t[0] == 'class' and t[1] is ctx.manager_class():
            env[name] = mgr
        elif _used_as_dag(ctx, fenv, unit, name, dcls):
            env[name] = adag          # an un-annotated local (loop variable) that is handed on as a dag
        else:
            env[name] = key
    return env


def _used_as_dag(ctx: Ctx, fenv: FuncEnv, unit: FuncUnit, name: str, dcls) -> bool:
    """The local is passed to an in-repo function for a parameter annotated with the dag class."""
    for c in fenv.own_nodes():
        if not isinstance(c, ast.Call):
            continue
        cands = []
        for i, a in enumerate(c.args):
            if isinstance(a, ast.Name) and a.id == name:
                cands.append(('pos', i))
        for k in c.keywords:
            if k.arg is not None and isinstance(k.value, ast.Name) and k.value.id == name:
                cands.append(('kw', k.arg))
        if not cands:
            continue
        targets = [t[1] for t in fenv.resolve_call(c) if t[0] == 'func']
        # functools.partial(f, x): the parameters of f
        if not targets and c.args and (dotted(c.func) or '').split('.')[-1] == 'partial':
            inner = ast.Call(func=c.args[0], args=c.args[1:], keywords=c.keywords)
            targets = [t[1] for t in fenv.resolve_call(inner) if t[0] == 'func']
            cands = [('pos', i - 1) if kind == 'pos' else (kind, i) for kind, i in cands if kind != 'pos' or i >= 1]
        for tu in targets:
            a = tu.node.args
            params = [x for x in getattr(a, 'posonlyargs', []) + a.args]
            if tu.cls is not None and not tu.is_static and params:
                params = params[1:]
            for kind, i in cands:
                ann = None
                if kind == 'pos' and i < len(params):
                    ann = params[i].annotation
                elif kind == 'kw':
                    ann = next((x.annotation for x in params + a.kwonlyargs if x.arg == i), None)
                if ann is not None:
                    t = ctx.p.ann_to_type(ann, tu.module)
                    if t and t[0] == 'class' and t[1] is dcls:
                        return True
    return False


def _eval_bound(interp: Interp, b, env_of) -> Any:
    if b[0] == 'expr':
        return interp.eval(b[1], env_of(b[2].unit))
    raise AnalysisError('abstract interpretation: predicate argument is not an expression')


def _run_pred(ctx: Ctx, pred, contents, key='C', dag_nodes=('C', 'O'), stubs=None, graph_spec=None, dag_flags=None) -> List:
    unit, pre_bound, lexical, extra = pred

    def run(oracle: Oracle):
        graph = None
        if graph_spec is not None:
            nodes, edges = graph_spec
            graph = AObj(('ext', 'networkx.DiGraph'), {'nodes': {k: dict(v) for k, v in nodes.items()},
                                                       'edges': {k: dict(v) for k, v in edges.items()}})
        mgr, storage, adag = _abstract_world(ctx, contents, dag_nodes, key, graph=graph)
        if dag_flags:
            adag.attrs.update(dag_flags)
        if graph_spec is not None:
            # the sub-dag the predicate is evaluated for: the filtered view (no case_branch edges) restricted to its nodes
            nodes, edges = graph_spec
            adag.attrs['nodes'] = {k: dict(nodes.get(k, {})) for k in dag_nodes}
            adag.attrs['edges'] = {k: dict(v) for k, v in edges.items()
                                   if k[0] in dag_nodes and k[1] in dag_nodes and 'case_branch' not in v}
        interp = Interp(ctx.p, oracle, stubs=stubs)
        envs: Dict[int, dict] = {}

        def env_of(u: FuncUnit) -> dict:
            if id(u) not in envs:
                envs[id(u)] = _env_for(ctx, u, mgr, adag, key)
            return envs[id(u)]

        args = [_eval_bound(interp, b, env_of) for b in extra]
        kwargs = {}
        self_obj = None
        params = unit.params()
        for name, b in pre_bound.items():
            v = _eval_bound(interp, b, env_of)
            if params and name == params[0] and unit.cls is not None and not unit.is_static:
                self_obj = v
            else:
                kwargs[name] = v
        closure = env_of(lexical.unit) if lexical is not None else None
        if isinstance(unit.node, ast.Lambda) and unit.parent is not None and closure is None:
            closure = env_of(unit.parent)
        v = interp.call_unit(unit, args, kwargs, self_obj, closure)
        return interp.truth(v)

    return enumerate_outcomes(run)


def _waits(ctx: Ctx) -> List[Tuple[Graph, Ev]]:
    out = []
    seen = set()
    for fid, g in ctx.run_graphs().items():
        for ev in g.events('call'):
            if ctx.roles.wait(ev) is None:
                continue
            site = ev
            # the wait_for primitive sits in a wrapper; the waiter is the call of the wrapper in a manager method
            inst = ev.inst
            while inst.parent is not None and inst.unit.cls is not ctx.manager_class():
                site_call = inst.call
                inst = inst.parent
            key = (inst.unit.fid, getattr(inst.call if inst is not ev.inst else ev.node, 'lineno', 0), ev.lineno,
                   id(ev.info.get('pred') and ev.info['pred'][0]))
            pred = ev.info.get('pred')
            ident = (pred[0].fid if pred else None, tuple(unparse(b[1]) for b in (pred[3] if pred else []) if b[0] == 'expr'))
            if ident in seen:
                continue
            seen.add(ident)
            out.append((g, ev))
    return out


def _waiter_name(ctx: Ctx, g: Graph, ev: Ev) -> str:
    """module::function of the manager method that issues the wait + the predicate text."""
    inst = ev.inst
    call = ev.node
    while inst.parent is not None and inst.unit.cls is not ctx.manager_class():
        call = inst.call
        inst = inst.parent
    pred = ev.info.get('pred')
    ptxt = ''
    if pred:
        unit, pre, lex, extra = pred
        ptxt = unit.qualname + '(' + ', '.join(unparse(b[1]) for b in extra if b[0] == 'expr') + ')'
    return f'{inst.unit.module.name}::{inst.unit.qualname}::wait until {ptxt}'


def rule_finish_predicates(ctx: Ctx, out: Collector) -> None:
    """WK-g: the predicate of every waiter that waits for *a node's result* is true for every final
    value (None, falsy, truthy) once it is visible and false while it is absent or hidden."""
    n = 0
    loops = set()
    for fid, g in ctx.run_graphs().items():
        for lp, region, wait in launch_loops(ctx, g):
            if wait is not None:
                loops.add(id(wait.node))
    for g, ev in _waits(ctx):
        pred = ev.info.get('pred')
        if pred is None:
            raise AnalysisError(f'wait predicate at {ev.where()} cannot be resolved')
        if id(ev.node) in loops and _is_launch_wait(ctx, g, ev):
            continue          # readiness (RD-2)
        name = _waiter_name(ctx, g, ev)
        n += 1
        table = {}
        problems = []
        for pres, vc in key_states():
            val = value_token(ctx.p, vc) if vc else None
            contents = {'node_results': {'C': (pres, val)}} if pres != 'absent' else {'node_results': {}}
            try:
                outcomes = _run_pred(ctx, pred, contents)
            except AnalysisError as ex:
                raise AnalysisError(f'{name}: {ex}')
            vals = sorted({o[1] if o[0] == 'value' else f'raises {o[1]}' for o in outcomes}, key=str)
            table[f'{pres}:{vc}'] = vals
            if pres == 'visible' and vc in FINAL and vals != [True]:
                problems.append(f'result {vc} visible -> predicate {vals} (must be true: the waiter is never released)')
            if pres in ('absent', 'hidden') and vals != [False]:
                problems.append(f'result {pres}{":" + vc if vc else ""} -> predicate {vals} (must be false: released before the '
                                f'result of this iteration exists)')
        if not problems:
            out.ok('WK-g', name, ev.where(), 'true for every visible final value, false while absent / hidden', table=table)
        else:
            out.bad('WK-g', name, ev.where(), 'finish predicate is not total / strict over the value classes: ' + '; '.join(problems[:4]),
                    [f'{k}: {v}' for k, v in table.items()], table=table)
    if n < 2:
        raise AnalysisError(f'only {n} finish predicates found (WK-g anchors vanished)')


def _is_launch_wait(ctx: Ctx, g: Graph, ev: Ev) -> bool:
    for lp, region, wait in launch_loops(ctx, g):
        if wait is None:
            continue
        if wait is ev or wait.node is ev.node and wait.info.get('pred') and ev.info.get('pred') \
                and wait.info['pred'][0] is ev.info['pred'][0]:
            return True
    return False


def _pred_loop_callee(ctx: Ctx, unit: FuncUnit, depth: int = 0) -> Optional[FuncUnit]:
    """The in-repo function whose result the readiness predicate iterates (the predecessors); the predicate
    may be a thin wrapper (lambda / helper) around the function that contains the loop."""
    env = FuncEnv.of(ctx.p, unit)
    for n in env.own_nodes():
        if isinstance(n, ast.For) and isinstance(n.iter, ast.Call):
            for t in env.resolve_call(n.iter):
                if t[0] == 'func':
                    return t[1]
    if depth < 3:
        for n in env.own_nodes():
            if isinstance(n, ast.Call):
                for t in env.resolve_call(n):
                    if t[0] == 'func' and t[1].cls is ctx.manager_class():
                        r = _pred_loop_callee(ctx, t[1], depth + 1)
                        if r is not None:
                            return r
    return None


def rule_ready_strict(ctx: Ctx, out: Collector) -> None:
    """RD-2: the readiness predicate is false if a predecessor's result is absent, hidden (previous
    iteration) or a Recurrent marker, and true when every predecessor holds a visible final value."""
    n = 0
    seen = set()
    for fid, g in ctx.run_graphs().items():
        for lp, region, wait in launch_loops(ctx, g):
            if wait is None:
                continue        # RD-1 reports the missing wait
            pred = wait.info.get('pred')
            if pred is None:
                raise AnalysisError(f'readiness predicate at {wait.where()} cannot be resolved')
            unit = pred[0]
            if unit.fid in seen:
                continue
            seen.add(unit.fid)
            n += 1
            callee = _pred_loop_callee(ctx, unit)
            if callee is None:
                raise AnalysisError(f'readiness predicate {unit.fid} does not iterate the result of a predecessor function')
            name = f'{unit.module.name}::{unit.qualname}::ready(predecessor state)'
            table = {}
            problems = []
            for npreds in (1, 2):
                for pres, vc in key_states():
                    val = value_token(ctx.p, vc) if vc else None
                    contents = {'node_results': {'P': (pres, val)}} if pres != 'absent' else {'node_results': {}}
                    if npreds == 2:
                        contents['node_results']['Q'] = ('visible', 1)
                    preds = ['Q', 'P'] if npreds == 2 else ['P']
                    stubs = {callee.fid: (lambda interp, a, k, s, preds=preds: list(preds))}
                    vals_set = set()
                    # ... also with a failed node elsewhere in the dag (not an input of N): readiness is about N's inputs only
                    for failed_elsewhere in (False, True):
                        world = {'node_results': dict(contents['node_results'])}
                        if failed_elsewhere:
                            world['node_results']['E'] = ('visible', value_token(ctx.p, 'EXC'))
                        try:
                            outcomes = _run_pred(ctx, pred, world, key='N', dag_nodes=('N', 'P', 'Q', 'E'), stubs=stubs)
                        except AnalysisError as ex:
                            raise AnalysisError(f'{name}: {ex}')
                        vals_set |= {o[1] if o[0] == 'value' else f'raises {o[1]}' for o in outcomes}
                    vals = sorted(vals_set, key=str)
                    table[f'{npreds} preds, P {pres}:{vc}'] = vals
                    should_wait = pres in ('absent', 'hidden') or vc == 'REC'
                    if should_wait and vals != [False]:
                        problems.append(f'predecessor {pres}{":" + vc if vc else ""} -> ready {vals} (must be false: the node starts '
                                        f'before its input of this iteration is final)')
                    if not should_wait and vals != [True]:
                        problems.append(f'predecessor visible:{vc} -> ready {vals} (must be true: the node never starts)')
            # no predecessors: ready
            stubs = {callee.fid: (lambda interp, a, k, s: [])}
            outcomes = _run_pred(ctx, pred, {'node_results': {}}, key='N', dag_nodes=('N',), stubs=stubs)
            vals = sorted({o[1] if o[0] == 'value' else f'raises {o[1]}' for o in outcomes}, key=str)
            table['no predecessors'] = vals
            if vals != [True]:
                problems.append(f'no predecessors -> ready {vals} (must be true)')
            if not problems:
                out.ok('RD-2', name, wait.where(), 'strict: false for absent / hidden / Recurrent predecessors, true otherwise',
                       table=table)
            else:
                out.bad('RD-2', name, wait.where(), 'readiness is not strict: ' + '; '.join(problems[:4]),
                        [f'{k}: {v}' for k, v in table.items() if any(k.split(", P ")[-1] in pr for pr in problems)][:12], table=table)
    if n == 0 and not any(launch_loops(ctx, g) for g in ctx.run_graphs().values()):
        raise AnalysisError('no readiness predicate found (RD-2 anchor vanished)')


def _storage_method(ctx: Ctx, pred) -> List[FuncUnit]:
    st = ctx.storage_class()
    return [m for m in st.methods.values() if pred(m)]


def _readiness_stores(ctx: Ctx) -> List[str]:
    """HiddenDict fields of the storage that the run path reads with hidden keys excluded, keyed by a
    plain node id (what readiness, ordering and routing consult)."""
    fields = set()
    for fid, g in ctx.run_graphs().items():
        for ev in g.events('call'):
            c = ev.node
            if not (isinstance(c, ast.Call) and isinstance(c.func, ast.Attribute) and c.func.attr in ('get', 'exists')):
                continue
            recv = sym.term(ctx.p, c.func.value, ev.inst)
            if not (isinstance(recv, tuple) and recv[0] == 'attr'):
                continue
            base = recv[1]
            if isinstance(base, tuple) and base[0] == 'attr' and base[2] == '_node_storage' or True:
                fld = recv[2]
                if fld in ctx.storage_class().fields and c.args:
                    kt = sym.term(ctx.p, c.args[0], ev.inst)
                    if isinstance(kt, tuple) and kt[0] == 'tuple':
                        continue
                    fields.add(fld)
    return sorted(fields)


def rule_store_contract(ctx: Ctx, out: Collector) -> None:
    """SW-4: the re-arming composite hides a node in *every* store that readiness, ordering or routing
    reads.  ST-1: publishing a result makes it visible again (un-hides) with exactly the published value."""
    p = ctx.p
    st = ctx.storage_class()
    stores = _readiness_stores(ctx)
    if len(stores) < 2:
        raise AnalysisError(f'readiness stores not found ({stores})')
    # the re-arming composite: storage method(s) that hide in more than one store / called with *node_ids
    hide_methods = []
    for m in st.methods.values():
        calls_hide = 0
        for n in ast.walk(m.node):
            if isinstance(n, ast.Call) and isinstance(n.func, ast.Attribute) and 'hide' in n.func.attr:
                calls_hide += 1
        if m.node.args.vararg is not None and calls_hide:
            hide_methods.append(m)
    if not hide_methods:
        # found by what it does: a method taking node ids by * that, on a storage where K is visible everywhere, hides K somewhere
        for m in st.methods.values():
            if m.node.args.vararg is None:
                continue
            try:
                storage = make_storage(p, st, {s_: {'K': ('visible', 1)} for s_ in stores})
                Interp(p, Oracle()).call_unit(m, ['K'], {}, storage)
                if any(presence_of(storage.attrs[s_], 'K', p) == 'hidden' for s_ in stores):
                    hide_methods.append(m)
            except (ARaise, AnalysisError):
                continue
    if not hide_methods:
        raise AnalysisError('re-arming composite (hide_last_execution) not found (SW-4 anchor vanished)')
    import itertools as _it
    for m in hide_methods:
        # every combination of the node's state in the stores (a synthetic switch node has a verdict but no processed mark,
        # an unselected case nothing at all), re-armed alone and together with a second node that is visible everywhere
        bad = []
        n_states = 0
        for combo in _it.product(('absent', 'hidden', 'visible'), repeat=len(stores)):
            for ids in (('K',), ('K', 'L'), ('L', 'K')):
                def run(oracle: Oracle, m=m, combo=combo, ids=ids):
                    contents = {s: ({'K': (pres, 1)} if pres != 'absent' else {}) for s, pres in zip(stores, combo)}
                    for s in stores:
                        contents[s]['L'] = ('visible', 1)
                    storage = make_storage(p, st, contents)
                    interp = Interp(p, oracle)
                    interp.call_unit(m, list(ids), {}, storage)
                    return tuple((s, k, presence_of(storage.attrs[s], k, p)) for s in stores for k in ids)
                n_states += 1
                for o in enumerate_outcomes(run):
                    if o[0] != 'value':
                        bad.append(f'raises {o[1]}')
                        continue
                    for s, k, pres in o[1]:
                        if pres == 'visible':
                            state = ', '.join(f'{s2} {p2}' for s2, p2 in zip(stores, combo))
                            bad.append(f'{s} (node with {state})' if k == 'K' else f'{s} (second node of the call)')
        cons = f'{m.module.name}::{m.qualname}::hides the node in every store the run path reads'
        if not bad:
            out.ok('SW-4', cons, p.loc(m, m.node), f'after re-arming, the node is hidden in {", ".join(stores)} - {n_states} store states',
                   stores=stores)
        else:
            out.bad('SW-4', cons, p.loc(m, m.node),
                    f'after re-arming a node for the next iteration it is still visible in {"; ".join(sorted(set(bad))[:3])}: readiness / '
                    f'routing of the new iteration is decided against the previous iteration\'s entry', stores=stores)
    # ST-1: publishers un-hide
    setters = []
    for m in st.methods.values():
        params = m.params()
        for nn in ast.walk(m.node):
            # self.<field>.set(<node id parameter>, <value>)
            if isinstance(nn, ast.Call) and isinstance(nn.func, ast.Attribute) and nn.func.attr == 'set' \
                    and isinstance(nn.func.value, ast.Attribute) and isinstance(nn.func.value.value, ast.Name) \
                    and nn.func.value.value.id == 'self' and nn.func.value.attr in st.fields and len(nn.args) == 2 \
                    and isinstance(nn.args[0], ast.Name) and len(params) > 1 and nn.args[0].id == params[1]:
                value_is_param = isinstance(nn.args[1], ast.Name) and len(params) > 2 and nn.args[1].id == params[2]
                setters.append((m, nn.func.value.attr, value_is_param))
    n = 0
    for m, fld, value_is_param in setters:
        if fld not in stores:
            continue
        n += 1
        problems = []
        for pres, vc in key_states():
            def run(oracle: Oracle, m=m, pres=pres, vc=vc, fld=fld, value_is_param=value_is_param):
                val = value_token(p, vc) if vc else None
                contents = {fld: ({'K': (pres, val)} if pres != 'absent' else {})}
                storage = make_storage(p, st, contents)
                interp = Interp(p, oracle)
                interp.call_unit(m, ['K', 7] if value_is_param else ['K'], {}, storage)
                hd = storage.attrs[fld]
                return presence_of(hd, 'K', p), hd.attrs['data'].get('K')

            for o in enumerate_outcomes(run):
                good = o[0] == 'value' and o[1][0] == 'visible' and (o[1][1] == 7 or not value_is_param)
                if not good:
                    problems.append(f'from {pres}{":" + vc if vc else ""}: {o[1]}')
        if value_is_param:
            # what is stored is the published object itself, whatever kind of value a node returns (the manager hands the same
            # object to the artifact store: a copy, a conversion or a drained iterator makes the two differ)
            from ..absint import AOneShot
            kinds = {'an object': lambda: AObj(('ext', 'Value'), {}, tag='node-value'), 'a list': lambda: [1, 2],
                     'a dictionary': lambda: {'a': 1}, 'a one-shot iterator': lambda: AOneShot(lambda: [1, 2]), 'None': lambda: None,
                     'an exception object': lambda: AObj(('ext', 'builtins.ValueError'), {'args': ()}, tag='exc')}
            for label, make in kinds.items():
                def run_v(oracle: Oracle, m=m, fld=fld, make=make):
                    storage = make_storage(p, st, {fld: {}})
                    v_ = make()
                    Interp(p, oracle).call_unit(m, ['K', v_], {}, storage)
                    got = storage.attrs[fld].attrs['data'].get('K')
                    consumed = isinstance(v_, AOneShot) and v_._items is not None
                    return got is v_, consumed
                for o in enumerate_outcomes(run_v):
                    if o[0] != 'value' or o[1][0] is not True:
                        problems.append(f'{label} is not stored as it is ({o[1]})')
                    elif o[1][1]:
                        problems.append(f'{label} is consumed by the store')
        cons = f'{m.module.name}::{m.qualname}::publishing makes the entry visible with the published value'
        if not problems:
            out.ok('ST-1', cons, p.loc(m, m.node), f'{fld}: visible with the new value from every prior state (absent / hidden / visible)')
        else:
            out.bad('ST-1', cons, p.loc(m, m.node),
                    f'publishing into {fld} does not make the entry visible with the published value ({"; ".join(problems[:3])}): '
                    f'a result of a re-iteration stays hidden and its waiters never see it - or the consumers receive something else '
                    f'than the value the node returned and the artifact store is given')
    if n == 0:
        raise AnalysisError('no publisher method found in the storage class (ST-1 anchor vanished)')


def rule_default_visibility(ctx: Ctx, out: Collector) -> None:
    """ST-2: every read accessor of the storage keyed by a node id treats a hidden entry (a result of the previous
    iteration) as absent unless the caller asks for hidden entries explicitly."""
    p = ctx.p
    st = ctx.storage_class()
    n = 0
    for m in st.methods.values():
        params = m.params()
        if len(params) < 2 or not (m.name.startswith('get_') or m.name.startswith('exists_')):
            continue
        # the store it reads
        fld = None
        for nn in ast.walk(m.node):
            if isinstance(nn, ast.Attribute) and isinstance(nn.value, ast.Name) and nn.value.id == 'self' and nn.attr in st.fields:
                fld = nn.attr
        if fld is None:
            # delegating accessor: find through the methods it calls
            for nn in ast.walk(m.node):
                if isinstance(nn, ast.Call) and isinstance(nn.func, ast.Attribute) and isinstance(nn.func.value, ast.Name) \
                        and nn.func.value.id == 'self' and nn.func.attr in st.methods:
                    for x in ast.walk(st.methods[nn.func.attr].node):
                        if isinstance(x, ast.Attribute) and isinstance(x.value, ast.Name) and x.value.id == 'self' and x.attr in st.fields:
                            fld = x.attr
        if fld is None:
            continue
        # accessors of tuple-keyed markers are not per-node entries
        src = unparse(m.node)
        if '(source, dest)' in src or len(params) > 2 and params[2] in ('dest',):
            continue
        n += 1
        problems = []
        for vc in ('TRUTHY', 'NONE', 'EXC'):
            def run(oracle: Oracle, m=m, fld=fld, vc=vc):
                storage = make_storage(p, st, {fld: {'K': ('hidden', value_token(p, vc) if fld == 'node_results' else 1)}})
                interp = Interp(p, oracle)
                return interp.call_unit(m, ['K'], {}, storage)
            for o in enumerate_outcomes(run):
                if o[0] != 'value':
                    problems.append(f'hidden {vc}: raises {o[1]}')
                elif o[1] not in (None, False):
                    problems.append(f'hidden {vc}: returns {o[1]!r}')
        cons = f'{m.module.name}::{m.qualname}::a hidden entry is invisible by default'
        if not problems:
            out.ok('ST-2', cons, p.loc(m, m.node), f'{fld}: hidden entry -> None / False with default arguments')
        else:
            out.bad('ST-2', cons, p.loc(m, m.node),
                    f'{m.name}({params[1]}) with default arguments sees an entry of {fld} that was hidden for the next iteration '
                    f'({problems[0]}): readiness / routing of the new iteration is decided against the previous iteration\'s entry',
                    props={'C03', 'C09', 'C11'})
    if n < 4:
        raise AnalysisError(f'only {n} storage read accessors found (ST-2 anchors vanished)')


def rule_contained_failures(ctx: Ctx, out: Collector) -> None:
    """OO-8: the error gate of a sub-dag (has-subgraph-error) does not count a failure that an inner one-of has already
    contained.  World: candidate A of an inner one-of H failed (its exception is stored as a value), H was resolved by
    a later candidate and holds a value, the consumer N of H holds a value; the sub-dag of an outer candidate Y contains
    A, H, N (A was started, so the view shows it).  The gate must be negative: Y's inputs are all fine."""
    units = ctx.has_error_functions()
    if not units:
        raise AnalysisError('no has-subgraph-error function found (OO-8 anchor vanished)')
    mgr_cls = ctx.manager_class()
    for unit in units:
        if unit.cls is not mgr_cls:
            continue
        cons = f'{unit.module.name}::{unit.qualname}::a failure contained by a resolved inner one-of is not a failure of the enclosing sub-dag'

        def run(oracle: Oracle):
            contents = {'node_results': {'A': ('visible', value_token(ctx.p, 'EXC')), 'B': ('visible', 1), 'H': ('visible', 1),
                                         'N': ('visible', 1)},
                        'processed_nodes': {'A': ('visible', None), 'B': ('visible', None), 'H': ('visible', None), 'N': ('visible', None)}}
            mgr, storage, adag = _abstract_world(ctx, contents, dag_nodes=('I', 'A', 'H', 'N', 'Y'), dest='Y')
            nodes = {'I': {}, 'A': {'is_oneof_child': True}, 'B': {'is_oneof_child': True},
                     'H': {'is_oneof_head': True, 'oneof_nodes': ['A', 'B']}, 'N': {}, 'Y': {'is_oneof_child': True}}
            edges = {('I', 'A'): {'kwarg_name': 'num'}, ('I', 'B'): {'kwarg_name': 'num'}, ('A', 'H'): {}, ('B', 'H'): {}, ('I', 'H'): {},
                     ('H', 'N'): {'kwarg_name': 'v'}, ('N', 'Y'): {'kwarg_name': 'v'}}
            graph = AObj(('ext', 'networkx.DiGraph'), {'nodes': nodes, 'edges': edges})
            mgr.attrs['dag'].attrs['graph'] = graph
            adag.attrs['nodes'] = {k: nodes[k] for k in ('I', 'A', 'H', 'N', 'Y')}
            adag.attrs['edges'] = {k: v for k, v in edges.items() if k[0] in adag.attrs['nodes'] and k[1] in adag.attrs['nodes']}
            adag.attrs['is_oneof'] = True
            for name, (ann, default) in mgr_cls.fields.items():
                t = ctx.p.ann_to_type(ann, mgr_cls.module) if ann is not None else None
                if t and t[0] == 'seq':
                    mgr.attrs[name] = {'A', 'B', 'Y'}            # started candidates
            interp = Interp(ctx.p, oracle)
            return interp.truth(interp.call_unit(unit, [adag], {}, mgr, None))

        outs = enumerate_outcomes(run)
        vals = sorted({o[1] if o[0] == 'value' else f'raises {o[1]}' for o in outs}, key=str)
        if vals == [False]:
            out.ok('OO-8', cons, ctx.p.loc(unit, unit.node), 'negative for a sub-dag whose only failed node lost an inner one-of that was resolved')
        else:
            out.bad('OO-8', cons, ctx.p.loc(unit, unit.node),
                    f'the error gate is {vals} for a sub-dag that merely contains a losing candidate of an inner one-of which was '
                    f'resolved by a later candidate: an outer candidate that consumes the inner one-of\'s consumer is rejected '
                    f'although all of its inputs succeeded (the run fails with OneOfDoesNotHaveResultError or falls back needlessly)',
                    props={'C10'})


def argument_builder(ctx: Ctx) -> FuncUnit:
    """The manager method that turns the incoming edges of a node into its keyword arguments (the outermost one when it
    is split into helpers)."""
    mgr_cls = ctx.manager_class()
    def mentions_kwarg_name(u: FuncUnit) -> bool:
        return any(isinstance(n, ast.Attribute) and n.attr == 'kwarg_name' for n in ast.walk(u.node))

    def callees(u: FuncUnit) -> List[FuncUnit]:
        env = FuncEnv.of(ctx.p, u)
        res = []
        for n in env.own_nodes():
            if isinstance(n, ast.Call):
                for t in env.resolve_call(n):
                    if t[0] == 'func' and (t[1].cls is mgr_cls or t[1].cls is None) and t[1] is not u:
                        res.append(t[1])
        return res
    cands = []
    for m in mgr_cls.methods.values():
        if m.is_async or isinstance(m.node, ast.Lambda) or len(m.params()) != 2:
            continue
        if not any(isinstance(n, ast.Return) and n.value is not None for n in ast.walk(m.node)):
            continue
        if mentions_kwarg_name(m) or any(mentions_kwarg_name(c) for c in callees(m)):
            cands.append(m)
    # the outermost one: not called by another candidate
    inner = {c.fid for m in cands for c in callees(m) if c in cands}
    outer = [m for m in cands if m.fid not in inner]
    if len(outer) != 1:
        raise AnalysisError(f'argument builder (edges\' kwarg_name -> dictionary) not found: candidates {[m.qualname for m in outer]} '
                            f'(RD-3b / RD-4 anchor vanished)')
    return outer[0]


def rule_kwargs_semantics(ctx: Ctx, out: Collector) -> None:
    """RD-3 (argument delivery) / RD-4: the argument builder of the run manager, interpreted over a small abstract
    graph and store, returns exactly one entry per incoming edge that carries a kwarg_name, named after it, whose value
    is the stored result of the predecessor (of the selected case for a switch predecessor); edges without a name add
    nothing; the hand-over value of a recurrent start node is added under its own key; and for the input node the
    result equals the caller's input_kwargs without being that very dictionary."""
    mgr_cls = ctx.manager_class()
    target = argument_builder(ctx)
    m = target
    case_cls = next((ci for ci in ctx.p.classes_by_name.get('CaseResult', []) if ci.module.name.startswith('ml_pipeline_engine')), None)
    if case_cls is None:
        raise AnalysisError('CaseResult class not found')
    caller_kwargs = {'a': 1}

    def world(node: str, additional=None):
        def run(oracle: Oracle):
            contents = {'node_results': {'P': ('visible', 11), 'Q': ('visible', 33), 'C': ('visible', 22), 'K': ('visible', 44)},
                        'switch_results': {'SW': ('visible', AObj(case_cls, {'label': 'a', 'node_id': 'C'}))}}
            mgr, storage, adag = _abstract_world(ctx, contents, dag_nodes=('I', 'P', 'Q', 'SW', 'C', 'K', 'N'), dest='N')
            nodes = {'I': {}, 'P': {}, 'Q': {}, 'C': {}, 'K': {}, 'N': {}, 'SW': {'is_switch': True}}
            edges = {('P', 'N'): {'kwarg_name': 'x'}, ('Q', 'N'): {}, ('SW', 'N'): {'kwarg_name': 'y'},
                     ('C', 'SW'): {'case_branch': 'a'}, ('K', 'SW'): {'case_branch': 'b'}, ('I', 'P'): {'kwarg_name': 'num'}}
            graph = AObj(('ext', 'networkx.DiGraph'), {'nodes': nodes, 'edges': edges})
            mgr.attrs['dag'].attrs['graph'] = graph
            mgr.attrs['dag'].attrs['input_node'] = 'I'
            mgr.attrs['ctx'] = AObj(('ext', 'Context'), {'input_kwargs': caller_kwargs})
            for name, (ann, default) in mgr_cls.fields.items():
                t = ctx.p.ann_to_type(ann, mgr_cls.module) if ann is not None else None
                if t and t[0] == 'dict' and additional is not None and 'additional' in name:
                    mgr.attrs[name] = {node: additional}
            interp = Interp(ctx.p, oracle)
            return interp.call_unit(m, [node], {}, mgr, None)
        outs = enumerate_outcomes(run)
        return [o[1] if o[0] == 'value' else f'raises {o[1]}' for o in outs]

    base = f'{m.module.name}::{m.qualname}'
    # ---- consumer node
    vals = world('N')
    cons = base + '::argument names come from the edges\' kwarg_name'
    expect = {'x': 11, 'y': 22}
    sw_cons = base + '::the argument of a switch parameter is the result of the selected case [switch indirection]'
    got0 = vals[0] if len(vals) == 1 else None
    if isinstance(got0, dict) and got0.get('y') == 22:
        out.ok('SW-3', sw_cons, ctx.p.loc(m, m.node), 'y = result(switch_results[SW].node_id)')
    else:
        out.bad('SW-3', sw_cons, ctx.p.loc(m, m.node),
                f'the parameter fed by a switch does not receive the result of the selected case (got {got0.get("y") if isinstance(got0, dict) else vals!r}, '
                f'the selected case holds 22, the other case 44): readiness and argument delivery disagree about which node feeds the consumer')
    if len(vals) == 1 and isinstance(vals[0], dict) and vals[0] == expect:
        out.ok('RD-3', cons, ctx.p.loc(m, m.node), f'{{x: result(P), y: result(selected case of SW)}} for edges P-x->N, Q->N, SW-y->N')
        out.ok('RD-3', base + '::edges without kwarg_name are skipped', ctx.p.loc(m, m.node), 'the implicit edge Q->N adds no argument')
    else:
        got = vals[0] if len(vals) == 1 else vals
        why = []
        if isinstance(got, dict):
            if None in got or any(k not in expect for k in got):
                why.append(f'unexpected argument names {sorted(str(k) for k in got if k not in expect)}')
            for k, v in expect.items():
                if k not in got:
                    why.append(f'parameter {k} is not supplied')
                elif got[k] != v:
                    why.append(f'parameter {k} receives {got[k]!r} instead of the result of its input ({v})')
        else:
            why.append(f'the builder yields {got!r}')
        out.bad('RD-3', cons, ctx.p.loc(m, m.node), f'for a node with inputs P (as x), the switch SW (as y, selected case C) and an implicit '
                                                    f'edge from Q the argument dictionary is not {{x: result(P), y: result(C)}}: {"; ".join(why)}')
    # ---- the hand-over value
    vals = world('N', additional='AD')
    cons = base + '::the hand-over value of a re-iteration is added under additional_data'
    ok = len(vals) == 1 and isinstance(vals[0], dict) and {k: v for k, v in vals[0].items() if k in expect} == expect \
        and [v for k, v in vals[0].items() if k not in expect] == ['AD']
    if ok:
        out.ok('RD-3', cons, ctx.p.loc(m, m.node), 'one extra entry carrying the stored hand-over value')
    else:
        out.bad('RD-3', cons, ctx.p.loc(m, m.node), f'with a hand-over value stored for the node the argument dictionary is {vals}: the '
                                                    f'start node of a recurrent subgraph does not receive additional_data (or other arguments change)',
                props={'C11', 'C03'})
    # ---- RD-4 the input node
    vals = world('I')
    cons = base + '::the input node receives the caller\'s input_kwargs'
    if len(vals) == 1 and isinstance(vals[0], dict) and vals[0] == caller_kwargs and vals[0] is not caller_kwargs:
        out.ok('RD-4', cons, ctx.p.loc(m, m.node), 'equal to input_kwargs, and a copy (the caller\'s dictionary is not handed out)')
    else:
        got = vals[0] if len(vals) == 1 else vals
        same = isinstance(got, dict) and got is caller_kwargs
        out.bad('RD-4', cons, ctx.p.loc(m, m.node), f'the arguments of the input node are not exactly the caller\'s input_kwargs '
                                                    f'({"the very dictionary of the caller is handed out and later modified" if same else got!r})')


def rule_readiness_switch_indirection(ctx: Ctx, out: Collector) -> None:
    """SW-3 (readiness side): for a consumer whose predecessor is a switch the readiness predicate follows the selected
    case: it is true exactly when the switch has been decided and the *selected case* holds a final visible result -
    the same node whose result the argument builder delivers (RD-3 decides that side)."""
    case_cls = next((ci for ci in ctx.p.classes_by_name.get('CaseResult', []) if ci.module.name.startswith('ml_pipeline_engine')), None)
    if case_cls is None:
        raise AnalysisError('CaseResult class not found')
    n = 0
    seen = set()
    for fid, g in ctx.run_graphs().items():
        for lp, region, wait in launch_loops(ctx, g):
            if wait is None:
                continue
            pred = wait.info.get('pred')
            if pred is None:
                raise AnalysisError(f'readiness predicate at {wait.where()} cannot be resolved')
            unit = pred[0]
            if unit.fid in seen:
                continue
            seen.add(unit.fid)
            n += 1
            nodes = {'I': {}, 'SW': {'is_switch': True}, 'C': {}, 'K': {}, 'N': {}, 'D': {}}
            edges = {('SW', 'N'): {'kwarg_name': 'y'}, ('C', 'SW'): {'case_branch': 'a'}, ('K', 'SW'): {'case_branch': 'b'},
                     ('D', 'SW'): {'is_switch': True}, ('I', 'D'): {'kwarg_name': 'num'}}
            cases = {
                'switch undecided, case C has a result': ({'node_results': {'C': ('visible', 1), 'D': ('visible', 'a')}}, False),
                'switch decided (C), C has no result, the other case K has one':
                    ({'node_results': {'K': ('visible', 1), 'D': ('visible', 'a')},
                      'switch_results': {'SW': ('visible', AObj(case_cls, {'label': 'a', 'node_id': 'C'}))}}, False),
                'switch decided (C), C has a final result':
                    ({'node_results': {'C': ('visible', 1), 'D': ('visible', 'a')},
                      'switch_results': {'SW': ('visible', AObj(case_cls, {'label': 'a', 'node_id': 'C'}))}}, True),
                # a re-iteration re-armed the switch: the verdict of the previous iteration is hidden, the case it named still holds
                # its (outside the subgraph: visible) result - the switch is undecided in this iteration
                're-armed switch: the previous verdict (C) is hidden, C still has a visible result':
                    ({'node_results': {'C': ('visible', 1), 'D': ('visible', 'b')},
                      'switch_results': {'SW': ('hidden', AObj(case_cls, {'label': 'a', 'node_id': 'C'}))}}, False),
                're-armed switch: the previous verdict (C) and the result of C are hidden':
                    ({'node_results': {'C': ('hidden', 1), 'D': ('visible', 'b')},
                      'switch_results': {'SW': ('hidden', AObj(case_cls, {'label': 'a', 'node_id': 'C'}))}}, False),
            }
            problems = []
            table = {}
            for label, (contents, expect) in cases.items():
                try:
                    outs = _run_pred(ctx, pred, contents, key='N', dag_nodes=('I', 'D', 'C', 'K', 'SW', 'N'), graph_spec=(nodes, edges))
                except AnalysisError as ex:
                    raise AnalysisError(f'{unit.fid}: {ex}')
                vals = sorted({o[1] if o[0] == 'value' else f'raises {o[1]}' for o in outs}, key=str)
                table[label] = vals
                if vals != [expect]:
                    problems.append(f'{label} -> ready {vals} (must be {expect})')
            cons = f'{unit.module.name}::{unit.qualname}::readiness of a switch consumer follows the selected case [switch indirection]'
            if not problems:
                out.ok('SW-3', cons, wait.where(), 'ready iff the switch is decided and the selected case holds a final result', table=table)
            else:
                out.bad('SW-3', cons, wait.where(), 'readiness and argument delivery disagree about which node feeds a switch consumer: '
                        + '; '.join(problems), table=table)
    if n == 0:
        raise AnalysisError('no readiness predicate found (SW-3 anchor vanished)')


def rule_switch_indirection_semantic(ctx: Ctx, out: Collector) -> None:
    """SW-3: both consumers of predecessor results - readiness and argument delivery - resolve a switch predecessor to
    the selected case (decided by interpreting the two functions over a small abstract graph / store)."""
    rule_readiness_switch_indirection(ctx, out)
    if not any(i.rule == 'SW-3' and 'argument of a switch parameter' in i.construct for i in out.instances):
        sub = Collector()
        rule_kwargs_semantics(ctx, sub)
        for i in sub.instances:
            if i.rule == 'SW-3':
                out.instances.append(i)


def rule_ready_vs_active_subgraph(ctx: Ctx, out: Collector) -> None:
    """RD-2 (superseded iterations): a node outside a recurrent subgraph that consumes a node *inside* it must not start
    while that subgraph is still iterating - the value it would read belongs to an iteration that may be superseded.
    World: S -> P -> D is a recurrent subgraph that is active (its marker is set), P holds a visible value, N consumes P
    and is not on a path S -> D.  The readiness predicate of N must be false."""
    n = 0
    seen = set()
    for fid, g in ctx.run_graphs().items():
        for lp, region, wait in launch_loops(ctx, g):
            if wait is None:
                continue
            pred = wait.info.get('pred')
            if pred is None:
                raise AnalysisError(f'readiness predicate at {wait.where()} cannot be resolved')
            unit = pred[0]
            if unit.fid in seen:
                continue
            seen.add(unit.fid)
            n += 1
            nodes = {'I': {}, 'S': {}, 'P': {}, 'D': {'start_node': 'S', 'max_iterations': 3}, 'N': {}}
            edges = {('I', 'S'): {'kwarg_name': 'num'}, ('S', 'P'): {'kwarg_name': 'a'}, ('P', 'D'): {'kwarg_name': 'b'},
                     ('P', 'N'): {'kwarg_name': 'm'}}
            contents = {'node_results': {'S': ('visible', 1), 'P': ('visible', 1), 'D': ('hidden', value_token(ctx.p, 'REC'))},
                        'processed_nodes': {('S', 'D'): ('visible', None), 'S': ('visible', None), 'P': ('visible', None)}}
            try:
                outs = _run_pred(ctx, pred, contents, key='N', dag_nodes=('I', 'S', 'P', 'D', 'N'), graph_spec=(nodes, edges))
            except AnalysisError as ex:
                raise AnalysisError(f'{unit.fid}: {ex}')
            vals = sorted({o[1] if o[0] == 'value' else f'raises {o[1]}' for o in outs}, key=str)
            cons = f'{unit.module.name}::{unit.qualname}::ready(predecessor inside an active recurrent subgraph)'
            if vals == [False]:
                out.ok('RD-2', cons, wait.where(), 'a consumer outside the subgraph waits until the subgraph has finished')
            else:
                out.bad('RD-2', cons, wait.where(),
                        f'readiness is {vals} for a node that consumes an intermediate node of a recurrent subgraph which is still iterating: '
                        f'every execution of the inner node publishes its value to all descendants, the outside consumer starts with the '
                        f'value of whichever iteration is current when its other inputs arrive and is never re-executed - it can receive a '
                        f'value from a superseded iteration', props={'C03', 'C11'})
    if n == 0:
        raise AnalysisError('no readiness predicate found (RD-2 anchor vanished)')


def rule_ready_covers_delivered_inputs(ctx: Ctx, out: Collector) -> None:
    """RD-9: the argument builder delivers one value per parameter edge of the chart graph, whatever sub-dag the node is
    launched from.  In a plain (not recurrent, not one-of) scope the readiness predicate must therefore wait for every such
    predecessor, also for one that is not part of the sub-dag being run (a one-of candidate that was not started when the view
    was taken): world I -> A -> N, I -> B -> N, the dag being run holds I, A, N only, A has a result, B has none."""
    n = 0
    seen = set()
    for fid, g in ctx.run_graphs().items():
        for lp, region, wait in launch_loops(ctx, g):
            if wait is None:
                continue
            pred = wait.info.get('pred')
            if pred is None:
                raise AnalysisError(f'readiness predicate at {wait.where()} cannot be resolved')
            unit = pred[0]
            if unit.fid in seen:
                continue
            seen.add(unit.fid)
            n += 1
            nodes = {'I': {}, 'A': {}, 'B': {}, 'N': {}}
            edges = {('I', 'A'): {'kwarg_name': 'num'}, ('I', 'B'): {'kwarg_name': 'num'}, ('A', 'N'): {'kwarg_name': 'a'},
                     ('B', 'N'): {'kwarg_name': 'b'}}
            contents = {'node_results': {'I': ('visible', 1), 'A': ('visible', 1)},
                        'processed_nodes': {'I': ('visible', None), 'A': ('visible', None)}}
            flags = {'is_recurrent': False, 'is_oneof': False, 'is_nested_oneof': False}
            try:
                outs = _run_pred(ctx, pred, contents, key='N', dag_nodes=('I', 'A', 'N'), graph_spec=(nodes, edges), dag_flags=flags)
            except AnalysisError as ex:
                raise AnalysisError(f'{unit.fid}: {ex}')
            vals = sorted({o[1] if o[0] == 'value' else f'raises {o[1]}' for o in outs}, key=str)
            cons = f'{unit.module.name}::{unit.qualname}::ready(parameter source outside the dag being run) [covers delivered inputs]'
            if vals == [False]:
                out.ok('RD-9', cons, wait.where(), 'a plain scope waits for every predecessor that delivers a parameter')
            else:
                out.bad('RD-9', cons, wait.where(),
                        f'readiness is {vals} although a predecessor that delivers a parameter has no result: it is not part of the sub-dag '
                        f'being run (a one-of candidate filtered out of the view), the readiness test looks at the sub-dag only, the '
                        f'argument builder at the chart graph - the body is invoked before its input is final and receives None',
                        props={'C03'})
    if n == 0:
        raise AnalysisError('no readiness predicate found (RD-9 anchor vanished)')


def rule_kwargs_hidden_verdict(ctx: Ctx, out: Collector) -> None:
    """RD-3 (re-armed switch): the argument builder reads plain predecessor results including hidden (re-armed) ones; it
    must read the verdict of a switch predecessor with the same visibility, or a consumer outside a recurrent subgraph
    that was already released crashes on a verdict hidden by the next re-iteration."""
    mgr_cls = ctx.manager_class()
    case_cls = next((ci for ci in ctx.p.classes_by_name.get('CaseResult', []) if ci.module.name.startswith('ml_pipeline_engine')), None)
    target = argument_builder(ctx)
    if case_cls is None:
        raise AnalysisError('CaseResult class not found (RD-3 anchor vanished)')
    m = target

    def run(oracle: Oracle):
        contents = {'node_results': {'P': ('visible', 11), 'C': ('hidden', 22)},
                    'switch_results': {'SW': ('hidden', AObj(case_cls, {'label': 'a', 'node_id': 'C'}))}}
        mgr, storage, adag = _abstract_world(ctx, contents, dag_nodes=('I', 'P', 'SW', 'C', 'N'), dest='N')
        nodes = {'I': {}, 'P': {}, 'C': {}, 'N': {}, 'SW': {'is_switch': True}}
        edges = {('P', 'N'): {'kwarg_name': 'x'}, ('SW', 'N'): {'kwarg_name': 'y'}, ('C', 'SW'): {'case_branch': 'a'}}
        mgr.attrs['dag'].attrs['graph'] = AObj(('ext', 'networkx.DiGraph'), {'nodes': nodes, 'edges': edges})
        mgr.attrs['dag'].attrs['input_node'] = 'I'
        mgr.attrs['ctx'] = AObj(('ext', 'Context'), {'input_kwargs': {}})
        interp = Interp(ctx.p, oracle)
        return interp.call_unit(m, ['N'], {}, mgr, None)
    outs = enumerate_outcomes(run)
    vals = [o[1] if o[0] == 'value' else f'raises {o[1]}' for o in outs]
    cons = f'{m.module.name}::{m.qualname}::a re-armed (hidden) switch verdict is read like the re-armed results'
    if len(vals) == 1 and isinstance(vals[0], dict) and vals[0].get('y') == 22 and vals[0].get('x') == 11:
        out.ok('RD-3', cons, ctx.p.loc(m, m.node), 'the hidden verdict and the hidden case result are both read')
    else:
        out.bad('RD-3', cons, ctx.p.loc(m, m.node),
                f'with the verdict of a switch predecessor hidden by a re-iteration the argument builder yields {vals}: results are read '
                f'with hidden entries included but the verdict is not, so a consumer outside the subgraph that was released just before the '
                f're-iteration fails with the engine\'s own AttributeError (None has no node_id) instead of being invoked',
                props={'C03', 'C09', 'C11'})


def rule_order_skips_taken_nodes(ctx: Ctx, out: Collector) -> None:
    """ON-6: the node order of a non-recurrent scope leaves out every node another scope has already *taken* (marked as
    processed), whether or not its result exists yet; a recurrent scope orders all its nodes.  Scheduling a node that
    is still in flight elsewhere creates a second requester, which republishes and re-saves what it reads (F16 / F17)."""
    from .cc import launch_loops as _ll
    seen = set()
    n = 0
    for fid, g in ctx.run_graphs().items():
        for lp, region, wait in _ll(ctx, g):
            it = lp.info['iter']
            e, i = sym.resolve_value(ctx.p, it, lp.inst)
            if not isinstance(e, ast.Call):
                continue
            units = [t[1] for t in FuncEnv.of(ctx.p, i.unit).resolve_call(e) if t[0] == 'func']
            for unit in units:
                if unit.fid in seen:
                    continue
                seen.add(unit.fid)
                n += 1
                table = {}
                problems = []
                for rec in (False, True):
                    for state in ('untouched', 'taken, still running', 'taken, result published'):
                        def run(oracle: Oracle, rec=rec, state=state):
                            contents = {'node_results': {}, 'processed_nodes': {}}
                            if state != 'untouched':
                                contents['processed_nodes']['X'] = ('visible', None)
                            if state == 'taken, result published':
                                contents['node_results']['X'] = ('visible', 1)
                            mgr, storage, adag = _abstract_world(ctx, contents, dag_nodes=('I', 'X', 'Y'), dest='Y')
                            adag.attrs['is_recurrent'] = rec
                            adag.attrs['nodes'] = {'I': {}, 'X': {}, 'Y': {}}
                            adag.attrs['edges'] = {('I', 'X'): {}, ('X', 'Y'): {}}
                            interp = Interp(ctx.p, oracle)
                            return interp.call_unit(unit, [adag], {}, mgr, None)
                        outs = enumerate_outcomes(run)
                        vals = [o[1] if o[0] == 'value' else f'raises {o[1]}' for o in outs]
                        has_x = sorted({('X' in v) if isinstance(v, (list, tuple, set)) else str(v) for v in vals}, key=str)
                        key = f'{"recurrent" if rec else "plain"} scope, X {state}'
                        table[key] = has_x
                        expect = True if rec or state == 'untouched' else False
                        if has_x != [expect]:
                            problems.append(f'{key}: X scheduled = {has_x} (must be {expect})')
                cons = f'{unit.module.name}::{unit.qualname}::a scope schedules exactly the nodes nobody has taken yet (all of them when it re-iterates)'
                if not problems:
                    out.ok('ON-6', cons, ctx.p.loc(unit, unit.node), 'taken nodes are left out of a plain scope, a recurrent scope orders all', table=table)
                else:
                    out.bad('ON-6', cons, ctx.p.loc(unit, unit.node),
                            'the node order does not leave out exactly the nodes another scope has taken: ' + '; '.join(problems[:3])
                            + ' - a node that is still executing elsewhere is scheduled again, the second requester republishes / saves its '
                              'result a second time (a write-once store fails the run) or reads a result that is not there yet',
                            table=table, props={'C04', 'C19', 'C03'})
    if n == 0:
        raise AnalysisError('no node-order function of a launch loop found (ON-6 anchor vanished)')


# ---------------------------------------------------------------------------------------------
# SW-7: the selection of the case, by worlds
# ---------------------------------------------------------------------------------------------
def _case_selector(ctx: Ctx):
    """(manager method that records the selected case, storage field the record goes to): found by what it does - the manager
    method that calls the storage method which publishes into the store of the case records."""
    p = ctx.p
    st = ctx.storage_class()
    case_cls = next((ci for ci in p.classes_by_name.get('CaseResult', []) if ci.module.name.startswith('ml_pipeline_engine')), None)
    if case_cls is None:
        raise AnalysisError('CaseResult class not found (SW-7 anchor vanished)')
    mgr = ctx.manager_class()
    for u in mgr.methods.values():
        env = FuncEnv.of(p, u)
        for c in env.own_nodes():
            if isinstance(c, ast.Call) and any(t[0] == 'class' and t[1] is case_cls for t in env.resolve_call(c)):
                return u, None, case_cls
    raise AnalysisError('no manager method records the selected case (SW-7 anchor vanished)')


def rule_case_selection_worlds(ctx: Ctx, out: Collector) -> None:
    """SW-7: the manager method that records the selected case, interpreted over a switch with a decider and two cases for every
    kind of returned label: a label of a case records that case (label and node), any other value - a string no case has, None,
    the id of the decider - raises; it never records another node."""
    p = ctx.p
    m, field, case_cls = _case_selector(ctx)
    table, problems = {}, []
    labels = [('a', 'A'), ('b', 'B'), ('zzz', None), (None, None), ('D', None), (True, None)]
    for order in ('decider edge first', 'decider edge last'):
        for label, want in labels:
            def run(oracle: Oracle, label=label, order=order):
                contents = {'node_results': {'D': ('visible', label), 'A': ('visible', 1), 'B': ('visible', 2)}}
                mgr, storage, adag = _abstract_world(ctx, contents, dag_nodes=('I', 'D', 'A', 'B', 'SW'), dest='SW')
                nodes = {'I': {}, 'D': {}, 'A': {}, 'B': {}, 'SW': {'is_switch': True}}
                dec = {('D', 'SW'): {'is_switch': True}}
                cases = {('A', 'SW'): {'case_branch': 'a'}, ('B', 'SW'): {'case_branch': 'b'}}
                edges = {**dec, **cases} if order == 'decider edge first' else {**cases, **dec}
                mgr.attrs['dag'].attrs['graph'] = AObj(('ext', 'networkx.DiGraph'), {'nodes': nodes, 'edges': edges})
                Interp(p, oracle).call_unit(m, ['SW'], {}, mgr, None)
                recs = [v.attrs['data']['SW'] for f, v in storage.attrs.items()
                        if isinstance(v, AObj) and isinstance(v.attrs.get('data'), dict) and 'SW' in v.attrs['data']]
                if len(recs) == 1 and isinstance(recs[0], AObj) and recs[0].cls is case_cls:
                    return ('recorded', recs[0].attrs.get('label'), recs[0].attrs.get('node_id'))
                return ('recorded', str(recs))
            outs = enumerate_outcomes(run)
            got = sorted({o[1] if o[0] == 'value' else ('raises', o[1]) for o in outs}, key=str)
            table[f'{order}, decider returns {label!r}'] = [str(x) for x in got]
            if want is not None:
                if got != [('recorded', label, want)]:
                    problems.append(f'{order}: label {label!r} -> {got} (the case {want} must be recorded)')
            elif not got or any(x[0] != 'raises' for x in got):
                problems.append(f'{order}: the decider returns {label!r}, which no case has -> {got} (the run must fail)')
    cons = f'{m.module.name}::{m.qualname}::a returned label records its own case, any other value fails the run [selection worlds]'
    if problems:
        out.bad('SW-7', cons, p.loc(m, m.node), 'the selection of the case does not follow the returned label: ' + '; '.join(problems[:4]),
                table=table)
    else:
        out.ok('SW-7', cons, p.loc(m, m.node), f'{len(table)} worlds: (decider edge first / last) x labels a, b, an unknown string, None, the '
               f'decider\'s id, True', table=table)


# ---------------------------------------------------------------------------------------------
# SW-8: the sub-dag of the selected case, by worlds
# ---------------------------------------------------------------------------------------------
def rule_case_dag_worlds(ctx: Ctx, out: Collector) -> None:
    """SW-8: the coroutine that resolves a switch runs a sub-dag that holds the selected case together with everything the case
    depends on - also what lies upstream of the dag that reached the switch (a recurrent sub-dag starts at its start node, the
    case may hang on the pipeline input by another route) - and nothing of the case that was not selected.  Interpreted, with
    the graph cut as written, over a switch inside a sub-dag whose source is not the input node."""
    p = ctx.p
    selector, _f, case_cls = _case_selector(ctx)
    mgr_cls = ctx.manager_class()
    runners = []
    for u in mgr_cls.methods.values():
        if not u.is_async:
            continue
        env = FuncEnv.of(p, u)
        if any(isinstance(c, ast.Call) and any(t[0] == 'func' and t[1] is selector for t in env.resolve_call(c)) for c in env.own_nodes()):
            runners.append(u)
    if len(runners) != 1:
        raise AnalysisError(f'the coroutine that resolves a switch was not identified ({[u.name for u in runners]}) (SW-8 anchor vanished)')
    runner = runners[0]
    from .cc import launch_loops
    launchers = set()
    for fid, g in ctx.run_graphs().items():
        for lp, region, wait in launch_loops(ctx, g):
            launchers.add(lp.inst.unit)
    dag_cls = _dag_class(ctx)
    problems, table = [], {}
    for label in ('a', 'b'):
        def run(oracle: Oracle, label=label):
            contents = {'node_results': {'I': ('visible', 0), 'S': ('visible', 1), 'D': ('visible', label)}}
            mgr, storage, adag = _abstract_world(ctx, contents, dag_nodes=('S', 'D', 'SW', 'N'), dest='N')
            adag.attrs['source'] = 'S'
            adag.attrs['is_oneof'] = False
            adag.attrs['is_recurrent'] = True
            adag.attrs['is_nested_oneof'] = False
            nodes = {'I': {}, 'S': {}, 'D': {}, 'PA': {}, 'A': {}, 'PB': {}, 'B': {}, 'N': {}, 'SW': {'is_switch': True}}
            edges = {('I', 'S'): {}, ('S', 'D'): {}, ('S', 'PA'): {}, ('PA', 'A'): {}, ('I', 'PB'): {}, ('PB', 'B'): {},
                     ('D', 'SW'): {'is_switch': True}, ('A', 'SW'): {'case_branch': 'a'}, ('B', 'SW'): {'case_branch': 'b'},
                     ('SW', 'N'): {'kwarg_name': 'x'}}
            graph = AObj(('ext', 'networkx.DiGraph'), {'nodes': nodes, 'edges': edges, 'graph': {'name': 'main'}}, tag='graph')
            mgr.attrs['dag'].attrs['graph'] = graph
            mgr.attrs['dag'].attrs['input_node'] = 'I'
            mgr.attrs['dag'].attrs['output_node'] = 'N'
            from .common import lock_world
            lock, lock_stubs = lock_world(ctx, lambda kind, name: None)
            ext = {}
            for name, (ann, default) in mgr_cls.fields.items():
                if 'lock' in name:
                    mgr.attrs[name] = lock
            mgr.attrs.setdefault('_alias_run_method', 'run')
            ran: List[Any] = []

            def run_dag_stub(interp, a, k, s_):
                sub = k.get('dag', a[0] if a else None)
                ran.append(sub)
                return None
            interp = Interp(p, oracle, stubs={**{u.fid: run_dag_stub for u in launchers}, **lock_stubs}, ext_stubs=ext)
            kwargs = {}
            for pn in runner.params()[1:]:
                t_ = FuncEnv.of(p, runner).name_type(pn)
                kwargs[pn] = adag if (t_[0] == 'class' and t_[1] is dag_cls) else 'SW'
            interp.call_unit(runner, [], kwargs, mgr)
            return [sorted(x.attrs['nodes']) if isinstance(x, AObj) and 'nodes' in x.attrs else repr(x) for x in ran]
        try:
            outs = enumerate_outcomes(run)
        except AnalysisError as ex:
            raise AnalysisError(f'SW-8 world (label {label}): {ex}')
        got = [o[1] if o[0] == 'value' else f'raises {o[1]}' for o in outs]
        table[f'decider returns {label!r} inside a sub-dag that starts at S'] = [str(x) for x in got]
        want, other = ({'PA', 'A'}, {'PB', 'B'}) if label == 'a' else ({'PB', 'B'}, {'PA', 'A'})
        for x in got:
            if not (isinstance(x, list) and len(x) == 1 and isinstance(x[0], list)):
                problems.append(f'label {label!r}: the runner launches {x} (one sub-dag expected)')
                continue
            have = set(x[0])
            if not want <= have:
                problems.append(f'label {label!r}: the sub-dag of the selected case holds {sorted(have)} - {sorted(want - have)} (the case / what it depends on) is missing')
            if have & other:
                problems.append(f'label {label!r}: the sub-dag holds {sorted(have & other)} of the case that was not selected')
    cons = f'{runner.module.name}::{runner.qualname}::the sub-dag of the selected case holds the case and all it depends on [case dag worlds]'
    if not problems:
        out.ok('SW-8', cons, p.loc(runner, runner.node), 'two labels, the switch inside a sub-dag whose source is not the input node', table=table)
    else:
        out.bad('SW-8', cons, p.loc(runner, runner.node), 'the selected case cannot be computed from the sub-dag that is run for it: '
                + '; '.join(sorted(set(problems))[:3]) + ' - the case never runs, its consumer waits for ever (or gets a stale value)', table=table)


def rule_stores_independent(ctx: Ctx, out: Collector) -> None:
    """ST-4: the stores of the node storage that readiness, ordering and routing read are independent of each other: after a node
    was re-armed (hidden in every store), publishing into ONE store (the manager marks a node as processed when its re-execution
    starts) leaves the node hidden in every OTHER store - otherwise the result of the previous iteration becomes visible again
    while the node is running and its consumers start with a stale input.  The storage is built by its own constructor (full
    dataclass protocol, __post_init__ included), so stores that share their hidden-key set are seen as what they are."""
    from ..absint import hidden_dict_api
    p = ctx.p
    st = ctx.storage_class()
    stores = _readiness_stores(ctx)
    if len(stores) < 2:
        raise AnalysisError(f'readiness stores not found ({stores}) (ST-4 anchor vanished)')
    problems: List[str] = []
    n = 0
    for target in stores:
        def run(oracle: Oracle, target=target):
            interp = Interp(p, oracle)
            interp.eager_dataclasses = True
            storage = interp.construct(AClass(st), [], {})
            hds = {}
            for s in stores:
                hd = storage.attrs.get(s)
                if not (isinstance(hd, AObj) and isinstance(hd.cls, ClassInfo)):
                    raise AnalysisError(f'store {s} of a constructed storage is not a hidden dictionary (ST-4 world)')
                hd.attrs.setdefault('data', {})      # what UserDict.__init__ (not in the repository) creates
                hds[s] = hd
            for s in stores:
                interp.call_unit(hidden_dict_api(p, hds[s].cls)['publish'], ['K', 1], {}, hds[s])
            for s in stores:
                interp.call_unit(hidden_dict_api(p, hds[s].cls)['hide'], ['K'], {}, hds[s])
            before = {s: presence_of(hds[s], 'K', p) for s in stores}
            interp.call_unit(hidden_dict_api(p, hds[target].cls)['publish'], ['K', 2], {}, hds[target])
            return before, {s: presence_of(hds[s], 'K', p) for s in stores}
        for o in enumerate_outcomes(run):
            n += 1
            if o[0] != 'value':
                problems.append(f'publishing into {target}: raises {o[1]}')
                continue
            before, after = o[1]
            for s in stores:
                if before[s] != 'hidden':
                    problems.append(f'{s}: the node is {before[s]} after it was hidden in every store')
                elif s != target and after[s] != 'hidden':
                    problems.append(f'publishing into {target} makes the hidden entry of {s} {after[s]}')
            if after[target] != 'visible':
                problems.append(f'publishing into {target} leaves its own entry {after[target]}')
    cons = f'{st.module.name}::{st.name}::the stores are independent of each other'
    where = p.loc(st.module, st.node)
    if problems:
        out.bad('ST-4', cons, where, 'the stores of the storage are coupled: ' + '; '.join(sorted(set(problems))[:3])
                + ' - a re-armed node shows the previous iteration\'s entry as soon as one store is written', stores=stores)
    else:
        out.ok('ST-4', cons, where, f'{n} world(s): after re-arming, publishing into one of {", ".join(stores)} leaves the others hidden',
               stores=stores)
