"""RT-* (C12): retry and default policy."""
from __future__ import annotations

import ast
from typing import Dict, List, Optional, Set, Tuple

from .. import sym
from ..cfg import Ev, Graph, find_path, reach
from ..engine import Ctx
from ..guards import decompose, text
from ..paths import EXC_LABELS, NORMAL_LABELS, Search
from ..program import AnalysisError, ClassInfo, FuncEnv, FuncUnit, dotted, unparse
from ..report import Collector
from .common import in_loop_body, path_text


def _retry_unit(ctx: Ctx) -> FuncUnit:
    """The manager method with a `while True` loop whose body invokes node code."""
    mgr = ctx.manager_class()
    for m in mgr.methods.values():
        if not m.is_async:
            continue
        for n in ast.walk(m.node):
            if isinstance(n, ast.While) and isinstance(n.test, ast.Constant) and n.test.value is True:
                g = ctx.graph(m.fid)
                if any(ctx.roles.body(ev) in ('process', 'executor') for ev in g.events('call')):
                    return m
    raise AnalysisError('retry loop (while True around the node invocation) not found (RT anchors vanished)')


def _policy_class(ctx: Ctx) -> ClassInfo:
    for ci in ctx.p.classes.values():
        if {'delay', 'attempts', 'exceptions'} <= set(ci.methods) and not ctx.p.is_protocol(ci):
            return ci
    raise AnalysisError('retry policy class not found (RT-1 anchor vanished)')


def rule_policy_defaults(ctx: Ctx, out: Collector) -> None:
    """RT-1: the policy maps the node's settings with the documented defaults: delay or 0, attempts or 1,
    exceptions or (Exception,)."""
    ci = _policy_class(ctx)
    expect = {'delay': ('const', 0), 'attempts': ('const', 1), 'exceptions': 'exc'}
    for name, dflt in expect.items():
        m = ci.methods[name]
        cons = f'{m.module.name}::{m.qualname}::<node>.{name} or <documented default>'
        ret = sym.simple_return(m)
        ok = False
        detail = unparse(ret) if ret is not None else 'not a single return'
        if isinstance(ret, ast.BoolOp) and isinstance(ret.op, ast.Or) and len(ret.values) == 2:
            a, b = ret.values
            src_ok = isinstance(a, ast.Attribute) and a.attr == name and 'node' in unparse(a)
            if dflt == 'exc':
                d_ok = isinstance(b, ast.Tuple) and len(b.elts) == 1 and isinstance(b.elts[0], ast.Name) and b.elts[0].id == 'Exception'
            else:
                d_ok = isinstance(b, ast.Constant) and b.value == dflt[1] and type(b.value) is type(dflt[1])
            ok = src_ok and d_ok
        if ok:
            out.ok('RT-1', cons, ctx.p.loc(m, m.node), detail)
        else:
            out.bad('RT-1', cons, ctx.p.loc(m, m.node), f'the retry policy computes {name} as `{detail}` instead of '
                                                        f'`node.{name} or {"(Exception,)" if dflt == "exc" else dflt[1]}`: the configured / '
                                                        f'default {name} is not applied')


def rule_retry_loop(ctx: Ctx, out: Collector) -> None:
    unit = _retry_unit(ctx)
    g = ctx.graph(unit.fid)
    base = f'{unit.module.name}::{unit.qualname}'
    heads = [ev for ev in g.events('loophead') if ev.inst.parent is None]
    if len(heads) != 1:
        raise AnalysisError(f'{unit.fid}: expected one while-True loop, found {len(heads)}')
    head = heads[0]
    loop_stmt: ast.While = head.node
    pol = _policy_class(ctx)
    # ---- handlers of the try around the invocation (RT-2)
    tries = [n for n in loop_stmt.body if isinstance(n, ast.Try)]
    if len(tries) != 1:
        raise AnalysisError(f'{unit.fid}: expected one try statement in the retry loop')
    tr = tries[0]
    handlers = tr.handlers
    cons = base + '::handler classes of the invocation'
    problems = []
    env = FuncEnv.of(ctx.p, unit)
    if len(handlers) != 2:
        problems.append(f'{len(handlers)} handlers instead of (retryable, Exception)')
    else:
        h1, h2 = handlers
        t1 = sym.term(ctx.p, h1.type, g.root_inst) if h1.type is not None else None
        first_ok = isinstance(t1, tuple) and t1[0] == 'or' and len(t1[1]) == 2 and isinstance(t1[1][0], tuple) \
            and t1[1][0][0] == 'attr' and t1[1][0][2] == 'exceptions'
        if not first_ok:
            problems.append(f'the first handler catches {unparse(h1.type) if h1.type is not None else "everything"}, not the '
                            f'policy\'s exceptions setting')
        if not (isinstance(h2.type, ast.Name) and h2.type.id == 'Exception'):
            problems.append(f'the second handler catches {unparse(h2.type) if h2.type is not None else "everything (bare)"} instead of '
                            f'exactly Exception')
    for h in handlers:
        names = [(dotted(t) or '').split('.')[-1] for t in ((h.type.elts if isinstance(h.type, ast.Tuple) else [h.type]) if h.type is not None else [])]
        if h.type is None or 'BaseException' in names or 'CancelledError' in names:
            problems.append('a handler catches BaseException / cancellation: it is retried or defaulted')
    if not problems:
        out.ok('RT-2', cons, ctx.p.loc(unit, tr), 'except <policy>.exceptions -> retry path; except Exception -> default / re-raise; '
                                                  'BaseException is not caught')
    else:
        out.bad('RT-2', cons, ctx.p.loc(unit, tr), 'the handlers around the node invocation do not match the policy: ' + '; '.join(problems))

    # ---- RT-3 argument agreement
    proc_calls, dflt_calls = [], []
    for n in env.own_nodes():
        if isinstance(n, ast.Call):
            for t in env.resolve_call(n):
                if t[0] == 'func':
                    gg = ctx.graph(t[1].fid)
                    roles = {ctx.roles.body(ev) for ev in gg.events('call')}
                    if 'process' in roles or 'executor' in roles:
                        proc_calls.append(n)
                    elif 'default' in roles:
                        dflt_calls.append(n)
    kw = unit.node.args.kwarg.arg if unit.node.args.kwarg else None
    cons = base + '::get_default receives the same keyword arguments as the body'
    bad = []
    for c in proc_calls + dflt_calls:
        stars = [k.value.id for k in c.keywords if k.arg is None and isinstance(k.value, ast.Name)]
        if stars != [kw] or kw is None:
            bad.append(text(c))
    if not dflt_calls or not proc_calls:
        raise AnalysisError(f'{unit.fid}: body / default invocation not found (RT-3 anchors vanished)')
    if not bad:
        out.ok('RT-3', cons, ctx.p.loc(unit, dflt_calls[0]), f'{len(dflt_calls)} default site(s) and {len(proc_calls)} body site(s) pass **{kw}')
    else:
        out.bad('RT-3', cons, ctx.p.loc(unit, dflt_calls[0]), f'not every body / default invocation passes the node\'s keyword arguments '
                                                              f'(**{kw}): {"; ".join(bad[:3])}')

    # ---- RT-4 / RT-5 / RT-6 on the graph
    back_srcs = [m for m, lab in g.pred.get(head.id, ()) if lab == 'back']
    proc_events = [ev for ev in g.events('call') if ev.inst.parent is None and ev.node in proc_calls]
    sleeps = [ev for ev in g.events('call') if ctx.roles.sleep(ev) and ev.inst.parent is None]
    cons = base + '::every retry sleeps the configured delay and invokes the body once'
    problems = []
    delay_ok = False
    for sl in sleeps:
        t = sym.term(ctx.p, sl.node.args[0], sl.inst) if sl.node.args else None
        if isinstance(t, tuple) and t[0] == 'or' and isinstance(t[1][0], tuple) and t[1][0][0] == 'attr' and t[1][0][2] == 'delay':
            delay_ok = True
    if not delay_ok:
        problems.append('no asyncio.sleep(<policy>.delay) in the loop')
    # a path around the loop (head -> ... -> back to head) avoiding the sleep
    sleep_ids = {sl.id for sl in sleeps}
    nxt = [m for m, lab in g.succ[head.id]]
    for b_ in nxt:
        pth = find_path(g, b_, {head.id}, avoid=sleep_ids, labels=EXC_LABELS)
        if pth is not None:
            problems.append('a retry can start without sleeping')
            break
    if len(proc_events) != 1:
        problems.append(f'{len(proc_events)} body invocations in the loop')
    if not problems:
        out.ok('RT-4', cons, head.where(), 'asyncio.sleep(<policy>.delay) on every back edge; one body invocation per iteration')
    else:
        out.bad('RT-4', cons, head.where(), 'the retry loop does not wait the configured delay between attempts / does not invoke the '
                                            'body exactly once per attempt: ' + '; '.join(problems))

    # ---- RT-5 counter idiom
    cons = base + '::attempt counter idiom (k-th invocation sees counter == k, stops at attempts)'
    verdict, detail = _counter_idiom(ctx, unit, loop_stmt, tr)
    if verdict == 'ok':
        out.ok('RT-5', cons, head.where(), detail)
    elif verdict == 'bad':
        out.bad('RT-5', cons, head.where(), f'the attempt counter does not implement "attempts invocations in total": {detail}')
    else:
        raise AnalysisError(f'{unit.fid}: retry counter idiom not recognised: {detail}')

    # ---- RT-6 exits of the handlers
    cons = base + '::exhausted / non-retryable failures yield the default only under use_default, else re-raise'
    problems = []
    dflt_events = {ev.id for ev in g.events('call') if ev.inst.parent is None and ev.node in dflt_calls}
    for hi, h in enumerate(handlers):
        hev = [ev for ev in g.events('handler') if ev.node is h and ev.inst.parent is None]
        if not hev:
            continue
        hev = hev[0]
        s = Search(ctx.p, g, EXC_LABELS)

        def estep(prev, lab, e, state, facts):
            if prev is not None and prev.kind == 'branch' and lab == 'T' and prev.info.get('test') is not None:
                parts = []
                decompose(prev.info['test'], True, parts)
                if any(pol and text(gx).endswith('.use_default') for gx, pol in parts):
                    return 1
            if e.id == head.id:
                return None          # a new attempt: not this handler's exit any more
            return state

        res = s.run([(hev.id, 0, frozenset())], None, lambda e, st, f: e.id in dflt_events and st == 0, edge_step=estep)
        if res is not None:
            problems.append(f'handler {hi + 1} can produce the default without use_default')
        if hi == 1:
            r = reach(g, [hev.id], labels=EXC_LABELS, stop={head.id})
            if head.id in r:
                problems.append('a non-retryable Exception re-enters the retry loop')
        # raises in the handler re-raise the caught exception
        for n in ast.walk(ast.Module(body=h.body, type_ignores=[])):
            if isinstance(n, ast.Raise) and n.exc is not None:
                if not (isinstance(n.exc, ast.Name) and n.exc.id == h.name):
                    problems.append(f'handler {hi + 1} raises {text(n.exc)} instead of the caught exception')
    if not problems:
        out.ok('RT-6', cons, ctx.p.loc(unit, tr), 'both handlers: default only under use_default, otherwise the caught exception is re-raised; '
                                                  'the second handler never retries')
    else:
        out.bad('RT-6', cons, ctx.p.loc(unit, tr), '; '.join(problems))


def _counter_idiom(ctx: Ctx, unit: FuncUnit, loop_stmt: ast.While, tr: ast.Try) -> Tuple[str, str]:
    body = unit.node.body
    # counter: a name assigned a constant before the loop and compared against <policy>.attempts in the first handler
    h1 = tr.handlers[0] if tr.handlers else None
    if h1 is None:
        return 'unknown', 'no retry handler'
    cmp_node = None
    for n in ast.walk(ast.Module(body=h1.body, type_ignores=[])):
        if isinstance(n, ast.If) and isinstance(n.test, ast.Compare) and len(n.test.ops) == 1 and 'attempts' in unparse(n.test):
            cmp_node = n
            break
    if cmp_node is None:
        return 'unknown', 'no comparison with <policy>.attempts in the retry handler'
    t = cmp_node.test
    left, right, op = t.left, t.comparators[0], t.ops[0]
    if 'attempts' in unparse(left) and isinstance(right, ast.Name):
        left, right = right, left
        op = {ast.Lt: ast.Gt, ast.Gt: ast.Lt, ast.LtE: ast.GtE, ast.GtE: ast.LtE}.get(type(op), type(op))()
    if not isinstance(left, ast.Name):
        return 'unknown', f'unrecognised comparison {unparse(t)}'
    counter = left.id
    inits = [s_ for s_ in body if isinstance(s_, ast.Assign) and len(s_.targets) == 1 and isinstance(s_.targets[0], ast.Name)
             and s_.targets[0].id == counter]
    if len(inits) != 1 or not isinstance(inits[0].value, ast.Constant) or body.index(inits[0]) > body.index(loop_stmt):
        return 'unknown', f'{counter} is not initialised once by a constant before the loop'
    init = inits[0].value.value
    writes = [n for n in ast.walk(loop_stmt) if (isinstance(n, ast.AugAssign) and isinstance(n.target, ast.Name) and n.target.id == counter)
              or (isinstance(n, ast.Assign) and any(isinstance(x, ast.Name) and x.id == counter for x in n.targets))]
    if len(writes) != 1 or not isinstance(writes[0], ast.AugAssign) or not isinstance(writes[0].op, ast.Add) \
            or not (isinstance(writes[0].value, ast.Constant) and writes[0].value.value == 1):
        return 'unknown' if len(writes) != 1 else 'bad', f'{counter} is not advanced by exactly `+= 1` once per retry ({[unparse(w) for w in writes]})'
    inc = writes[0]
    # the increment sits in the retry handler after the comparison, outside the exhaustion branch
    if inc not in h1.body or h1.body.index(inc) < h1.body.index(cmp_node):
        return 'unknown', 'the increment is not a statement of the retry handler after the exhaustion test'
    # the exhaustion branch must leave the loop on every path
    from ..guards import always_leaves
    if not always_leaves(cmp_node.body):
        return 'bad', 'the exhaustion branch does not leave the loop on every path: more than `attempts` invocations'
    # invocation k happens with counter == init + (k-1); exhaustion test `counter OP attempts` after failed invocation k
    if isinstance(op, (ast.Eq, ast.GtE)):
        if init == 1:
            return 'ok', f'{counter} = 1; after a failed invocation: if {unparse(t)} -> exhausted; else {counter} += 1'
        return 'bad', f'{counter} starts at {init}: the body is invoked attempts{"+" if init < 1 else "-"}{abs(1 - init)} times in total'
    if isinstance(op, ast.Gt):
        if init == 2:
            return 'ok', 'equivalent shifted idiom'
        return 'bad', f'`{unparse(t)}` with {counter} starting at {init}: the body is invoked attempts+{2 - init} times in total'
    return 'unknown', f'comparison operator {type(op).__name__}'
