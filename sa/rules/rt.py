"""RT-* (C12): retry and default policy."""
from __future__ import annotations

import ast
from typing import Dict, List, Optional, Set, Tuple

from .. import sym
from ..cfg import Ev, Graph, find_path, reach
from ..engine import Ctx
from ..guards import decompose, text
from ..paths import EXC_LABELS, NORMAL_LABELS, Search
from ..program import AnalysisError, ClassInfo, FuncEnv, FuncUnit, dotted, unparse
from ..report import Collector
from .common import in_loop_body, path_text


def _body_region(g: Graph, head: Ev) -> Set[int]:
    return {ev.id for ev in g.evs if ev.id != head.id and in_loop_body(ev, head)}


def _retry_loop(ctx: Ctx) -> Tuple[FuncUnit, Graph, Ev]:
    """The manager coroutine and the loop (while / for, whatever its spelling) whose body invokes node code."""
    mgr = ctx.manager_class()
    found = []
    for m in mgr.methods.values():
        if not m.is_async:
            continue
        if not any(isinstance(n, (ast.While, ast.For)) for n in ast.walk(m.node)):
            continue
        g = ctx.graph(m.fid)
        for head in g.events('loophead') + g.events('loop'):
            if head.inst.parent is not None or head.info.get('comp') is not None:
                continue
            region = _body_region(g, head)
            if any(ctx.roles.body(g.evs[n]) in ('process', 'executor') for n in region if g.evs[n].kind == 'call'):
                found.append((m, g, head))
    if len(found) != 1:
        raise AnalysisError(f'retry loop (a loop around the node invocation) not found: {len(found)} candidates (RT anchors vanished)')
    return found[0]


def _retry_unit(ctx: Ctx) -> FuncUnit:
    return _retry_loop(ctx)[0]


def _policy_class(ctx: Ctx) -> ClassInfo:
    for ci in ctx.p.classes.values():
        if {'delay', 'attempts', 'exceptions'} <= set(ci.methods) and not ctx.p.is_protocol(ci):
            return ci
    raise AnalysisError('retry policy class not found (RT-1 anchor vanished)')


def _policy_term(ctx: Ctx, ci: ClassInfo, name: str):
    """Term of the policy property `name`, evaluated on a symbolic policy object."""
    from ..cfg import Inst
    m = ci.methods[name]
    ret = sym.simple_return(m)
    if ret is None:
        return None, m
    return sym.term(ctx.p, ret, Inst(m, None, None, {})), m


def _is_setting(t, name: str, dflt) -> bool:
    """t == <node>.<name> or <documented default>"""
    if not (isinstance(t, tuple) and t[0] == 'or' and len(t[1]) == 2):
        return False
    a, b = t[1]
    if not (isinstance(a, tuple) and a[0] == 'attr' and a[2] == name and 'node' in sym.show(a[1])):
        return False
    if dflt == 'exc':
        return b == ('tuple', (('global', 'builtins.Exception'),))
    return b == ('const', dflt) and type(b[1]) is type(dflt)


def _reads_setting_expr(ctx: Ctx, expr: Optional[ast.AST], inst, name: str) -> bool:
    """`expr` reads the policy's `name` setting: an attribute `name` of an object whose class is the retry policy (or
    the policy protocol) - however the property itself is implemented - or a term recognised by _reads_setting."""
    if expr is None:
        return False
    e, i = sym.resolve_value(ctx.p, expr, inst)
    if isinstance(e, ast.Attribute) and e.attr == name:
        bt = FuncEnv.of(ctx.p, i.unit).type_of(e.value)
        if bt[0] == 'class' and (bt[1] is _policy_class(ctx) or name in bt[1].methods and 'Retry' in bt[1].name):
            return True
    return _reads_setting(sym.term(ctx.p, expr, inst), name)


def _reads_setting(t, name: str) -> bool:
    """t is the policy's `name` setting whatever default it applies (RT-1 decides the default)."""
    if isinstance(t, tuple) and t and t[0] == 'or':
        t = t[1][0]
    return isinstance(t, tuple) and len(t) == 3 and t[0] in ('attr', 'prop') and t[2] == name


def rule_policy_defaults(ctx: Ctx, out: Collector) -> None:
    """RT-1: the policy maps the node's settings with the documented defaults: delay or 0, attempts or 1,
    exceptions or (Exception,).  Decided by interpreting each property over the value classes of the node's
    setting: unset (None), falsy (0 / empty), set (a truthy value)."""
    from ..absint import AClass, AObj, Interp, Oracle, enumerate_outcomes
    ci = _policy_class(ctx)
    expect = {'delay': 0, 'attempts': 1, 'exceptions': 'exc'}
    SET = AObj(('ext', 'builtins.object'), {}, tag='configured-value')
    for name, dflt in expect.items():
        m = ci.methods[name]
        cons = f'{m.module.name}::{m.qualname}::<node>.{name}, or the documented default when it is unset'
        table = {}
        problems = []
        if name == 'exceptions':
            SET = (AClass(('ext', 'builtins.ValueError')), AClass(('ext', 'builtins.KeyError')))
        for label, val in (('unset (None)', None), ('falsy', 0 if name != 'exceptions' else ()), ('set', SET)):
            def run(oracle: Oracle, val=val):
                interp = Interp(ctx.p, oracle)
                node = AObj(('ext', 'NodeBase'), {'delay': None, 'attempts': None, 'exceptions': None, 'use_default': False})
                node.attrs[name] = val
                pol = AObj(ci, {'node': node})
                return interp.call_unit(m, [], {}, pol, None)
            try:
                outs = enumerate_outcomes(run)
            except AnalysisError as ex:
                raise AnalysisError(f'{m.fid}: {ex}')
            vals = []
            for o in outs:
                v = o[1] if o[0] == 'value' else f'raises {o[1]}'
                vals.append(v)
            table[label] = vals

            def is_default(v) -> bool:
                if dflt == 'exc':
                    return isinstance(v, tuple) and len(v) == 1 and isinstance(v[0], AClass) and v[0].ref == ('ext', 'builtins.Exception')
                return v == dflt and type(v) is type(dflt)
            if label == 'set':
                if not (len(vals) == 1 and (vals[0] is SET or (name == 'exceptions' and vals[0] == SET))):
                    problems.append(f'a configured {name} yields {vals}')
            elif label == 'falsy' and name == 'exceptions':
                # an explicit empty tuple is a configured value ("retry nothing"), not an unset one
                if not (len(vals) == 1 and vals[0] == () and not is_default(vals[0])):
                    problems.append(f'an explicitly empty exceptions tuple yields {vals} (must stay empty: nothing is retried)')
            elif not (len(vals) == 1 and is_default(vals[0])):
                problems.append(f'{label} {name} yields {vals}')
        detail = '; '.join(f'{k} -> {v}' for k, v in table.items())
        if not problems:
            out.ok('RT-1', cons, ctx.p.loc(m, m.node), detail)
        else:
            out.bad('RT-1', cons, ctx.p.loc(m, m.node), f'the retry policy does not map the node\'s {name} setting with the documented '
                                                        f'default {"(Exception,)" if dflt == "exc" else dflt} ({"; ".join(problems)}): '
                                                        f'the configured / default {name} is not applied')


def _innermost_try(loop_stmt: ast.AST, call: ast.AST) -> Optional[ast.Try]:
    best = None
    for n in ast.walk(loop_stmt):
        if isinstance(n, ast.Try) and n.handlers and any(c is call for b in n.body for c in ast.walk(b)):
            if best is None or any(x is n for x in ast.walk(best)):
                best = n
    return best


def rule_retry_loop(ctx: Ctx, out: Collector) -> None:
    unit, g, head = _retry_loop(ctx)
    base = f'{unit.module.name}::{unit.qualname}'
    loop_stmt = head.node
    region = _body_region(g, head)
    pol = _policy_class(ctx)
    env = FuncEnv.of(ctx.p, unit)
    # ---- the invocations
    proc_calls, dflt_calls = [], []
    for n in env.own_nodes():
        if isinstance(n, ast.Call):
            for t in env.resolve_call(n):
                if t[0] == 'func':
                    gg = ctx.graph(t[1].fid)
                    roles = {ctx.roles.body(ev) for ev in gg.events('call')}
                    if 'process' in roles or 'executor' in roles:
                        proc_calls.append(n)
                    elif 'default' in roles:
                        dflt_calls.append(n)
    loop_procs = [c for c in proc_calls if any(x is c for x in ast.walk(loop_stmt))]
    if not dflt_calls or not loop_procs:
        raise AnalysisError(f'{unit.fid}: body / default invocation not found (RT-3 anchors vanished)')
    # ---- handlers of the try around the invocation (RT-2)
    tr = _innermost_try(loop_stmt, loop_procs[0])
    if tr is None:
        raise AnalysisError(f'{unit.fid}: no try statement around the node invocation in the retry loop')
    handlers = tr.handlers
    cons = base + '::handler classes of the invocation'
    problems = []
    exc_term, _ = _policy_term(ctx, pol, 'exceptions')
    if len(handlers) != 2:
        problems.append(f'{len(handlers)} handlers instead of (retryable, Exception)')
    else:
        h1, h2 = handlers
        t1 = sym.term(ctx.p, h1.type, g.root_inst) if h1.type is not None else None
        first_ok = _reads_setting_expr(ctx, h1.type, g.root_inst, 'exceptions')
        if not first_ok:
            problems.append(f'the first handler catches {unparse(h1.type) if h1.type is not None else "everything"}, not the '
                            f'policy\'s exceptions setting')
        if not (isinstance(h2.type, ast.Name) and h2.type.id == 'Exception'):
            problems.append(f'the second handler catches {unparse(h2.type) if h2.type is not None else "everything (bare)"} instead of '
                            f'exactly Exception')
    for h in handlers:
        names = [(dotted(t) or '').split('.')[-1] for t in ((h.type.elts if isinstance(h.type, ast.Tuple) else [h.type]) if h.type is not None else [])]
        if h.type is None or 'BaseException' in names or 'CancelledError' in names:
            problems.append('a handler catches BaseException / cancellation: it is retried or defaulted')
    if not problems:
        out.ok('RT-2', cons, ctx.p.loc(unit, tr), 'except <policy>.exceptions -> retry path; except Exception -> default / re-raise; '
                                                  'BaseException is not caught')
    else:
        out.bad('RT-2', cons, ctx.p.loc(unit, tr), 'the handlers around the node invocation do not match the policy: ' + '; '.join(problems))

    # ---- RT-2b: errors outside Exception that the policy's filter may name are re-raised before anything else
    cons2 = base + '::non-Exception errors caught by the policy handler are re-raised at once'
    if handlers:
        h1 = handlers[0]
        hev1 = [ev for ev in g.events('handler') if ev.node is h1 and ev.inst.parent is None]
        if hev1 and h1.name:
            s_ = Search(ctx.p, g, EXC_LABELS)

            def estep_b(prev, lab, e, state, facts, hname=h1.name):
                if prev is not None and prev.kind == 'branch' and lab in ('T', 'F') and prev.info.get('test') is not None:
                    parts = []
                    decompose(prev.info['test'], lab == 'T', parts)
                    for gx, pol_ in parts:
                        if pol_ and isinstance(gx, ast.Call) and isinstance(gx.func, ast.Name) and gx.func.id == 'isinstance' \
                                and len(gx.args) == 2 and isinstance(gx.args[0], ast.Name) and gx.args[0].id == hname \
                                and (dotted(gx.args[1]) or '').split('.')[-1] == 'Exception':
                            return 1
                return state

            def goal_b(e, st, f):
                if st != 0:
                    return False
                if e.id == head.id:
                    return True
                if e.kind == 'await':
                    return True
                if e.kind == 'call' and (ctx.roles.body(e) or ctx.roles.sleep(e) or ctx.roles.collab(e)):
                    return True
                return False
            resb = s_.run([(hev1[0].id, 0, frozenset())], None, goal_b, edge_step=estep_b)
            if resb is None:
                out.ok('RT-2', cons2, ctx.p.loc(unit, h1), 'the handler continues only for instances of Exception')
            else:
                out.bad('RT-2', cons2, ctx.p.loc(unit, h1),
                        'the retry setting may name BaseException classes (RetryProtocol.exceptions), and the handler of the policy\'s '
                        'filter treats whatever it caught as a retryable failure: the CancelledError that ends a run (or KeyboardInterrupt) '
                        'is answered with on_node_complete, a sleep and a new attempt - BaseExceptions outside Exception must be neither '
                        'retried nor defaulted', path_text(g, resb[0]), props={'C12', 'C13'})

    # ---- RT-7: the default value is never produced inside the protected region of the retry loop
    cons7 = base + '::get_default is not run under the retry handlers'
    bad7 = []
    for c in dflt_calls:
        in_try_body = any(c is x for b_ in tr.body for x in ast.walk(b_))
        if in_try_body:
            bad7.append(text(c))
    if not bad7:
        out.ok('RT-7', cons7, ctx.p.loc(unit, tr), 'every default invocation lies outside the try body the retry handlers protect')
    else:
        out.bad('RT-7', cons7, ctx.p.loc(unit, tr),
                f'{bad7[0]} is evaluated inside the try whose handlers retry / default: a failing get_default is retried like a node '
                f'attempt (attempts + 1 calls, with delays) or called a second time by the handlers')

    # ---- RT-3 argument agreement
    kw = unit.node.args.kwarg.arg if unit.node.args.kwarg else None
    cons = base + '::get_default receives the same keyword arguments as the body'
    bad = []
    for c in proc_calls + dflt_calls:
        stars = [k.value.id for k in c.keywords if k.arg is None and isinstance(k.value, ast.Name)]
        if stars != [kw] or kw is None:
            bad.append(text(c))
    if not bad:
        out.ok('RT-3', cons, ctx.p.loc(unit, dflt_calls[0]), f'{len(dflt_calls)} default site(s) and {len(proc_calls)} body site(s) pass **{kw}')
    else:
        out.bad('RT-3', cons, ctx.p.loc(unit, dflt_calls[0]), f'not every body / default invocation passes the node\'s keyword arguments '
                                                              f'(**{kw}): {"; ".join(bad[:3])}')

    # ---- RT-4 / RT-5 / RT-6 on the graph
    proc_events = [ev for ev in g.events('call') if ev.inst.parent is None and ev.node in loop_procs]
    sleeps = [ev for ev in g.events('call') if ctx.roles.sleep(ev) and ev.inst.parent is None and ev.id in region]
    cons = base + '::every retry sleeps the configured delay and invokes the body once'
    problems = []
    delay_ok = False
    for sl in sleeps:
        t = sym.term(ctx.p, sl.node.args[0], sl.inst) if sl.node.args else None
        if sl.node.args and _reads_setting_expr(ctx, sl.node.args[0], sl.inst, 'delay'):
            delay_ok = True
    if not delay_ok:
        problems.append('no asyncio.sleep(<policy>.delay) in the loop')
    # a path around the loop (head -> ... -> back to head) avoiding the sleep
    sleep_ids = {sl.id for sl in sleeps if sl.node.args and _reads_setting_expr(ctx, sl.node.args[0], sl.inst, 'delay')}
    nxt = [m for m, lab in g.succ[head.id] if lab in ('n', 'T')]
    for b_ in nxt:
        pth = find_path(g, b_, {head.id}, avoid=sleep_ids, labels=EXC_LABELS)
        if pth is not None:
            problems.append('a retry can start without sleeping')
            break
    if len(proc_events) != 1:
        problems.append(f'{len(proc_events)} body invocations in the loop')
    if not problems:
        out.ok('RT-4', cons, head.where(), 'asyncio.sleep(<policy>.delay) on every back edge; one body invocation per iteration')
    else:
        out.bad('RT-4', cons, head.where(), 'the retry loop does not wait the configured delay between attempts / does not invoke the '
                                            'body exactly once per attempt: ' + '; '.join(problems))

    # ---- RT-8: the policy object of the loop is made from the class configured on the dag
    cons8 = base + '::the retry policy is the one configured on the dag [dag policy]'
    makers = []
    for n in env.own_nodes():
        if isinstance(n, ast.Call) and any(k.arg == 'node' for k in n.keywords) and not n.args:
            tt = [t for t in env.resolve_call(n)]
            is_policy = any(t[0] == 'class' and (t[1] is pol or any(getattr(b, 'name', '') == 'RetryPolicyLike' for b in ctx.p.mro(t[1])
                                                                   if isinstance(b, ClassInfo))) for t in tt) \
                or (isinstance(n.func, ast.Attribute) and 'retry_policy' in n.func.attr)
            if is_policy:
                makers.append(n)
    if not makers:
        raise AnalysisError(f'{unit.fid}: construction of the retry policy not found (RT-8 anchor vanished)')
    hard = [n for n in makers if not (isinstance(n.func, ast.Attribute) and n.func.attr == 'retry_policy')]
    if not hard:
        out.ok('RT-8', cons8, ctx.p.loc(unit, makers[0]), unparse(makers[0])[:60])
    else:
        out.bad('RT-8', cons8, ctx.p.loc(unit, hard[0]), f'{unparse(hard[0])[:60]} instantiates a fixed policy class: the retry_policy '
                f'field of the DAG (public, part of DAGLike) is never read, a policy configured on the dag has no effect')

    # ---- RT-5 counter
    cons = base + '::attempt counter (k-th invocation sees counter == k, stops at attempts)'
    _LAST_EXIT_TEST.pop(unit.fid, None)
    verdict, detail = _counter(ctx, unit, g, head, region)
    if verdict == 'ok':
        out.ok('RT-5', cons, head.where(), detail)
        # RT-9: the setting is user data: the loop must give up for every counter value at or beyond it
        cons9 = base + '::the retry loop gives up for every counter value at or beyond `attempts` [bounded retry]'
        if _LAST_EXIT_TEST.get(unit.fid) == 'equality':
            out.bad('RT-9', cons9, head.where(), 'the only exit of the retry loop is an equality of the counter with the setting: for a '
                    'setting the counter never equals (negative, non-integral) a failing node is retried for ever, run() never returns '
                    'and use_default is never applied')
        else:
            out.ok('RT-9', cons9, head.where(), 'threshold test')
    elif verdict == 'bad':
        out.bad('RT-5', cons, head.where(), f'the attempt counter does not implement "attempts invocations in total": {detail}')
    else:
        raise AnalysisError(f'{unit.fid}: retry counter idiom not recognised: {detail}')

    # ---- RT-6 exits of the handlers
    cons = base + '::exhausted / non-retryable failures yield the default only under use_default, else re-raise'
    problems = []
    dflt_events = {ev.id for ev in g.events('call') if ev.inst.parent is None and ev.node in dflt_calls}
    for hi, h in enumerate(handlers):
        hev = [ev for ev in g.events('handler') if ev.node is h and ev.inst.parent is None]
        if not hev:
            continue
        hev = hev[0]
        s = Search(ctx.p, g, EXC_LABELS)

        def estep(prev, lab, e, state, facts):
            if prev is not None and prev.kind == 'branch' and lab == 'T' and prev.info.get('test') is not None:
                parts = []
                decompose(prev.info['test'], True, parts)
                if any(pol_ and text(gx).endswith('.use_default') for gx, pol_ in parts):
                    return 1
            if e.id == head.id:
                return None          # a new attempt: not this handler's exit any more
            return state

        res = s.run([(hev.id, 0, frozenset())], None, lambda e, st, f: e.id in dflt_events and st == 0, edge_step=estep)
        if res is not None:
            problems.append(f'handler {hi + 1} can produce the default without use_default')
        if hi == 1:
            r = reach(g, [hev.id], labels=EXC_LABELS, stop={head.id})
            if head.id in r:
                problems.append('a non-retryable Exception re-enters the retry loop')
        # raises in the handler re-raise the caught exception
        for n in ast.walk(ast.Module(body=h.body, type_ignores=[])):
            if isinstance(n, ast.Raise) and n.exc is not None:
                if not (isinstance(n.exc, ast.Name) and n.exc.id == h.name):
                    problems.append(f'handler {hi + 1} raises {text(n.exc)} instead of the caught exception')
    if not problems:
        out.ok('RT-6', cons, ctx.p.loc(unit, tr), 'both handlers: default only under use_default, otherwise the caught exception is re-raised; '
                                                  'the second handler never retries')
    else:
        out.bad('RT-6', cons, ctx.p.loc(unit, tr), '; '.join(problems))


_FLIP = {ast.Lt: ast.Gt, ast.Gt: ast.Lt, ast.LtE: ast.GtE, ast.GtE: ast.LtE, ast.Eq: ast.Eq, ast.NotEq: ast.NotEq}
_NEG = {ast.Lt: ast.GtE, ast.GtE: ast.Lt, ast.Gt: ast.LtE, ast.LtE: ast.Gt, ast.Eq: ast.NotEq, ast.NotEq: ast.Eq}


_LAST_EXIT_TEST: Dict[str, str] = {}


def _counter(ctx: Ctx, unit: FuncUnit, g: Graph, head: Ev, region: Set[int]) -> Tuple[str, str]:
    """Decides "the body is invoked `attempts` times in total" from the graph:
       * E: the comparison of a local counter with <policy>.attempts evaluated in the loop (in a branch test or
         assigned to a flag first);
       * with E assumed either way at the point where it is evaluated, exactly one outcome can reach the loop head
         again (the retry arm), the other cannot (exhaustion);
       * the counter holds c0 + (k - 1) + pre when E is evaluated in iteration k: c0 from its initialisation (or the
         start of itertools.count), +1 per iteration, pre = increments between the loop head and E."""
    from ..paths import FactOps, _norm, free_names
    pol = _policy_class(ctx)
    # --- E sites
    sites = []          # (event, compare node)
    for n in sorted(region):
        ev = g.evs[n]
        if ev.inst.parent is not None:
            continue
        expr = ev.info.get('test') if ev.kind == 'branch' else (ev.info.get('value') if ev.kind == 'assign' else None)
        if expr is None:
            continue
        for c in ast.walk(expr):
            if isinstance(c, ast.Compare) and len(c.ops) == 1:
                if _reads_setting_expr(ctx, c.left, ev.inst, 'attempts') or _reads_setting_expr(ctx, c.comparators[0], ev.inst, 'attempts'):
                    sites.append((ev, c))
    if not sites:
        return 'unknown', 'no comparison with <policy>.attempts in the retry loop'
    if len({_norm(c) for ev, c in sites}) != 1:
        return 'unknown', f'several different comparisons with <policy>.attempts: {sorted({_norm(c) for ev, c in sites})}'
    ev0, cmp0 = sites[0]
    op = type(cmp0.ops[0])
    left, right = cmp0.left, cmp0.comparators[0]
    if _reads_setting_expr(ctx, left, ev0.inst, 'attempts'):
        left, right = right, left
        op = _FLIP.get(op)
    if op is None or not isinstance(left, ast.Name):
        return 'unknown', f'unrecognised comparison {unparse(cmp0)}'
    counter = left.id
    # --- which outcome of E retries
    fo = FactOps(ctx.p)
    key = ('t', ev0.inst.iid, _norm(cmp0), free_names(cmp0))
    reach_head = {}
    leaves = {}
    for val in (True, False):
        rh = lv = False
        for ev, c in sites:
            s = Search(ctx.p, g, NORMAL_LABELS)
            res = s.run([(ev.id, 0, frozenset([(key, val)]))], lambda e, st, f: 0 if st is not None else None,
                        lambda e, st, f: e.id == head.id)
            rh = rh or res is not None
            s = Search(ctx.p, g, NORMAL_LABELS)
            res = s.run([(ev.id, 0, frozenset([(key, val)]))], lambda e, st, f: None if e.id == head.id else 0,
                        lambda e, st, f: e.kind in ('return', 'raise') and e.inst.parent is None)
            lv = lv or res is not None
        reach_head[val], leaves[val] = rh, lv
    if reach_head[True] and reach_head[False]:
        return 'bad', f'whatever `{unparse(cmp0)}` yields the loop can run the body again: more than `attempts` invocations'
    if not reach_head[True] and not reach_head[False]:
        return 'bad', f'after `{unparse(cmp0)}` the loop never runs the body again: a failed attempt is never retried'
    exhausted_when = not reach_head[True]        # E == exhausted_when  <=> exhausted
    retry_val = not exhausted_when
    if leaves[retry_val]:
        return 'bad', f'with `{unparse(cmp0)}` {"false" if exhausted_when else "true"} (attempts left) the handler can still leave ' \
                      f'the loop: fewer than `attempts` invocations'
    if not exhausted_when:
        op = _NEG[op]
    # --- the counter: initial value, +1 per iteration, increments before E
    own_assigns = [g.evs[n] for n in sorted(region) if g.evs[n].kind == 'assign' and g.evs[n].inst.parent is None
                   and g.evs[n].info.get('name') == counter]
    if head.kind == 'loop':
        tgt = head.info.get('target')
        it = head.info.get('iter')
        if not (isinstance(tgt, ast.Name) and tgt.id == counter):
            return 'unknown', f'{counter} is not the loop variable'
        tg = FuncEnv.of(ctx.p, unit).resolve_call(it) if isinstance(it, ast.Call) else []
        if not any(t[0] == 'ext' and t[1] == 'itertools.count' for t in tg):
            return 'unknown', f'loop over {unparse(it)}: only `while True` and itertools.count() loops are modelled'
        args = list(it.args) + [k.value for k in it.keywords]
        named = {k.arg: k.value for k in it.keywords}
        start = it.args[0] if it.args else named.get('start')
        step = it.args[1] if len(it.args) > 1 else named.get('step')
        if start is not None and not (isinstance(start, ast.Constant) and isinstance(start.value, int)):
            return 'unknown', f'itertools.count start {unparse(start)}'
        if step is not None and not (isinstance(step, ast.Constant) and step.value == 1):
            return 'bad', f'itertools.count step {unparse(step)}: the counter does not advance by one per attempt'
        init = start.value if start is not None else 0
        if own_assigns:
            return 'unknown', f'{counter} is reassigned inside the loop'
        pre = 0
        how = f'for {counter} in itertools.count({init})'
    else:
        # constant reaching the loop head on first entry
        inits = set()
        s = Search(ctx.p, g, NORMAL_LABELS)

        def goal(e, st, f):
            if e.id == head.id:
                inits.add(fo.get(f, ('v', head.inst.iid, counter)))
            return False
        s.run([(g.entry, 0, frozenset())], lambda e, st, f: None if e.id in region else 0, goal)
        if len(inits) != 1 or None in inits or not isinstance(next(iter(inits))[0], int):
            return 'unknown', f'{counter} does not reach the loop with one constant value ({inits})'
        init = next(iter(inits))[0]
        for a in own_assigns:
            nd = a.node
            if not (isinstance(nd, ast.AugAssign) and isinstance(nd.op, ast.Add) and isinstance(nd.value, ast.Constant) and nd.value.value == 1):
                return 'bad' if isinstance(nd, ast.AugAssign) else 'unknown', \
                    f'{counter} is changed by `{unparse(nd)}`, not advanced by exactly one per retry'
        inc_ids = {a.id for a in own_assigns}
        if not inc_ids:
            return 'bad', f'{counter} is never advanced: the loop never exhausts'

        def count_paths(starts, targets):
            """set of increment counts over all normal paths starts -> targets (capped at 2)"""
            counts = set()
            s2 = Search(ctx.p, g, EXC_LABELS)

            def step(e, st, f):
                if e.id in inc_ids:
                    return min(st + 1, 2)
                return st

            def goal2(e, st, f):
                if e.id in targets:
                    counts.add(st)
                return False

            def edge_ok(a, lab, b):
                return a.id not in targets
            s2.run(starts, step, goal2, edge_ok=edge_ok)
            return counts
        nxt = [(m, 0, frozenset()) for m, lab in g.succ[head.id] if lab in ('n', 'T')]
        around = count_paths(nxt, {head.id})
        if around != {1}:
            return 'bad', f'{counter} is advanced {sorted(around)} times on a way around the loop, not exactly once per retry'
        pres = count_paths(nxt, {ev.id for ev, c in sites})
        if len(pres) != 1:
            return 'unknown', f'{counter} is advanced a varying number of times before `{unparse(cmp0)}`'
        pre = next(iter(pres))
        how = f'{counter} = {init}; {counter} += 1 once per retry ({"before" if pre else "after"} the test)'
    # --- value at E in iteration k: init + (k-1) + pre; exhausted <=> value OP attempts; required: exhausted <=> k >= attempts
    v1 = init + pre          # value in iteration 1
    if op in (ast.Eq, ast.GtE):
        if v1 == 1:
            _LAST_EXIT_TEST[unit.fid] = 'equality' if op is ast.Eq else 'threshold'
            return 'ok', f'{how}; exhausted iff {counter} {"==" if op is ast.Eq else ">="} attempts: invocation k sees {counter} == k'
        return 'bad', f'{how}: the counter is {v1} after the first failed attempt, so the body is invoked attempts{1 - v1:+d} times in total'
    if op is ast.Gt:
        if v1 == 2:
            _LAST_EXIT_TEST[unit.fid] = 'threshold'
            return 'ok', f'{how}; exhausted iff {counter} > attempts'
        return 'bad', f'{how}, exhausted iff {counter} > attempts: the body is invoked attempts{2 - v1:+d} times in total'
    sym_ = {ast.NotEq: '!=', ast.Lt: '<', ast.LtE: '<='}.get(op, op.__name__)
    return 'bad', f'{how}; the loop gives up iff {counter} {sym_} attempts, which does not hold exactly from invocation number ' \
                  f'`attempts` on: the body is not invoked `attempts` times in total'
