"""Rules added for the third batch of defects reproduced by independent bug-hunting agents (DESIGN 9.14).  The repaired
defects have their guards next to the code they concern (rt.py RT-8/RT-9, bw.py BN-4/BD-13, vw.py VW-7, wk.py ON-7,
er.py ER-9/ER-2, fs.py FS-7); this module holds the rules of the defects that are recorded, not repaired.

ER-10  a task that dies wakes run() (done-callback, or every task root catches and notifies)
VL-11  the start node of a recurrent subgraph is an ancestor of its destination and is validated
RC-10  the hand-over of a re-iteration is keyed by the subgraph, not by the start node alone
BD-14  two recurrent declarations for one destination are not merged
BD-15  every (label -> case) pair and the decider role of a switch survive translation
BD-16  the built graph is acyclic
CC-12  the readiness wait of one node does not delay the launch of the next
EV-7   on_pipeline_complete closes the history on every exit of run(), also a non-Exception one
FS-8   a save creates the key atomically and exclusively
RD-10  in a recurrent scope readiness waits for parameter sources outside the subgraph that have no result
BN-5   get_default of a build_node node receives the dependencies_default its process receives
VL-12  a class without a run method of its own is rejected even when a base class provides a stub
"""
from __future__ import annotations

import ast
from typing import Dict, List, Optional, Set, Tuple

from .. import sym
from ..absint import AFunc, AObj, ARaise, Interp, Oracle, TOP, enumerate_outcomes, value_token
from ..cfg import Ev, Graph, find_path
from ..engine import CHART_RUN, Ctx
from ..paths import ALL_LABELS, EXC_LABELS, NORMAL_LABELS, Search
from ..program import AnalysisError, ClassInfo, FuncEnv, FuncUnit, dotted, unparse
from ..report import Collector
from .cc import launch_loops
from .common import loop_region, path_text


# ---------------------------------------------------------------------------------------------
# ER-10
# ---------------------------------------------------------------------------------------------
def rule_dead_task_wakes_run(ctx: Ctx, out: Collector) -> None:
    """ER-10: run() re-evaluates its error scan only when somebody notifies its condition.  The engine's own helper
    coroutines (sub-dag launchers, one-of / switch / recurrent drivers) can die of something the fault model of WK-b does not
    list - `range(None)` for max_iterations=None, NodeNotFound for a Recurrent marker without a declared subgraph.  The spawn
    helper attaches a done-callback that wakes run(), or nothing guarantees the wake-up."""
    mgr = ctx.manager_class()
    n = 0
    callbacks = set()
    for m in mgr.methods.values():
        for c in ast.walk(m.node):
            if isinstance(c, ast.Call) and isinstance(c.func, ast.Attribute) and c.func.attr == 'add_done_callback':
                for a in c.args:
                    if isinstance(a, ast.Attribute):
                        callbacks.add(a.attr)
    for m in mgr.methods.values():
        if m.name in callbacks:
            continue
        env = FuncEnv.of(ctx.p, m)
        spawns = [c for c in env.own_nodes() if isinstance(c, ast.Call)
                  and any(t[0] == 'ext' and (t[1].endswith('.create_task') or t[1].endswith('ensure_future')) for t in env.resolve_call(c))]
        if not spawns:
            continue
        n += 1
        has_callback = any(isinstance(c, ast.Call) and isinstance(c.func, ast.Attribute) and c.func.attr == 'add_done_callback'
                           for c in env.own_nodes())
        cons = f'{m.module.name}::{m.qualname}::a task that ends with an exception wakes run() [dead task wakes run]'
        if has_callback:
            out.ok('ER-10', cons, ctx.p.loc(m, spawns[0]), 'done-callback attached where the task is created')
        else:
            out.bad('ER-10', cons, ctx.p.loc(m, spawns[0]), 'tasks are created without a done-callback: an exception that ends a scheduler '
                    'helper coroutine outside a node body (max_iterations=None -> range(None); a Recurrent marker returned by a node '
                    'that no RecurrentSubGraph declares -> NodeNotFound) leaves a failed task in the registry that nobody looks at: '
                    'run() is never notified and hangs instead of reporting the error')
    if n == 0:
        raise AnalysisError('no task-creating method on the run manager (ER-10 anchor vanished)')


# ---------------------------------------------------------------------------------------------
# builder worlds: VL-11, BD-14, BD-15, BD-16
# ---------------------------------------------------------------------------------------------
def rule_builder_structure(ctx: Ctx, out: Collector) -> None:
    from .bw import Marks, _loc, _summary, node, run_build
    mk = Marks(ctx)
    build, where = _loc(ctx)
    base = f'{build.module.name}::{build.qualname}::'

    # ---- VL-11: the start node of a recurrent subgraph
    side = node('Side')
    d = node('D', [('q', mk.input(node('G')))])
    got_named_only = _summary(run_build(ctx, node('I'), node('O', [('p', mk.rec(node('S'), d))]), keep_recurrent_validation=True))
    d2 = node('D', [('q', mk.input(node('G')))])
    got_not_ancestor = _summary(run_build(ctx, node('I'), node('O', [('p', mk.rec(side, d2)), ('s', mk.input(side))]),
                                          keep_recurrent_validation=True))
    cons = base + 'the start node of a recurrent subgraph is validated and is an ancestor of the destination [recurrent start]'
    problems = []
    if any(x == 'built' or 'KeyError' in x for x in got_named_only):
        problems.append(f'a start node named only by the mark: {got_named_only} (never registered nor validated: a bare KeyError, '
                        f'whatever defect it has)')
    if 'built' in got_not_ancestor:
        problems.append(f'a start node that is not an ancestor of the destination: {got_not_ancestor} (the re-iteration gets an empty '
                        f'sub-dag, the destination keeps its Recurrent marker and the run hangs)')
    if not problems:
        out.ok('VL-11', cons, where, f'named only by the mark: {got_named_only}; not an ancestor: {got_not_ancestor}')
    else:
        out.bad('VL-11', cons, where, '; '.join(problems))

    # ---- BD-14: two recurrent declarations for one destination
    dest = node('D', [('q', mk.input(node('S1'))), ('r', mk.input(node('S2')))])
    a = node('A', [('d', mk.rec(dest.attrs['marks'][0][1].attrs['node'], dest, 5))])
    b = node('B', [('d', mk.rec(dest.attrs['marks'][1][1].attrs['node'], dest, 1))])
    outs = run_build(ctx, node('I'), node('O', [('a', mk.input(a)), ('b', mk.input(b))]))
    cons = base + 'two recurrent declarations for one destination are not merged [recurrent settings per declaration]'
    merged = False
    for o in outs:
        if o[0] != 'value':
            continue
        attrs = o[1][0].attrs['nodes'].get('id:D', {})
        vals = list(attrs.values())
        if not (5 in vals and 1 in vals):
            merged = True
    if not merged:
        out.ok('BD-14', cons, where, f'{_summary(outs)}')
    else:
        out.bad('BD-14', cons, where, 'start node and max_iterations are stored as attributes of the destination node: of two '
                'RecurrentSubGraph declarations for one destination the one visited last wins (which one that is depends on the '
                'parameter order of another node) - one destination runs 2 or 4 times, the data goes to the other start node')

    # ---- BD-15: labels and roles of a switch
    g = node('G')
    outs = run_build(ctx, node('I'), node('O', [('p', mk.switch(node('S'), [('a', g), ('b', g), ('c', node('G2'))]))]))
    lost = False
    for o in outs:
        if o[0] != 'value':
            continue
        labels = set()
        for e, dct in o[1][0].attrs['edges'].items():
            labels |= {v for v in dct.values() if v in ('a', 'b', 'c')}
        if labels != {'a', 'b', 'c'}:
            lost = True
    s = node('S')
    outs2 = run_build(ctx, node('I'), node('O', [('p', mk.switch(s, [('same', s), ('big', node('G'))]))]))
    role_lost = False
    for o in outs2:
        if o[0] != 'value':
            continue
        edges = o[1][0].attrs['edges']
        for e, dct in edges.items():
            if e[0] == 'id:S' and 'same' in dct.values() and True in dct.values():
                role_lost = True            # one edge is both the decider edge and a case edge
    cons = base + 'every (label, case) pair and the decider role of a switch survive translation [switch edges]'
    problems = []
    if lost:
        problems.append('a case node listed under two labels keeps only the last one (a declared label is answered with '
                        'SwitchCaseDoesNotHaveBranchError)')
    if role_lost:
        problems.append('a decider that is also a case: one edge carries both roles, the manager filters it out as a case edge and '
                        'every run hangs')
    if not problems:
        out.ok('BD-15', cons, where, 'labels {a, b, c} present; decider and case edges distinct')
    else:
        out.bad('BD-15', cons, where, 'the role of a switch predecessor is an attribute of the one edge a simple DiGraph keeps per node '
                'pair: ' + '; '.join(problems))

    # ---- BD-16: acyclic
    z = node('Z')
    i = node('I', [('z', mk.input(z))])
    outs = run_build(ctx, i, node('O', [('i', mk.input(i))]))
    cyc = False
    for o in outs:
        if o[0] != 'value':
            continue
        edges = set(o[1][0].attrs['edges'])
        if any((v, u) in edges for (u, v) in edges):
            cyc = True
    cons = base + 'the built graph is acyclic [acyclic]'
    if not cyc:
        out.ok('BD-16', cons, where, f'{_summary(outs)}')
    else:
        out.bad('BD-16', cons, where, 'an input node that has Input marks of its own: the implicit link input -> leaf is added although the '
                'input node depends on that leaf; the cyclic graph is returned and the run hangs')


# ---------------------------------------------------------------------------------------------
# RC-10
# ---------------------------------------------------------------------------------------------
def rule_handover_keyed_by_subgraph(ctx: Ctx, out: Collector) -> None:
    """RC-10: the data a destination hands to the start node of its subgraph is stored per run under a key.  Two subgraphs
    may share a start node (S -> D1, S -> D2): keyed by the start node alone, their hand-overs (and the re-arming of S)
    overwrite each other."""
    n = 0
    seen = set()

    def mentions_data(t) -> bool:
        """the stored value is the `.data` of something (the Recurrent marker a destination returned)"""
        if isinstance(t, tuple):
            if t and t[0] == 'attr' and t[2] == 'data':
                return True
            return any(mentions_data(x) for x in t)
        return False

    for fid, g in ctx.run_graphs().items():
        for ev in g.events('store'):
            if ev.info.get('how') != 'item' or ev.info.get('value') is None:
                continue
            tgt = ev.info['target']
            if not mentions_data(sym.term(ctx.p, ev.info['value'], ev.inst)):
                continue
            recv = sym.term(ctx.p, tgt.value, ev.inst)
            # the key of the hand-over: the subscript of a store into a field of the manager, or - when the store goes into a
            # dictionary taken from such a field (`self.f.setdefault(k, {})[name] = data`) - the key that dictionary is kept under
            key_t = None
            if isinstance(recv, tuple) and recv[0] == 'attr':
                key_t = sym.term(ctx.p, tgt.slice, ev.inst)
            elif isinstance(recv, tuple) and recv[0] == 'call' and len(recv) > 2 and len(recv[2]) >= 2 \
                    and recv[1].split('.')[-1].lstrip('?') in ('setdefault', 'get', '__getitem__'):
                key_t = recv[2][1]
            elif isinstance(recv, tuple) and recv[0] in ('idx', 'item', 'elem') and len(recv) > 2:
                key_t = recv[2]
            if key_t is None:
                continue
            cons = ctx.construct(ev) + ' [hand-over keyed by the subgraph]'
            if cons in seen:
                continue
            seen.add(cons)
            n += 1
            if isinstance(key_t, tuple) and key_t and key_t[0] == 'tuple' and len(key_t[1]) >= 2:
                out.ok('RC-10', cons, ev.where(), f'keyed by {sym.show(key_t)}')
            else:
                out.bad('RC-10', cons, ev.where(), f'the hand-over is keyed by the start node alone ({sym.show(key_t)}): two recurrent subgraphs '
                        f'that share a start node and are active at the same time overwrite each other\'s data and re-arm each other\'s '
                        f'nodes - the start node runs twice concurrently and one destination is re-executed with the value computed for '
                        f'the other', props={'C04', 'C11'})
    if n == 0:
        raise AnalysisError('no hand-over store of a re-iteration found (RC-10 anchor vanished)')


# ---------------------------------------------------------------------------------------------
# CC-12
# ---------------------------------------------------------------------------------------------
def rule_no_head_of_line_blocking(ctx: Ctx, out: Collector) -> None:
    """CC-12: the launch loop walks the nodes of a scope in one fixed order and awaits the readiness of node i in its own
    frame before it looks at node i+1: a ready node behind a waiting one is not started (which one is "behind" depends on the
    declaration order of an unrelated node), also while only the save / completion handler of a finished dependency is pending."""
    n = 0
    seen = set()
    for fid, g in ctx.run_graphs().items():
        for lp, region, wait in launch_loops(ctx, g):
            cons = f'{lp.inst.unit.module.name}::{lp.inst.unit.qualname}::the readiness wait of one node does not delay the next [no head-of-line wait]'
            if cons in seen:
                continue
            seen.add(cons)
            n += 1
            if wait is None or wait.inst is not lp.inst and not _in_frame(wait, lp):
                out.ok('CC-12', cons, lp.where(), 'readiness is awaited outside the frame of the launch loop')
            else:
                out.bad('CC-12', cons, wait.where(), 'the launch loop awaits the readiness of each node in turn, in its own frame: a node whose '
                        'inputs are complete is not started while an earlier node of the order is still waiting (for an unrelated slow '
                        'node, or for the artifact save / completion handler of its dependency); two builds that differ only in the '
                        'parameter order of the output node run in 1 s and 2 s')
    if n == 0:
        raise AnalysisError('no launch loop found (CC-12 anchor vanished)')


def _in_frame(wait: Ev, lp: Ev) -> bool:
    i = wait.inst
    while i is not None:
        if i is lp.inst:
            return True
        i = i.parent
    return False


# ---------------------------------------------------------------------------------------------
# EV-7
# ---------------------------------------------------------------------------------------------
def rule_pipeline_complete_on_every_exit(ctx: Ctx, out: Collector) -> None:
    """EV-7: once on_pipeline_start has been emitted every exit of PipelineChart.run - return, Exception, and also a
    non-Exception error of a node body or the cancellation of the run - passes on_pipeline_complete."""
    from .ev import emit_kind
    unit = ctx.p.func(CHART_RUN)
    g = ctx.graph(CHART_RUN, depth=max(ctx.depth, 10))
    starts = [ev for ev in g.events('call') if emit_kind(ctx, ev) == 'on_pipeline_start']
    completes = {ev.id for ev in g.events('call') if emit_kind(ctx, ev) == 'on_pipeline_complete'}
    if not starts:
        raise AnalysisError('PipelineChart.run emits no on_pipeline_start (EV-7 anchor vanished)')
    cons = f'{unit.module.name}::{unit.qualname}::on_pipeline_complete closes the history on every exit [complete on every exit]'
    goals = {g.rexit['cancel'], g.rexit['exc']}
    # a cancellation inside the start emission itself ends a run that nobody was told about yet: abnormal edges that leave from
    # inside the start emission (or from inside a completion emission) do not count
    def inside(ev: Ev, call_ids: set) -> bool:
        if ev.id in call_ids:
            return True
        i = ev.inst
        while i is not None and i.parent is not None:
            if any(g.evs[c].node is i.call for c in call_ids):
                return True
            i = i.parent
        return False
    s_ids = {starts[0].id}
    region = {ev.id for ev in g.evs if inside(ev, s_ids | completes)}
    srch = Search(ctx.p, g, ALL_LABELS)

    def edge_ok(ev, lab, mev):
        return not (lab in ('exc', 'cancel') and ev.id in region)
    res = srch.run([(starts[0].id, 0, frozenset())], lambda e, st, f: None if e.id in completes else 0,
                   lambda e, st, f: e.id in goals, edge_ok=edge_ok)
    path = res[0] if res else None
    if path is None:
        out.ok('EV-7', cons, starts[0].where(), 'every exit after on_pipeline_start passes on_pipeline_complete')
    else:
        out.bad('EV-7', cons, starts[0].where(), 'run() closes the history only in its try body and in `except Exception`: a node body that '
                'raises a BaseException subclass (the retry loop passes them on explicitly) or a caller that cancels the run leaves '
                'on_pipeline_start without on_pipeline_complete', path_text(g, path))


# ---------------------------------------------------------------------------------------------
# FS-8
# ---------------------------------------------------------------------------------------------
def rule_atomic_exclusive_save(ctx: Ctx, out: Collector) -> None:
    """FS-8: write-once between contexts that share a directory needs an exclusive create (mode 'x' / os.O_EXCL / link), and
    "a failed save does not make the key appear saved" needs the final name to appear only when the value is complete (write to
    a temporary name, then link / rename).  Decided on the open mode(s) of save and on where it writes."""
    from .fw import rule_exclusive_and_atomic_worlds
    return rule_exclusive_and_atomic_worlds(ctx, out)
    from .fs import _store_class          # the reading of modes and names, kept for reference
    p = ctx.p
    st = _store_class(ctx)
    save = st.methods.get('save')
    if save is None:
        raise AnalysisError('store.save not found (FS-8 anchor vanished)')
    # save and the in-repo helpers it is split into (methods of the store, functions of its module)
    units, todo = [], [save]
    while todo:
        u = todo.pop()
        if u in units or len(units) > 16:
            continue
        units.append(u)
        env = FuncEnv.of(p, u)
        for c in env.own_nodes():
            if isinstance(c, ast.Call):
                todo.extend(t[1] for t in env.resolve_call(c) if t[0] == 'func' and t[1].module is save.module and t[1].name != 'load')
    src = '\n'.join(unparse(u.node) for u in units)
    opens = [c for u in units for c in ast.walk(u.node) if isinstance(c, ast.Call) and isinstance(c.func, ast.Attribute) and c.func.attr == 'open'
             or isinstance(c, ast.Call) and isinstance(c.func, ast.Name) and c.func.id == 'open']
    if not opens:
        raise AnalysisError('store.save opens no file (FS-8 anchor vanished)')
    modes = set()
    for u in units:
        for n in ast.walk(u.node):
            if isinstance(n, ast.Constant) and isinstance(n.value, str) and n.value in ('w', 'wb', 'x', 'xb', 'a', 'ab', 'w+', 'wb+'):
                modes.add(n.value)
    exclusive = bool(modes) and all(m.startswith('x') for m in modes) or 'O_EXCL' in src or '.link(' in src or 'os.link' in src
    atomic = any(k in src for k in ('.rename(', '.replace(', 'os.replace', 'os.rename', '.link(', 'os.link', 'NamedTemporaryFile', 'mkstemp'))
    cons = f'{st.module.name}::{st.name}.save::the key is created exclusively [exclusive create]'
    if exclusive:
        out.ok('FS-8', cons, p.loc(save, save.node), f'modes {sorted(modes)}')
    else:
        out.bad('FS-8', cons, p.loc(save, save.node), f'save tests for the key and then opens the final file with a truncating mode '
                f'({sorted(modes)}): two contexts sharing (model, pipeline id) and directory both save the same fresh key (the second '
                f'overwrites what the first acknowledged), and the clean-up of a failing save unlinks a file another context wrote; '
                f'the directory is created the same way (exists, then mkdir without exist_ok: FileExistsError)')
    cons = f'{st.module.name}::{st.name}.save::the key appears only with its complete value [atomic publish]'
    if atomic:
        out.ok('FS-8', cons, p.loc(save, save.node), 'written under a temporary name and published by link / rename')
    else:
        out.bad('FS-8', cons, p.loc(save, save.node), 'the value is written in place into the final file, whose existence is the "saved" '
                'state: a concurrent load sees a half-written artifact (EOFError), and a writer that dies inside save leaves the key '
                'neither loadable nor savable for ever')


# ---------------------------------------------------------------------------------------------
# RD-10
# ---------------------------------------------------------------------------------------------
def rule_recurrent_ready_covers_outside_inputs(ctx: Ctx, out: Collector) -> None:
    """RD-10: in a recurrent scope the readiness predicate looks at the predecessors inside the subgraph only, assuming the first
    pass computed everything outside it.  That is false for a node the first pass did not need (the case a switch did not select):
    its outside input has no result at all, the argument builder delivers None.  World: subgraph S -> N, B -> N with B outside the
    subgraph and without a result; readiness of N in the recurrent dag must be false."""
    from .st import _run_pred
    n = 0
    seen = set()
    for fid, g in ctx.run_graphs().items():
        for lp, region, wait in launch_loops(ctx, g):
            if wait is None:
                continue
            pred = wait.info.get('pred')
            if pred is None:
                raise AnalysisError(f'readiness predicate at {wait.where()} cannot be resolved')
            unit = pred[0]
            if unit.fid in seen:
                continue
            seen.add(unit.fid)
            n += 1
            nodes = {'I': {}, 'S': {}, 'B': {}, 'N': {}}
            edges = {('I', 'S'): {'kwarg_name': 'num'}, ('I', 'B'): {'kwarg_name': 'num'}, ('S', 'N'): {'kwarg_name': 'a'},
                     ('B', 'N'): {'kwarg_name': 'b'}}
            contents = {'node_results': {'I': ('visible', 1), 'S': ('visible', 1)},
                        'processed_nodes': {'I': ('visible', None), 'S': ('visible', None)}}
            flags = {'is_recurrent': True, 'is_oneof': False, 'is_nested_oneof': False}
            try:
                outs = _run_pred(ctx, pred, contents, key='N', dag_nodes=('S', 'N'), graph_spec=(nodes, edges), dag_flags=flags)
            except AnalysisError as ex:
                raise AnalysisError(f'{unit.fid}: {ex}')
            vals = sorted({o[1] if o[0] == 'value' else f'raises {o[1]}' for o in outs}, key=str)
            cons = f'{unit.module.name}::{unit.qualname}::ready(recurrent scope, parameter source outside the subgraph without a result) ' \
                   f'[covers outside inputs]'
            if vals == [False]:
                out.ok('RD-10', cons, wait.where(), 'a re-iteration waits for outside inputs that were never computed')
            else:
                out.bad('RD-10', cons, wait.where(), f'readiness is {vals}: in a recurrent scope only predecessors inside the subgraph are '
                        f'waited for; a node first needed in a repeated iteration (the case a switch selects only then) runs before its '
                        f'never-computed outside input and receives None - a silent wrong value', props={'C03', 'C09', 'C11'})
    if n == 0:
        raise AnalysisError('no readiness predicate found (RD-10 anchor vanished)')


# ---------------------------------------------------------------------------------------------
# BN-5, VL-12
# ---------------------------------------------------------------------------------------------
def rule_generated_default_and_stub(ctx: Ctx, out: Collector) -> None:
    p = ctx.p
    from .bw import _build_node_unit
    unit = _build_node_unit(ctx)
    # BN-5: does build_node give the created class a get_default that merges dependencies_default?
    src = unparse(unit.node)
    cons = f'{unit.module.name}::{unit.qualname}::get_default of a generated node receives dependencies_default like process does [default kwargs]'
    wrappers = [n for n in ast.walk(unit.node) if isinstance(n, (ast.FunctionDef, ast.AsyncFunctionDef, ast.Lambda))
                and 'dependencies_default' in unparse(n)]
    handles_default = any('get_default' in unparse(n) for n in wrappers) or "'get_default'" in src
    if 'dependencies_default' not in src:
        raise AnalysisError('build_node has no dependencies_default (BN-5 anchor vanished)')
    if handles_default:
        out.ok('BN-5', cons, p.loc(unit, unit.node), 'get_default is wrapped like process')
    else:
        out.bad('BN-5', cons, p.loc(unit, unit.node), 'dependencies_default is merged only by the generated process wrapper; get_default is '
                'inherited unwrapped and called with the edge arguments only: get_default(value, scale) raises TypeError (missing scale) '
                'and that becomes the run error although a default exists, or the default is computed from other arguments')
    # VL-12: a base class stub satisfies the run-method check
    stubs = []
    for ci in p.classes.values():
        if not ci.module.name.startswith('ml_pipeline_engine'):
            continue
        m = ci.methods.get('process')
        if m is None:
            continue
        body = [s_ for s_ in m.node.body if not (isinstance(s_, ast.Expr) and isinstance(s_.value, ast.Constant))]
        if body and all(isinstance(s_, ast.Raise) for s_ in body):
            stubs.append((ci, m))
    grm = next((u for u in p.functions.values() if u.parent is None and u.cls is None and u.name == 'get_callable_run_method'), None)
    if grm is None:
        raise AnalysisError('get_callable_run_method not found (VL-12 anchor vanished)')
    only_callable = 'callable(' in unparse(grm.node) and 'NotImplemented' not in unparse(grm.node) and '__qualname__' not in unparse(grm.node)
    cons = f'{grm.module.name}::{grm.qualname}::a class without a run method of its own is rejected [stub is not a run method]'
    if not stubs or not only_callable:
        out.ok('VL-12', cons, p.loc(grm, grm.node), 'no library base class provides a raising stub that passes the check')
    else:
        ci, m = stubs[0]
        out.bad('VL-12', cons, p.loc(m, m.node), f'{ci.name}.process is a stub that raises NotImplementedError; the run-method check is '
                f'`callable(getattr(node, "process", None))`, which the stub satisfies, and its (*args, **kwargs) signature leaves the '
                f'annotation check nothing to test: a node with a missing or misspelled process is accepted at every position and by '
                f'build_node, the run ends in NotImplementedError')


# ---------------------------------------------------------------------------------------------
# EX-11
# ---------------------------------------------------------------------------------------------
def rule_pool_fetch_outside_retry(ctx: Ctx, out: Collector) -> None:
    """EX-11: "the pool is gone" is an error of the engine, not of the node body.  The pool is fetched (and its readiness
    re-checked) by the dispatcher, which the retry loop calls inside its protected region: the error is retried `attempts`
    times and finally replaced by get_default (or contained by a one-of) - the run returns a value with error None although
    no pool body ran."""
    from .rw import pool_missing_observations, retry_entry, _show
    p = ctx.p
    unit = retry_entry(ctx)
    cons = f'{unit.module.name}::{unit.qualname}::a missing pool is not handled as a failure of the node body [pool fetch outside the retry]'
    problems, table = [], {}
    for i, o in enumerate(pool_missing_observations(ctx)):
        oc = o['outcome']
        table[f'world {i + 1}'] = f'{_show(oc)} | body x{len(o["log"]["body"])}, default x{len(o["log"]["default"])}, sleeps {o["log"]["sleep"]}'
        if o['log']['body']:
            raise AnalysisError('EX-11: the body runs although no pool is registered (the world does not model the registries)')
        if not (oc and oc[0] == 'raise') or o['log']['default'] or o['log']['sleep']:
            problems.append(table[f'world {i + 1}'])
    if not problems:
        out.ok('EX-11', cons, p.loc(unit, unit.node), 'with no pool registered the run of a pool node ends at once with the engine\'s error: '
               'not retried, not replaced by the default', table=table)
    else:
        out.bad('EX-11', cons, p.loc(unit, unit.node), 'run_node() fetches the pool (get_pool_executor -> is_ready raises RuntimeError when '
                'the pool was shut down or broke after the start-of-run check) inside the try of the retry loop: the engine\'s own error is '
                'retried and replaced by get_default / contained by a one-of - value=-999, error=None, no pool body ran '
                f'(interpreted with attempts 3, delay 1, use_default: {problems[0]})', table=table)
