"""EX-* (C17): execution mode is transparent; a missing pool fails fast."""
from __future__ import annotations

import ast
import itertools
from typing import Any, Dict, List, Optional, Set, Tuple

from .. import sym
from ..absint import AClass, AExt, AFunc, AObj, ARaise, Interp, Oracle, TOP, enumerate_outcomes
from ..cfg import Ev, Graph
from ..engine import DAG_RUN, Ctx
from ..paths import EXC_LABELS, Search
from ..program import AnalysisError, ClassInfo, FuncEnv, FuncUnit, dotted, unparse
from ..report import Collector
from .common import path_text

RUN_NODE = 'ml_pipeline_engine.node.node::run_node'


def _registries(ctx: Ctx) -> Dict[str, ClassInfo]:
    """'thread' / 'process' -> registry class (subclasses of the base registry with is_ready)."""
    out = {}
    for ci in ctx.p.classes.values():
        if 'is_ready' in ci.methods and 'parallelism' in ci.module.name:
            if ci.module.name.endswith('threads'):
                out['thread'] = ci
            elif ci.module.name.endswith('processes'):
                out['process'] = ci
    if set(out) != {'thread', 'process'}:
        raise AnalysisError('pool registries not found (EX anchors vanished)')
    return out


def rule_validation_first(ctx: Ctx, out: Collector) -> None:
    """EX-1: DAG.run validates every needed pool before the run manager is constructed."""
    g = ctx.graph(DAG_RUN)
    regs = _registries(ctx)
    mgr = ctx.manager_class()
    ready = {'thread': set(), 'process': set()}
    for ev in g.events('call'):
        for t in ev.info.get('targets', ()):
            if t[0] == 'func' and t[1].name == 'is_ready' and ev.info.get('inlined'):
                for kind, ci in regs.items():
                    if t[1].cls is ci:
                        ready[kind].add(ev.id)
    ctor = [ev for ev in g.events('call') if any(t[0] == 'class' and t[1] is mgr for t in ev.info.get('targets', ()))]
    if not ctor:
        raise AnalysisError('DAG.run does not construct the run manager (EX-1 anchor vanished)')
    unit = ctx.p.func(DAG_RUN)
    s = Search(ctx.p, g, EXC_LABELS)

    def estep(prev, lab, e, state, facts):
        t_ok, p_ok = state
        if prev is not None and prev.kind == 'branch' and lab == 'F' and prev.info.get('test') is not None:
            tx = unparse(prev.info['test'])
            if tx.endswith('is_thread_pool_needed'):
                t_ok = 1
            if tx.endswith('is_process_pool_needed'):
                p_ok = 1
        if e.id in ready['thread']:
            t_ok = 1
        if e.id in ready['process']:
            p_ok = 1
        return (t_ok, p_ok)

    res = s.run([(g.entry, (0, 0), frozenset())], None, lambda e, st, f: e.id == ctor[0].id and st != (1, 1), edge_step=estep)
    cons = f'{unit.module.name}::{unit.qualname}::pool validation precedes the run manager'
    if res is None:
        out.ok('EX-1', cons, ctor[0].where(), 'every path to the manager passes is_ready() of each needed pool (or the not-needed branch)')
    else:
        st = res[1]
        missing = [k for k, v in zip(('thread', 'process'), st) if not v]
        out.bad('EX-1', cons, ctor[0].where(), f'the run manager can be constructed and run before the {"/".join(missing)} pool was validated: '
                                               f'a missing pool surfaces in the middle of the run (partial execution) instead of failing fast',
                path_text(g, res[0]))


def _node_obj(ctx: Ctx, tags: Tuple[str, ...]) -> AObj:
    return AObj(('ext', 'Node'), {'tags': tuple(tags), 'process': 'RUNMETHOD'}, tag='node')


def _fetched(ctx: Ctx, is_coro: bool, tags: Tuple[str, ...]) -> Set[str]:
    """Which pool run_node fetches for a node of this kind."""
    p = ctx.p
    unit = p.func(RUN_NODE)
    regs = _registries(ctx)
    results = set()

    def run(oracle: Oracle):
        fetched = []
        stubs = {}
        for kind, ci in regs.items():
            m = p.lookup_method(ci, 'get_pool_executor')
            if m is None:
                raise AnalysisError('get_pool_executor not found')

            def mk(kind):
                return lambda interp, a, k, s_: (fetched.append(kind), AObj(('ext', 'Executor'), {}))[1]
            # the same base method serves both registries: distinguish by receiver class
            stubs[m.fid] = (lambda interp, a, k, s_: (fetched.append('process' if s_ is not None and isinstance(s_.cls, ClassInfo)
                                                               and s_.cls is regs['process'] else 'thread'),
                                                      AObj(('ext', 'Executor'), {}))[1])
        gcr = [u for u in p.functions.values() if u.name == 'get_callable_run_method' and u.parent is None]
        for u in gcr:
            stubs[u.fid] = lambda interp, a, k, s_: 'RUNMETHOD'
        ext = {'inspect.iscoroutinefunction': lambda a, k: is_coro,
               'asyncio.get_running_loop': lambda a, k: TOP}
        interp = Interp(p, oracle, stubs=stubs, ext_stubs=ext)
        # registries as abstract singletons
        interp._singletons = {}
        node = _node_obj(ctx, tags)
        env_override = {}
        try:
            _call_with_globals(interp, unit, [node], {'node_id': 'N'}, {
                'process_pool_registry': AObj(regs['process'], {}), 'threads_pool_registry': AObj(regs['thread'], {})})
        except ARaise:
            pass
        return tuple(fetched)

    for o in enumerate_outcomes(run):
        if o[0] == 'value':
            results |= set(o[1])
    return results


def _call_with_globals(interp: Interp, unit: FuncUnit, args, kwargs, globs: Dict[str, Any]):
    """Call a unit with some module-level names bound to abstract objects (closure trick)."""
    closure = {'__unit__': None, '__closure__': None, '__module__': unit.module}
    closure.update(globs)
    # 'RUNMETHOD' is called: make string tokens callable as TOP results
    orig_call = interp.call

    def call(f, a, k, node=None):
        if isinstance(f, str):
            return TOP
        return orig_call(f, a, k, node)
    interp.call = call          # type: ignore
    return interp.call_unit(unit, args, kwargs, None, closure)


def _declared(ctx: Ctx, is_coro: bool, tags: Tuple[str, ...]) -> Tuple[Set[str], str]:
    """Which pools the builder declares as needed (through build -> DAG kwargs) for a one-node map."""
    p = ctx.p
    from .bd import _builder_class
    b = _builder_class(ctx)
    ien = b.methods.get('_is_executor_needed')
    if ien is None:
        for m in b.methods.values():
            if 'pool' in unparse(m.node) and 'tags' in unparse(m.node):
                ien = m
    if ien is None:
        raise AnalysisError('executor-need function of the builder not found (EX-2 anchor vanished)')

    def run(oracle: Oracle):
        gcr = [u for u in p.functions.values() if u.name == 'get_callable_run_method' and u.parent is None]
        stubs = {u.fid: (lambda interp, a, k, s_: 'RUNMETHOD') for u in gcr}
        interp = Interp(p, oracle, stubs=stubs, ext_stubs={'inspect.iscoroutinefunction': lambda a, k: is_coro})
        builder = AObj(b, {'_node_map': {'N': _node_obj(ctx, tags)}})
        return interp.call_unit(ien, [], {}, builder)

    outs = enumerate_outcomes(run)
    vals = {o[1] for o in outs if o[0] == 'value'}
    if len(vals) != 1:
        raise AnalysisError(f'executor-need function is not deterministic over the abstract node ({vals})')
    tup = vals.pop()
    # map tuple positions to DAG kwargs through build()
    build = b.methods['build']
    names = None
    for n in ast.walk(build.node):
        if isinstance(n, ast.Assign) and isinstance(n.value, ast.Call) and isinstance(n.value.func, ast.Attribute) \
                and n.value.func.attr == ien.name and isinstance(n.targets[0], ast.Tuple):
            names = [e.id for e in n.targets[0].elts if isinstance(e, ast.Name)]
    if names is None or len(names) != len(tup):
        raise AnalysisError('build() does not unpack the executor-need tuple (EX-3 anchor vanished)')
    val_of = dict(zip(names, tup))
    kwargs = {}
    for n in ast.walk(build.node):
        if isinstance(n, ast.Call) and (dotted(n.func) or '').split('.')[-1] == 'DAG':
            for k in n.keywords:
                if k.arg in ('is_process_pool_needed', 'is_thread_pool_needed') and isinstance(k.value, ast.Name):
                    kwargs[k.arg] = val_of.get(k.value.id)
    if set(kwargs) != {'is_process_pool_needed', 'is_thread_pool_needed'}:
        raise AnalysisError('build() does not pass the pool flags to DAG(...) (EX-3 anchor vanished)')
    # which registries DAG.run validates for these flags
    dag_run = p.func(DAG_RUN)
    regs = _registries(ctx)
    validated: Set[str] = set()

    def run2(oracle: Oracle):
        done = []
        stubs = {}
        for kind, ci in regs.items():
            m = ci.methods['is_ready']
            stubs[m.fid] = (lambda kind: (lambda interp, a, k, s_: done.append(kind)))(kind)
        interp = Interp(p, oracle, stubs=stubs)
        dag = AObj(dag_run.cls, dict(kwargs))
        val = dag_run.cls.methods.get('_start_runtime_validation')
        if val is None:
            raise AnalysisError('runtime validation method not found')
        _call_with_globals2(interp, val, dag, {'process_pool_registry': AObj(regs['process'], {}),
                                               'threads_pool_registry': AObj(regs['thread'], {})})
        return tuple(done)

    for o in enumerate_outcomes(run2):
        if o[0] == 'value':
            validated |= set(o[1])
    return validated, f'flags {kwargs}'


def _call_with_globals2(interp: Interp, unit: FuncUnit, self_obj, globs):
    orig_lookup = interp.lookup

    def lookup(name, env):
        if name in globs:
            return globs[name]
        return orig_lookup(name, env)
    interp.lookup = lookup      # type: ignore
    return interp.call_unit(unit, [], {}, self_obj)


def rule_flags_on_every_path(ctx: Ctx, out: Collector) -> bool:
    """EX-3: every path of build() to the construction of the DAG classifies the execution mode of the nodes
    (the pool flags are computed for single-node DAGs as well as for traversed ones)."""
    from .bd import _builder_class
    b = _builder_class(ctx)
    build = b.methods['build']
    g = ctx.graph(build.fid, depth=6)
    ctor = [ev for ev in g.events('call') if ev.inst.parent is None and any(t[0] == 'class' and t[1].name == 'DAG' for t in ev.info.get('targets', ()))]
    if not ctor:
        raise AnalysisError('build() does not construct a DAG (EX-3 anchor vanished)')
    classify = {ev.id for ev in g.events('call') if any(t[0] == 'ext' and t[1] == 'inspect.iscoroutinefunction' for t in ev.info.get('targets', ()))
                and 'builder' in ev.inst.unit.module.name}
    from ..cfg import find_path
    # the calls of build()'s own frame whose activation contains the classification
    barrier = set()
    for ev in g.events('call'):
        callee = ev.info.get('callee')
        if ev.inst.parent is not None or callee is None:
            continue
        for cid in classify:
            cur = g.evs[cid].inst
            while cur is not None and cur is not callee:
                cur = cur.parent
            if cur is callee:
                barrier.add(ev.id)
    path = find_path(g, g.entry, {ctor[0].id}, avoid=barrier, labels=EXC_LABELS)
    # a classification that only happens inside the traversal loop is skipped when the loop body never runs:
    # require a classification that is not under the worklist loop, or both branches of build() to contain one
    cons = f'{build.module.name}::{build.qualname}::pool flags are computed on every path to DAG(...)'
    if path is None and classify:
        out.ok('EX-3', cons, ctor[0].where(), 'every path to DAG(...) passes the execution-mode classification of the node map')
        return True
    out.bad('EX-3', cons, ctor[0].where(), 'a path of build() constructs the DAG without classifying the execution mode of its nodes '
                                           '(e.g. the single-node path): both pool flags stay False, the pre-run validation is skipped and a '
                                           'missing pool surfaces as an ordinary node error in the middle of the run', path_text(g, path or []))
    return False


def rule_decision_table(ctx: Ctx, out: Collector) -> None:
    if not rule_flags_on_every_path(ctx, out):
        return              # EX-3 already reports the broken link between builder flags and dispatch
    """EX-2 / EX-3: for each of the 8 kinds of node (coroutine?, process tag?, non_async tag?) the pool that
    run_node fetches is among the pools DAG.run validated, following the flags from the builder through
    build() and DAG(...)."""
    table = {}
    bad = []
    for is_coro, has_proc, has_na in itertools.product((False, True), repeat=3):
        tags = tuple(t for t, on in (('process', has_proc), ('non_async', has_na)) if on)
        fetched = _fetched(ctx, is_coro, tags)
        validated, how = _declared(ctx, is_coro, tags)
        key = f'coroutine={is_coro} tags={tags}'
        table[key] = {'fetched': sorted(fetched), 'validated': sorted(validated)}
        if not fetched <= validated:
            bad.append(f'{key}: run_node fetches the {"/".join(sorted(fetched - validated))} pool but only {sorted(validated)} '
                       f'is validated ({how})')
    unit = ctx.p.func(RUN_NODE)
    cons = f'{unit.module.name}::{unit.qualname}::pool fetched at run time is a pool validated before the run (8 node kinds)'
    if not bad:
        out.ok('EX-2', cons, ctx.p.loc(unit, unit.node), 'fetched is a subset of validated for all 8 kinds', table=table)
    else:
        out.bad('EX-2', cons, ctx.p.loc(unit, unit.node), 'the builder\'s pool flags, DAG.run\'s validation and run_node\'s dispatch disagree: '
                + '; '.join(bad[:3]) + ' - a missing pool is detected only when the node runs (partial run) instead of before it',
                [f'{k}: {v}' for k, v in table.items()], table=table)


def rule_is_ready(ctx: Ctx, out: Collector) -> None:
    """EX-4: is_ready raises whenever the pool is missing or shut down; get_pool_executor checks first."""
    p = ctx.p
    regs = _registries(ctx)
    for kind, ci in regs.items():
        m = ci.methods['is_ready']
        # attributes the method reads from self
        attrs = sorted({n.attr for n in ast.walk(m.node) if isinstance(n, ast.Attribute) and isinstance(n.value, ast.Name)
                        and n.value.id == 'self'})
        sub = sorted({n.attr for n in ast.walk(m.node) if isinstance(n, ast.Attribute) and isinstance(n.value, ast.Attribute)
                      and isinstance(n.value.value, ast.Name) and n.value.value.id == 'self'})
        problems = []
        table = {}
        pool_states = [('missing', None)]
        for flag in sub or ['_shutdown']:
            pool_states.append(('alive', AObj(('ext', 'Pool'), {flag: False}, tag='pool-alive')))
            pool_states.append(('shut down', AObj(('ext', 'Pool'), {flag: True}, tag='pool-down')))
        # the field holding the pool: what get_pool_executor hands out (else the field whose flags is_ready reads)
        pool_field = None
        gpe0 = p.lookup_method(ci, 'get_pool_executor')
        if gpe0 is not None:
            for n in ast.walk(gpe0.node):
                if isinstance(n, ast.Return) and isinstance(n.value, ast.Attribute) and isinstance(n.value.value, ast.Name) \
                        and n.value.value.id == 'self':
                    pool_field = n.value.attr
        if pool_field is None:
            bases = {n.value.attr for n in ast.walk(m.node) if isinstance(n, ast.Attribute) and isinstance(n.value, ast.Attribute)
                     and isinstance(n.value.value, ast.Name) and n.value.value.id == 'self'}
            if len(bases) == 1:
                pool_field = bases.pop()
        if pool_field is None or pool_field not in attrs:
            raise AnalysisError(f'{m.fid}: the field holding the pool cannot be identified (EX-4 anchor vanished)')
        others = [a for a in attrs if a != pool_field]
        other_states = list(itertools.product(*[[('missing', None), ('present', AObj(('ext', 'X'), {}))] for _ in others])) or [()]
        for pname, pool in pool_states:
            for ost in other_states:
                def run(oracle: Oracle, pool=pool, ost=ost):
                    obj = AObj(ci, {pool_field: pool})
                    for a, (_, v) in zip(others, ost):
                        obj.attrs[a] = v
                    interp = Interp(p, oracle)
                    interp.call_unit(m, [], {}, obj)
                    return 'ok'
                outs = enumerate_outcomes(run)
                res = sorted({o[0] for o in outs})
                key = f'pool {pname}' + ''.join(f', {a} {s}' for a, (s, _) in zip(others, ost))
                table[key] = res
                should_raise = pname != 'alive' or any(s == 'missing' for s, _ in ost)
                if should_raise and res != ['raise']:
                    problems.append(f'{key}: does not raise')
                if not should_raise and res != ['value']:
                    problems.append(f'{key}: raises although everything is registered')
        cons = f'{m.module.name}::{m.qualname}::raises iff the pool (or its manager) is missing or shut down'
        if not problems:
            out.ok('EX-4', cons, p.loc(m, m.node), f'{table}')
        else:
            out.bad('EX-4', cons, p.loc(m, m.node), f'is_ready of the {kind} pool registry is not a faithful readiness test: '
                    + '; '.join(problems[:3]) + ' - a run with a missing / shut down pool is not stopped before any node runs')
        gpe = p.lookup_method(ci, 'get_pool_executor')
        if gpe is not None:
            body = [s for s in gpe.node.body if not (isinstance(s, ast.Expr) and isinstance(s.value, ast.Constant))]
            first_is_ready = bool(body) and isinstance(body[0], ast.Expr) and isinstance(body[0].value, ast.Call) \
                and unparse(body[0].value.func) == 'self.is_ready'
            cons = f'{gpe.module.name}::{gpe.qualname}::checks readiness before handing out the pool ({kind})'
            if first_is_ready:
                out.ok('EX-4', cons, p.loc(gpe, gpe.node), 'self.is_ready() is the first statement')
            else:
                out.bad('EX-4', cons, p.loc(gpe, gpe.node), 'get_pool_executor hands out the pool without checking that it is ready')


def rule_dispatch_transparent(ctx: Ctx, out: Collector) -> None:
    """EX-5: every dispatch leaf of run_node passes the same *args / **kwargs to the body and returns the
    body's value unchanged."""
    unit = ctx.p.func(RUN_NODE)
    a = unit.node.args
    va, kw = (a.vararg.arg if a.vararg else None), (a.kwarg.arg if a.kwarg else None)
    g = ctx.graph(RUN_NODE)
    leaves = []
    for ev in g.events('call'):
        role = ctx.roles.body(ev)
        if role in ('process', 'executor') and ev.inst.parent is None:
            leaves.append((ev, role))
    if len(leaves) < 3:
        raise AnalysisError(f'only {len(leaves)} dispatch leaves found in run_node (EX-5 anchors vanished)')
    problems = []
    for ev, role in leaves:
        c = ev.node
        if role == 'executor':
            part = None
            for x in c.args:
                if isinstance(x, ast.Call) and (dotted(x.func) or '').endswith('partial'):
                    part = x
            if part is None:
                problems.append(f'{ev.text(60)}: the body is not bound with functools.partial')
                continue
            inner = ast.Call(func=part.args[0], args=part.args[1:], keywords=part.keywords)
            c = inner
        stars = [x.value.id for x in c.args if isinstance(x, ast.Starred) and isinstance(x.value, ast.Name)]
        kws = [k.value.id for k in c.keywords if k.arg is None and isinstance(k.value, ast.Name)]
        extra = [x for x in c.args if not isinstance(x, ast.Starred)] + [k for k in c.keywords if k.arg is not None]
        if stars != [va] or kws != [kw] or extra:
            problems.append(f'{ev.text(70)}: arguments are not exactly (*{va}, **{kw})')
    # value returned unchanged: what run_node returns is, on every path, the (awaited) value of a dispatch leaf itself
    from ..engine import resolve_all
    rets = [n for n in FuncEnv.of(ctx.p, unit).own_nodes() if isinstance(n, ast.Return)]
    returned = set()
    for r in rets:
        if r.value is None:
            problems.append('run_node has a bare return: the body\'s value is lost')
            continue
        for e, i in resolve_all(ctx.p, r.value, g.root_inst):
            v = e.value if isinstance(e, ast.Await) else e
            if isinstance(v, ast.Call) and any(v is ev.node for ev, role in leaves):
                returned.add(id(v))
            else:
                problems.append(f'run_node returns {unparse(e)[:50]}, not the body\'s value')
    if not rets:
        problems.append('run_node never returns the body\'s value')
    for ev, role in leaves:
        if id(ev.node) not in returned and rets:
            problems.append(f'the value of {ev.text(50)} is not what run_node returns')
    cons = f'{unit.module.name}::{unit.qualname}::all dispatch leaves pass (*args, **kwargs) and return the value unchanged'
    if not problems:
        out.ok('EX-5', cons, ctx.p.loc(unit, unit.node), f'{len(leaves)} leaves: coroutine, inline, executor')
    else:
        out.bad('EX-5', cons, ctx.p.loc(unit, unit.node), 'the execution modes of run_node are not transparent: ' + '; '.join(problems[:3]))
