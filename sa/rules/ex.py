"""EX-* (C17): execution mode is transparent; a missing pool fails fast."""
from __future__ import annotations

import ast
import itertools
from typing import Any, Dict, List, Optional, Set, Tuple

from .. import sym
from ..absint import AClass, AExt, AFunc, AObj, ARaise, Interp, Oracle, TOP, enumerate_outcomes
from ..cfg import Ev, Graph
from ..engine import DAG_RUN, Ctx
from ..paths import EXC_LABELS, Search
from ..program import AnalysisError, ClassInfo, FuncEnv, FuncUnit, dotted, unparse
from ..report import Collector
from .common import path_text

RUN_NODE = 'ml_pipeline_engine.node.node::run_node'


def _registries(ctx: Ctx) -> Dict[str, ClassInfo]:
    """'thread' / 'process' -> registry class (subclasses of the base registry with is_ready)."""
    out = {}
    for ci in ctx.p.classes.values():
        if 'is_ready' in ci.methods and 'parallelism' in ci.module.name:
            if ci.module.name.endswith('threads'):
                out['thread'] = ci
            elif ci.module.name.endswith('processes'):
                out['process'] = ci
    if set(out) != {'thread', 'process'}:
        raise AnalysisError('pool registries not found (EX anchors vanished)')
    return out


def rule_validation_first(ctx: Ctx, out: Collector) -> None:
    """EX-1: DAG.run validates every needed pool before the run manager is constructed (DAG.run interpreted for the four
    combinations of the pool flags)."""
    unit = ctx.p.func(DAG_RUN)
    table = {}
    problems = []
    for t_needed, p_needed in itertools.product((False, True), repeat=2):
        flags = {'is_thread_pool_needed': t_needed, 'is_process_pool_needed': p_needed}
        got = _validated_before_manager(ctx, flags)
        need = {k for k, on in (('thread', t_needed), ('process', p_needed)) if on}
        table[f'thread needed={t_needed}, process needed={p_needed}'] = sorted(got)
        if not need <= got:
            problems.append(f'{"/".join(sorted(need - got))} pool needed but not validated when the manager is constructed')
    cons = f'{unit.module.name}::{unit.qualname}::pool validation precedes the run manager'
    if not problems:
        out.ok('EX-1', cons, ctx.p.loc(unit, unit.node), 'every needed pool has been asked is_ready() when the manager is constructed', table=table)
    else:
        out.bad('EX-1', cons, ctx.p.loc(unit, unit.node), 'the run manager can be constructed and run before a needed pool was validated ('
                + '; '.join(sorted(set(problems))) + '): a missing pool surfaces in the middle of the run (partial execution) instead of '
                'failing fast', table=table)


def _node_obj(ctx: Ctx, tags: Tuple[str, ...]) -> AObj:
    return AObj(('ext', 'Node'), {'tags': tuple(tags), 'process': 'RUNMETHOD'}, tag='node')


def _fetched(ctx: Ctx, is_coro: bool, tags: Tuple[str, ...]) -> Set[str]:
    """Which pool run_node fetches for a node of this kind."""
    p = ctx.p
    unit = p.func(RUN_NODE)
    regs = _registries(ctx)
    results = set()

    def run(oracle: Oracle):
        fetched = []
        stubs = {}
        for kind, ci in regs.items():
            m = p.lookup_method(ci, 'get_pool_executor')
            if m is None:
                raise AnalysisError('get_pool_executor not found')

            def mk(kind):
                return lambda interp, a, k, s_: (fetched.append(kind), AObj(('ext', 'Executor'), {}))[1]
            # the same base method serves both registries: distinguish by receiver class
            stubs[m.fid] = (lambda interp, a, k, s_: (fetched.append('process' if s_ is not None and isinstance(s_.cls, ClassInfo)
                                                               and s_.cls is regs['process'] else 'thread'),
                                                      AObj(('ext', 'Executor'), {}))[1])
        gcr = [u for u in p.functions.values() if u.name == 'get_callable_run_method' and u.parent is None]
        for u in gcr:
            stubs[u.fid] = lambda interp, a, k, s_: 'RUNMETHOD'
        ext = {'inspect.iscoroutinefunction': lambda a, k: is_coro,
               'asyncio.get_running_loop': lambda a, k: TOP}
        interp = Interp(p, oracle, stubs=stubs, ext_stubs=ext)
        # registries as abstract singletons
        interp._singletons = {}
        node = _node_obj(ctx, tags)
        env_override = {}
        try:
            _call_with_globals(interp, unit, [node], {'node_id': 'N'}, {
                'process_pool_registry': AObj(regs['process'], {}), 'threads_pool_registry': AObj(regs['thread'], {})})
        except ARaise:
            pass
        return tuple(fetched)

    for o in enumerate_outcomes(run):
        if o[0] == 'value':
            results |= set(o[1])
    return results


def _call_with_globals(interp: Interp, unit: FuncUnit, args, kwargs, globs: Dict[str, Any]):
    """Call a unit with some module-level names bound to abstract objects (closure trick)."""
    closure = {'__unit__': None, '__closure__': None, '__module__': unit.module}
    closure.update(globs)
    # 'RUNMETHOD' is called: make string tokens callable as TOP results
    orig_call = interp.call

    def call(f, a, k, node=None):
        if isinstance(f, str):
            return TOP
        return orig_call(f, a, k, node)
    interp.call = call          # type: ignore
    return interp.call_unit(unit, args, kwargs, None, closure)


def interpret_build(ctx: Ctx, is_coro: bool, tags: Tuple[str, ...], single: bool):
    """Abstractly interprets AnnotationDAGBuilder.build (whatever helpers it is split into) for a node map holding one
    node of the given kind; the traversal, the validations and the node-map bookkeeping are stubbed.  Returns the list
    of (abstract DAG object, builder object, calls of stubbed methods in order) over all resolutions of unknowns."""
    p = ctx.p
    from .bd import _builder_class, _reads_annotations, _traverse_function
    b = _builder_class(ctx)
    build = b.methods.get('build')
    if build is None:
        raise AnalysisError('AnnotationDAGBuilder.build not found (EX-3 / BD-6 anchor vanished)')
    trav_fid = _traverse_function(ctx).fid
    results = []

    def run(oracle: Oracle):
        calls: List[str] = []
        stubs: Dict[str, Any] = {}
        for m in b.methods.values():
            if (m.fid == trav_fid or 'validate' in m.name or m.name == '_add_node_to_map'
                    or (m.name != 'build' and _reads_annotations(ctx, m))):
                stubs[m.fid] = (lambda name: (lambda interp, a, k, s_: calls.append(name)))(m.name)
        for u in p.functions.values():
            if u.parent is None and u.cls is None and u.name == 'get_callable_run_method':
                stubs[u.fid] = lambda interp, a, k, s_: 'RUNMETHOD'
            if u.parent is None and u.cls is None and u.name == 'get_node_id':
                stubs[u.fid] = lambda interp, a, k, s_: 'ID'
        interp = Interp(p, oracle, stubs=stubs, ext_stubs={'inspect.iscoroutinefunction': lambda a, k: is_coro})
        orig_call = interp.call

        def call(f, a, k, node=None):
            if isinstance(f, str):
                return TOP
            return orig_call(f, a, k, node)
        interp.call = call          # type: ignore
        graph = AObj(('ext', 'networkx.DiGraph'), {}, tag='builder-graph')
        node_map = {'N': _node_obj(ctx, tags)}
        builder = AObj(b, {'_node_map': node_map, '_dag': graph, '_recurrent_sub_graphs': [], '_synthetic_nodes': []})
        in_node = AObj(('ext', 'Node'), {'tags': (), 'process': 'RUNMETHOD'}, tag='input-node')
        out_node = None if single else AObj(('ext', 'Node'), {'tags': (), 'process': 'RUNMETHOD'}, tag='output-node')
        res = interp.call_unit(build, [in_node, out_node], {}, builder)
        return res, builder, graph, node_map, list(calls)

    for o in enumerate_outcomes(run):
        if o[0] != 'value':
            raise AnalysisError(f'{build.fid}: abstract interpretation raises {o[1]}')
        results.append(o[1])
    return results


def _declared(ctx: Ctx, is_coro: bool, tags: Tuple[str, ...], weakest: bool = True) -> Tuple[Set[str], str]:
    """Which pools the builder declares as needed (through build -> DAG kwargs) for a one-node map.  Over the paths of build()
    the flags are combined to the weaker claim (weakest: validated on every path) or the stronger (validated on some path)."""
    p = ctx.p
    from .bd import _builder_class
    b = _builder_class(ctx)
    ien = b.methods.get('_is_executor_needed')
    if ien is None:
        for m in b.methods.values():
            if 'pool' in unparse(m.node) and 'tags' in unparse(m.node):
                ien = m
    if ien is None:
        raise AnalysisError('executor-need function of the builder not found (EX-2 anchor vanished)')

    kwargs = None
    for single in (False, True):
        for res, builder, graph, node_map, calls in interpret_build(ctx, is_coro, tags, single):
            if not isinstance(res, AObj):
                raise AnalysisError('build() does not return a DAG object (EX-3 anchor vanished)')
            kw = {k: res.attrs.get(k) for k in ('is_process_pool_needed', 'is_thread_pool_needed')}
            if any(v is None or v is TOP for v in kw.values()):
                raise AnalysisError(f'build() does not pass decided pool flags to DAG(...) ({kw}) (EX-3 anchor vanished)')
            kw = {k: bool(v) for k, v in kw.items()}
            if kwargs is None:
                kwargs = kw
            elif kwargs != kw:
                # the flags differ between the traversed and the single-node path / between resolutions: keep the weaker claim
                kwargs = {k: (kwargs[k] and kw[k]) if weakest else (kwargs[k] or kw[k]) for k in kw}
    if kwargs is None:
        raise AnalysisError('build() could not be interpreted (EX-3 anchor vanished)')
    return _validated_before_manager(ctx, kwargs), f'flags {kwargs}'


def _validated_before_manager(ctx: Ctx, kwargs: Dict[str, bool]) -> Set[str]:
    """Which registries DAG.run has asked is_ready() of when it constructs the run manager, for a DAG with these pool flags.
    DAG.run itself is interpreted (whatever helpers it is split into) up to the construction of the manager."""
    p = ctx.p
    dag_run = p.func(DAG_RUN)
    regs = _registries(ctx)
    validated: Set[str] = set()
    reached = []

    def run2(oracle: Oracle):
        done = []
        stubs = {}
        for kind, ci in regs.items():
            m = ci.methods['is_ready']
            stubs[m.fid] = (lambda kind: (lambda interp, a, k, s_: done.append(kind)))(kind)
        interp = Interp(p, oracle, stubs=stubs)
        dag = AObj(dag_run.cls, dict(kwargs))
        mgr_cls = ctx.manager_class()
        orig_construct = interp.construct

        class _Stop(Exception):
            pass

        def construct(c, args, kwargs):
            if c.ref is mgr_cls:
                raise _Stop()
            return orig_construct(c, args, kwargs)
        interp.construct = construct      # type: ignore
        dag.attrs.setdefault('run_manager', AClass(mgr_cls))
        orig_lookup = interp.lookup
        globs = {'process_pool_registry': AObj(regs['process'], {}), 'threads_pool_registry': AObj(regs['thread'], {})}

        def lookup(name, env):
            if name in globs:
                return globs[name]
            return orig_lookup(name, env)
        interp.lookup = lookup      # type: ignore
        try:
            interp.call_unit(dag_run, [TOP], {}, dag)
        except _Stop:
            reached.append(True)
        first = tuple(done)
        # the same DAG object is run again (a chart is run once per request): whatever the first run left on it must not
        # switch the validation off
        del done[:]
        try:
            interp.call_unit(dag_run, [TOP], {}, dag)
        except _Stop:
            pass
        second = tuple(done)
        return tuple(k for k in first if k in second)

    first = True
    for o in enumerate_outcomes(run2):
        if o[0] == 'value':
            validated = set(o[1]) if first else (validated & set(o[1]))
            first = False
    if not reached:
        raise AnalysisError('DAG.run does not construct the run manager (EX-1 anchor vanished)')
    return validated


def _call_with_globals2(interp: Interp, unit: FuncUnit, self_obj, globs):
    orig_lookup = interp.lookup

    def lookup(name, env):
        if name in globs:
            return globs[name]
        return orig_lookup(name, env)
    interp.lookup = lookup      # type: ignore
    return interp.call_unit(unit, [], {}, self_obj)


def rule_flags_on_every_path(ctx: Ctx, out: Collector) -> bool:
    """EX-3: on every path of build() (the traversed and the single-node one) the pool flags handed to DAG(...) are the
    classification of the node map: for a map holding a synchronous, untagged node the thread-pool flag is set; for
    one holding a process-tagged node the process-pool flag is set (build() is interpreted abstractly, whatever
    helpers it is split into)."""
    from .bd import _builder_class
    b = _builder_class(ctx)
    build = b.methods['build']
    cons = f'{build.module.name}::{build.qualname}::pool flags are computed on every path to DAG(...)'
    problems = []
    for single in (False, True):
        for tags, flag in (((), 'is_thread_pool_needed'), (('process',), 'is_process_pool_needed')):
            for res, builder, graph, node_map, calls in interpret_build(ctx, False, tags, single):
                if not isinstance(res, AObj):
                    raise AnalysisError('build() does not construct a DAG (EX-3 anchor vanished)')
                v = res.attrs.get(flag)
                if v is not True:
                    problems.append(f'{"single-node" if single else "traversed"} path, synchronous node tagged {tags or "()"}: {flag}={v!r}')
    if not problems:
        out.ok('EX-3', cons, ctx.p.loc(build, build.node), 'traversed and single-node paths both classify the node map and pass the flags to DAG(...)')
        return True
    out.bad('EX-3', cons, ctx.p.loc(build, build.node),
            'a path of build() constructs the DAG without (the result of) classifying the execution mode of its nodes: '
            + '; '.join(sorted(set(problems))[:3]) + ' - the pre-run validation is skipped and a missing pool surfaces as an ordinary '
            'node error in the middle of the run')
    return False


def rule_decision_table(ctx: Ctx, out: Collector) -> None:
    if not rule_flags_on_every_path(ctx, out):
        return              # EX-3 already reports the broken link between builder flags and dispatch
    """EX-2 / EX-3: for each of the 8 kinds of node (coroutine?, process tag?, non_async tag?) the pool that
    run_node fetches is among the pools DAG.run validated, following the flags from the builder through
    build() and DAG(...)."""
    table = {}
    bad = []
    for is_coro, has_proc, has_na in itertools.product((False, True), repeat=3):
        tags = tuple(t for t, on in (('process', has_proc), ('non_async', has_na)) if on)
        fetched = _fetched(ctx, is_coro, tags)
        validated, how = _declared(ctx, is_coro, tags)
        key = f'coroutine={is_coro} tags={tags}'
        table[key] = {'fetched': sorted(fetched), 'validated': sorted(validated)}
        if not fetched <= validated:
            bad.append(f'{key}: run_node fetches the {"/".join(sorted(fetched - validated))} pool but only {sorted(validated)} '
                       f'is validated ({how})')
    unit = ctx.p.func(RUN_NODE)
    # EX-7: the converse - no pool is demanded for a node kind that never touches it
    over = []
    table7 = {}
    for is_coro, has_proc, has_na in itertools.product((False, True), repeat=3):
        tags = tuple(t for t, on in (('process', has_proc), ('non_async', has_na)) if on)
        fetched = _fetched(ctx, is_coro, tags)
        demanded, how = _declared(ctx, is_coro, tags, weakest=False)
        key = f'coroutine={is_coro} tags={tags}'
        table7[key] = {'fetched': sorted(fetched), 'demanded': sorted(demanded)}
        if not demanded <= fetched:
            over.append(f'{key}: the {"/".join(sorted(demanded - fetched))} pool is demanded before the run but run_node never fetches it '
                        f'for such a node ({how})')
    cons7 = f'{unit.module.name}::{unit.qualname}::a pool is demanded only for node kinds that use it (8 node kinds) [no-over-demand]'
    if not over:
        out.ok('EX-7', cons7, ctx.p.loc(unit, unit.node), 'demanded is a subset of fetched for all 8 kinds', table=table7)
    else:
        out.bad('EX-7', cons7, ctx.p.loc(unit, unit.node), 'a chart whose nodes never touch a pool refuses to run without it, so the '
                'execution mode changes the outcome: ' + '; '.join(over[:3]), [f'{k}: {v}' for k, v in table7.items()], table=table7)
    cons = f'{unit.module.name}::{unit.qualname}::pool fetched at run time is a pool validated before the run (8 node kinds)'
    if not bad:
        out.ok('EX-2', cons, ctx.p.loc(unit, unit.node), 'fetched is a subset of validated for all 8 kinds', table=table)
    else:
        out.bad('EX-2', cons, ctx.p.loc(unit, unit.node), 'the builder\'s pool flags, DAG.run\'s validation and run_node\'s dispatch disagree: '
                + '; '.join(bad[:3]) + ' - a missing pool is detected only when the node runs (partial run) instead of before it',
                [f'{k}: {v}' for k, v in table.items()], table=table)


def _ready_facts(ctx: Ctx, ci: ClassInfo):
    """What the readiness test of a registry reads, through whatever in-class helpers it is split into:
    (is_ready unit, data fields of self, flags read from a field (self.<field>.<flag>), the field holding the pool)."""
    p = ctx.p
    m = p.lookup_method(ci, 'is_ready')
    if m is None:
        raise AnalysisError(f'{ci.name}.is_ready not found (EX-4 anchor vanished)')
    units, todo = [], [m]
    while todo:
        u = todo.pop()
        if u in units:
            continue
        units.append(u)
        for n in ast.walk(u.node):
            if isinstance(n, ast.Call) and isinstance(n.func, ast.Attribute) and isinstance(n.func.value, ast.Name) \
                    and n.func.value.id in ('self', 'cls'):
                h = p.lookup_method(ci, n.func.attr)
                if h is not None and h not in units:
                    todo.append(h)
    fields, flags, bases = set(), set(), set()
    for u in units:
        called = {id(c.func) for c in ast.walk(u.node) if isinstance(c, ast.Call)}
        for n in ast.walk(u.node):
            if id(n) in called and not (isinstance(n, ast.Attribute) and isinstance(n.value, ast.Name)):
                continue                 # a method of the pool that is called is not a state flag
            if isinstance(n, ast.Attribute) and isinstance(n.value, ast.Name) and n.value.id == 'self' \
                    and p.lookup_method(ci, n.attr) is None:
                fields.add(n.attr)
            if isinstance(n, ast.Attribute) and isinstance(n.value, ast.Attribute) and isinstance(n.value.value, ast.Name) \
                    and n.value.value.id == 'self':
                flags.add(n.attr)
                bases.add(n.value.attr)
    pool_field = None
    gpe0 = p.lookup_method(ci, 'get_pool_executor')
    if gpe0 is not None:
        for n in ast.walk(gpe0.node):
            if isinstance(n, ast.Return) and isinstance(n.value, ast.Attribute) and isinstance(n.value.value, ast.Name) \
                    and n.value.value.id == 'self':
                pool_field = n.value.attr
    if pool_field is None and len(bases) == 1:
        pool_field = next(iter(bases))
    if pool_field is None or pool_field not in fields:
        raise AnalysisError(f'{m.fid}: the field holding the pool cannot be identified (EX-4 anchor vanished)')
    return m, sorted(fields), sorted(flags), pool_field


def rule_is_ready(ctx: Ctx, out: Collector) -> None:
    """EX-4: is_ready raises whenever the pool is missing or shut down; get_pool_executor checks first."""
    p = ctx.p
    regs = _registries(ctx)
    for kind, ci in regs.items():
        m, attrs, sub, pool_field = _ready_facts(ctx, ci)
        problems = []
        table = {}
        pool_states = [('missing', None)]
        # a live pool has every unusable-state flag of the stdlib executors cleared, whichever of them the code looks at (and
        # wherever: in is_ready itself, in a helper of the class, in a function of the module)
        STD_FLAGS = ('_shutdown', '_broken', '_shutdown_thread')
        # the unusable states of the stdlib executors (fact table): a thread pool is unusable when shut down or when its
        # initializer failed (_broken); a process pool that is shut down or broken has _shutdown_thread set (and _broken when broken)
        unusable = {'thread': {'shut down': ('_shutdown',), 'broken (initializer failed)': ('_broken',)},
                    'process': {'shut down': ('_shutdown_thread',), 'broken (a worker died)': ('_broken', '_shutdown_thread')}}[kind]
        extra = [f for f in sub if f not in STD_FLAGS]
        pool_states.append(('alive', AObj(('ext', 'Pool'), {**{f: False for f in STD_FLAGS}, **{f: False for f in extra}}, tag='pool-alive')))
        for label, on in unusable.items():
            pool_states.append((label, AObj(('ext', 'Pool'), {**{f: (f in on) for f in STD_FLAGS}, **{f: False for f in extra}}, tag='pool-down')))
        others = [a for a in attrs if a != pool_field]
        other_states = list(itertools.product(*[[('missing', None), ('present', AObj(('ext', 'X'), {}))] for _ in others])) or [()]
        for pname, pool in pool_states:
            for ost in other_states:
                def run(oracle: Oracle, pool=pool, ost=ost):
                    obj = AObj(ci, {pool_field: pool})
                    for a, (_, v) in zip(others, ost):
                        obj.attrs[a] = v
                    interp = Interp(p, oracle)
                    interp.call_unit(m, [], {}, obj)
                    return 'ok'
                outs = enumerate_outcomes(run)
                res = sorted({o[0] for o in outs})
                key = f'pool {pname}' + ''.join(f', {a} {s}' for a, (s, _) in zip(others, ost))
                table[key] = res
                should_raise = pname != 'alive' or any(s == 'missing' for s, _ in ost)
                if should_raise and res != ['raise']:
                    problems.append(f'{key}: does not raise')
                if not should_raise and res != ['value']:
                    problems.append(f'{key}: raises although everything is registered')
        cons = f'{m.module.name}::{m.qualname}::raises iff the pool (or its manager) is missing or shut down'
        if not problems:
            out.ok('EX-4', cons, p.loc(m, m.node), f'{table}')
        else:
            out.bad('EX-4', cons, p.loc(m, m.node), f'is_ready of the {kind} pool registry is not a faithful readiness test: '
                    + '; '.join(problems[:3]) + ' - a run with a missing / shut down pool is not stopped before any node runs')
        gpe = p.lookup_method(ci, 'get_pool_executor')
        if gpe is not None:
            cons = f'{gpe.module.name}::{gpe.qualname}::checks readiness before handing out the pool ({kind})'

            def run_gpe(oracle: Oracle, state=None):
                obj = AObj(ci, {a: AObj(('ext', 'X'), {}) for a in attrs})
                obj.attrs[pool_field] = state
                return Interp(p, oracle).call_unit(gpe, [], {}, obj)
            handed = []
            for label, state in (('missing', None), ('shut down', AObj(('ext', 'Pool'), {**{f: (f in unusable['shut down']) for f in STD_FLAGS},
                                                                                         **{f: False for f in extra}}, tag='pool-down'))):
                outs = enumerate_outcomes(lambda oracle, state=state: run_gpe(oracle, state))
                if any(o[0] == 'value' for o in outs):
                    handed.append(label)
            if not handed:
                out.ok('EX-4', cons, p.loc(gpe, gpe.node), 'raises for a missing and for a shut down pool')
            else:
                out.bad('EX-4', cons, p.loc(gpe, gpe.node), f'get_pool_executor hands out a {" / ".join(handed)} pool without checking that it is ready')


class _FutureNeverSet(BaseException):
    """StopIteration reached the future of a pool job: it is never completed, the awaiting task hangs."""


def _dispatch_world(ctx: Ctx, is_coro: bool, tags: Tuple[str, ...], raises: Optional[str] = None):
    """run_node interpreted for one kind of node with an opaque body: -> list of (calls of the body, returned the body's value)
    over the resolutions.  The pool runs what it is handed in place (run_in_executor / submit + wrap_future)."""
    p = ctx.p
    unit = p.func(RUN_NODE)
    regs = _registries(ctx)

    def run(oracle: Oracle):
        calls: List[Tuple[list, dict]] = []
        tok = AObj(('ext', 'Value'), {}, tag='body-value')
        a1, a2, k1 = (AObj(('ext', 'Arg'), {}, tag=t_) for t_ in ('a1', 'a2', 'k1'))
        holder: Dict[str, Any] = {}

        err = AObj(('ext', f'builtins.{raises}' if raises != 'PicklingError' else 'pickle.PicklingError'), {'args': ()},
                   tag=f'exc:{raises}') if raises else None

        def body(a, k):
            calls.append((list(a), dict(k)))
            if raises:
                raise ARaise(f'{raises} (raised by the body)', err)
            return tok

        def in_place(a, k):
            # the pool runs what it is handed; its outcome travels back through a future - which cannot carry StopIteration
            # (asyncio refuses it: the awaiting task is never woken)
            try:
                return holder['interp'].call(a[0], list(a[1:]), dict(k))
            except ARaise as ex:
                if str(ex.what).startswith('StopIteration'):
                    raise _FutureNeverSet()
                raise
        pool = AObj(('ext', 'Executor'), {'submit': AExt('world.submit')}, tag='pool')
        loop = AObj(('ext', 'Loop'), {'run_in_executor': AExt('world.run_in_executor')}, tag='loop')
        stubs: Dict[str, Any] = {}
        for kind, ci in regs.items():
            m = p.lookup_method(ci, 'get_pool_executor')
            if m is None:
                raise AnalysisError('get_pool_executor not found')
            stubs[m.fid] = lambda interp, a, k, s_: pool
        for u in p.functions.values():
            if u.name == 'get_callable_run_method' and u.parent is None:
                stubs[u.fid] = lambda interp, a, k, s_: AExt('world.body')
        ext = {'inspect.iscoroutinefunction': lambda a, k: is_coro, 'asyncio.get_running_loop': lambda a, k: loop,
               'asyncio.get_event_loop': lambda a, k: loop, 'world.body': body,
               'world.run_in_executor': lambda a, k: in_place(a[1:], k), 'world.submit': in_place,
               'asyncio.wrap_future': lambda a, k: a[0], 'asyncio.to_thread': in_place}
        interp = Interp(p, oracle, stubs=stubs, ext_stubs=ext)
        holder['interp'] = interp
        node = AObj(('ext', 'Node'), {'tags': tuple(tags), 'process': AExt('world.body')}, tag='node')
        closure = {'__unit__': None, '__closure__': None, '__module__': unit.module,
                   'process_pool_registry': AObj(regs['process'], {}), 'threads_pool_registry': AObj(regs['thread'], {})}
        try:
            res = interp.call_unit(unit, [node, a1, a2], {'node_id': 'N', 'k': k1}, None, closure)
        except _FutureNeverSet:
            return len(calls) == 1, 'hang', len(calls)
        except ARaise as ex:
            if not raises:
                raise
            if raises == 'StopIteration':
                return len(calls) == 1, str(ex.what), len(calls)
            return len(calls) == 1 and calls[0][0] == [a1, a2] and calls[0][1] == {'k': k1}, ex.obj is err, len(calls)
        return len(calls) == 1 and calls[0][0] == [a1, a2] and calls[0][1] == {'k': k1}, (res is tok) and not raises, len(calls)
    return enumerate_outcomes(run)


def rule_dispatch_transparent(ctx: Ctx, out: Collector) -> None:
    """EX-5: in every execution mode run_node invokes the body exactly once with exactly the (*args, **kwargs) it was given
    and returns the body's value itself.  Decided by interpreting run_node (and whatever helpers it is split into) for a
    coroutine node, an inline node, a thread-pool node and a process-pool node with an opaque body."""
    unit = ctx.p.func(RUN_NODE)
    tagv = {'non_async': 'non_async', 'process': 'process'}          # the values of NodeTag (enum members are their values here)
    modes = {'coroutine': (True, ()), 'inline (non_async)': (False, (tagv['non_async'],)), 'thread pool': (False, ()),
             'process pool': (False, (tagv['process'],))}
    problems, table = [], {}
    for label, (is_coro, tags) in modes.items():
        outs = _dispatch_world(ctx, is_coro, tags)
        table[label] = [f'{o[0]}: {o[1]}' for o in outs]
        for o in outs:
            if o[0] != 'value':
                problems.append(f'{label}: run_node raises {o[1]} although the body returns')
            else:
                same_args, same_value, n_calls = o[1]
                if n_calls != 1:
                    problems.append(f'{label}: the body is invoked {n_calls} times')
                elif not same_args:
                    problems.append(f'{label}: the body does not receive exactly the (*args, **kwargs) run_node was given')
                if not same_value:
                    problems.append(f'{label}: what run_node returns is not the value of the body')
    # a body that raises: invoked once all the same, and its exception is what leaves run_node (whatever its class - the classes
    # pickle raises for an argument it cannot transfer are also what a body can raise)
    for label, (is_coro, tags) in modes.items():
        for kind in ('ValueError', 'TypeError', 'AttributeError', 'PicklingError', 'RuntimeError', 'OSError'):
            for o in _dispatch_world(ctx, is_coro, tags, raises=kind):
                if o[0] != 'value':
                    problems.append(f'{label}, the body raises {kind}: {o[1]}')
                    continue
                same_args, same_exc, n_calls = o[1]
                table[f'{label}, body raises {kind}'] = f'{n_calls} invocation(s), {"its exception leaves" if same_exc else "another outcome"}'
                if n_calls != 1:
                    problems.append(f'{label}: a body that raises {kind} is invoked {n_calls} times')
                elif not same_exc:
                    problems.append(f'{label}: the {kind} a body raises is not what run_node raises')
    # StopIteration of a synchronous body: converted before it reaches the future of the pool job (a conversion on the loop side
    # of the future is never reached), so the pool modes end like the inline mode does - with an error, not with a hang
    for label in ('inline (non_async)', 'thread pool', 'process pool'):
        is_coro, tags = modes[label]
        for o in _dispatch_world(ctx, is_coro, tags, raises='StopIteration'):
            if o[0] != 'value':
                problems.append(f'{label}, the body raises StopIteration: {o[1]}')
                continue
            _once, how, n_calls = o[1]
            table[f'{label}, body raises StopIteration'] = f'{n_calls} invocation(s): {how}'
            if how == 'hang':
                problems.append(f'{label}: a body that raises StopIteration never completes the future of its pool job - the node hangs '
                                f'(the other modes report an error)')
            elif n_calls != 1:
                problems.append(f'{label}: a body that raises StopIteration is invoked {n_calls} times')
    cons = f'{unit.module.name}::{unit.qualname}::all dispatch leaves pass (*args, **kwargs) and return the value unchanged'
    if not problems:
        out.ok('EX-5', cons, ctx.p.loc(unit, unit.node), f'{len(modes)} modes interpreted: coroutine, inline, thread pool, process pool', table=table)
    else:
        out.bad('EX-5', cons, ctx.p.loc(unit, unit.node), 'the execution modes of run_node are not transparent: ' + '; '.join(list(dict.fromkeys(problems))[:4]),
                table=table, props={'C17', 'C04', 'C12'})


def _rule_dispatch_transparent_by_shape(ctx: Ctx, out: Collector) -> None:
    """EX-5: every dispatch leaf of run_node passes the same *args / **kwargs to the body and returns the
    body's value unchanged."""
    unit = ctx.p.func(RUN_NODE)
    a = unit.node.args
    va, kw = (a.vararg.arg if a.vararg else None), (a.kwarg.arg if a.kwarg else None)
    g = ctx.graph(RUN_NODE)
    leaves = []
    for ev in g.events('call'):
        role = ctx.roles.body(ev)
        # in run_node itself or in a helper it calls directly (the pool submission may be a function of its own)
        if role in ('process', 'executor') and (ev.inst.parent is None or ev.inst.parent.parent is None):
            leaves.append((ev, role))
    if len(leaves) < 3:
        raise AnalysisError(f'only {len(leaves)} dispatch leaves found in run_node (EX-5 anchors vanished)')
    problems = []
    for ev, role in leaves:
        c = ev.node
        if role == 'executor':
            part = None
            handed = []
            for x in c.args:
                x, _ = sym.resolve_value(ctx.p, x, ev.inst)             # the partial may be bound to a local first
                if isinstance(x, ast.Call) and isinstance(x.func, ast.Attribute) and x.func.attr == 'submit':
                    # wrap_future(<pool>.submit(<partial>)): what is handed over are the arguments of submit
                    handed.extend(sym.resolve_value(ctx.p, y, ev.inst)[0] for y in x.args)
                else:
                    handed.append(x)
            for x in handed:
                if isinstance(x, ast.Call) and (dotted(x.func) or '').endswith('partial'):
                    part = x
            if part is None:
                problems.append(f'{ev.text(60)}: the body is not bound with functools.partial')
                continue
            inner = ast.Call(func=part.args[0], args=part.args[1:], keywords=part.keywords)
            # the body may be called through an in-repo wrapper: partial(wrapper, run_method, *args, **kwargs) where
            # wrapper(run_method, *a, **k) returns run_method(*a, **k)
            wt = FuncEnv.of(ctx.p, unit).type_of(part.args[0])
            if wt[0] == 'func' and not wt[1].is_async and len(part.args) >= 2:
                w = wt[1]
                wa = w.node.args
                wparams = [x.arg for x in getattr(wa, 'posonlyargs', [])] + [x.arg for x in wa.args]
                wva, wkw = (wa.vararg.arg if wa.vararg else None), (wa.kwarg.arg if wa.kwarg else None)
                # decided by interpreting the wrapper with an opaque body: the body is called exactly once, with exactly the
                # arguments the wrapper was given, and what the wrapper returns is the body's value
                def run_w(oracle: Oracle, w=w):
                    calls = []
                    tok = AObj(('ext', 'Value'), {}, tag='body-value')

                    def body(args_, kwargs_):
                        calls.append((list(args_), dict(kwargs_)))
                        return tok
                    a1, a2, k1 = (AObj(('ext', 'Arg'), {}, tag=t_) for t_ in ('a1', 'a2', 'k1'))
                    r = Interp(ctx.p, oracle, ext_stubs={'body': body}).call_unit(w, [AExt('body'), a1, a2], {'k': k1})
                    return r is tok and len(calls) == 1 and calls[0][0] == [a1, a2] and calls[0][1] == {'k': k1}
                outs_w = enumerate_outcomes(run_w)
                passes = bool(outs_w) and all(o[0] == 'value' and o[1] is True for o in outs_w) and len(wparams) == 1
                if not passes:
                    problems.append(f'{ev.text(60)}: the wrapper {w.name} does not call the body with exactly the arguments it was given')
                    continue
                inner = ast.Call(func=part.args[1], args=part.args[2:], keywords=part.keywords)
            c = inner
        stars = [x.value.id for x in c.args if isinstance(x, ast.Starred) and isinstance(x.value, ast.Name)]
        kws = [k.value.id for k in c.keywords if k.arg is None and isinstance(k.value, ast.Name)]
        extra = [x for x in c.args if not isinstance(x, ast.Starred)] + [k for k in c.keywords if k.arg is not None]
        la = ev.inst.unit.node.args
        lva, lkw = (la.vararg.arg if la.vararg else None), (la.kwarg.arg if la.kwarg else None)
        if stars != [lva] or kws != [lkw] or extra:
            problems.append(f'{ev.text(70)}: arguments are not exactly (*{lva}, **{lkw})')
        elif ev.inst.parent is not None:
            # the helper itself must have been given exactly run_node's (*args, **kwargs)
            hc = ev.inst.call
            hs = [x.value.id for x in hc.args if isinstance(x, ast.Starred) and isinstance(x.value, ast.Name)]
            hk = [k.value.id for k in hc.keywords if k.arg is None and isinstance(k.value, ast.Name)]
            if hs != [va] or hk != [kw] or any(k.arg is not None for k in hc.keywords):
                problems.append(f'{unparse(hc)[:70]}: the helper is not given exactly (*{va}, **{kw})')
    # value returned unchanged: what run_node returns is, on every path, the (awaited) value of a dispatch leaf itself
    from ..engine import resolve_all
    rets = [n for n in FuncEnv.of(ctx.p, unit).own_nodes() if isinstance(n, ast.Return)]
    returned = set()
    for r in rets:
        if r.value is None:
            problems.append('run_node has a bare return: the body\'s value is lost')
            continue
        for e, i in resolve_all(ctx.p, r.value, g.root_inst):
            v = e.value if isinstance(e, ast.Await) else e
            if isinstance(v, ast.Call) and any(v is ev.node for ev, role in leaves):
                returned.add(id(v))
                continue
            # ... or what a helper returns, when that is the (awaited) value of a leaf in the helper
            via = None
            if isinstance(v, ast.Call):
                for cev in g.events('call'):
                    if cev.node is v and cev.info.get('callee') is not None:
                        via = cev.info['callee']
            ok_via = False
            if via is not None:
                hrets = [n for n in FuncEnv.of(ctx.p, via.unit).own_nodes() if isinstance(n, ast.Return) and n.value is not None]
                ok_via = bool(hrets)
                for hr in hrets:
                    for e2, i2 in resolve_all(ctx.p, hr.value, via):
                        v2 = e2.value if isinstance(e2, ast.Await) else e2
                        if isinstance(v2, ast.Call) and any(v2 is ev.node for ev, role in leaves):
                            returned.add(id(v2))
                        else:
                            ok_via = False
            if not ok_via:
                problems.append(f'run_node returns {unparse(e)[:50]}, not the body\'s value')
    if not rets:
        problems.append('run_node never returns the body\'s value')
    for ev, role in leaves:
        if id(ev.node) not in returned and rets:
            problems.append(f'the value of {ev.text(50)} is not what run_node returns')
    cons = f'{unit.module.name}::{unit.qualname}::all dispatch leaves pass (*args, **kwargs) and return the value unchanged'
    if not problems:
        out.ok('EX-5', cons, ctx.p.loc(unit, unit.node), f'{len(leaves)} leaves: coroutine, inline, executor')
    else:
        out.bad('EX-5', cons, ctx.p.loc(unit, unit.node), 'the execution modes of run_node are not transparent: ' + '; '.join(problems[:3]))
