"""OO-* (C10 one-of) and RC-* (C11 recurrent subgraph) on the manager side."""
from __future__ import annotations

import ast
from typing import Dict, List, Optional, Set, Tuple

from .. import sym
from ..cfg import Ev, Graph, find_path, reach
from ..engine import Ctx, resolve_all
from ..guards import decompose, guards, text
from ..paths import EXC_LABELS, NORMAL_LABELS, Search
from ..program import AnalysisError, ClassInfo, FuncEnv, FuncUnit, dotted, unparse
from ..report import Collector
from .cc import launch_loops, order_source
from .common import after_event_search, loop_region, path_text, publishes
from .rd import _wait_exits


def _error_class(ctx: Ctx, name: str) -> ClassInfo:
    for ci in ctx.p.classes_by_name.get(name, []):
        return ci
    raise AnalysisError(f'error class {name} not found')


def _derived_from_candidates(ctx: Ctx, expr: ast.AST, inst, depth: int = 0) -> bool:
    """The expression is (built from) the declared candidate list `oneof_nodes`: directly, through enumerate / list / a
    comprehension over it, or through a local that holds such a value."""
    if depth > 4:
        return False
    it = sym.term(ctx.p, expr, inst)
    if sym.mentions(it, lambda s: isinstance(s, tuple) and s[0] == 'global' and s[1].endswith('NodeField.oneof_nodes')):
        return True
    for n in ast.walk(expr):
        if isinstance(n, (ast.ListComp, ast.GeneratorExp, ast.SetComp, ast.DictComp)):
            for gen in n.generators:
                gt = sym.term(ctx.p, gen.iter, inst)
                if sym.mentions(gt, lambda s: isinstance(s, tuple) and s[0] == 'global' and s[1].endswith('NodeField.oneof_nodes')):
                    return True
        if isinstance(n, ast.Name) and isinstance(n.ctx, ast.Load):
            e, i = sym.resolve_value(ctx.p, n, inst)
            if e is not n and e is not None and i is inst and _derived_from_candidates(ctx, e, i, depth + 1):
                return True
    return False


def candidate_loops(ctx: Ctx, g: Graph) -> List[Tuple[Ev, set, Ev, Ev]]:
    """Loops over the `oneof_nodes` attribute that spawn a dag per element and wait for it:
    (loop, region, spawn event, wait event)."""
    out = []
    for lp in g.events('loop'):
        if lp.info.get('comp') is not None:
            continue
        if not _derived_from_candidates(ctx, lp.info['iter'], lp.inst):
            continue
        region = loop_region(g, lp, labels=EXC_LABELS)
        spawns = [g.evs[m] for m in sorted(region) if g.evs[m].kind == 'call' and ctx.roles.spawn(g.evs[m])]
        waits = [g.evs[m] for m in sorted(region) if g.evs[m].kind == 'call' and ctx.roles.wait(g.evs[m]) is not None]
        if spawns:
            out.append((lp, region, spawns[0], waits[0] if waits else None))
    return out


def _has_error_test(ctx: Ctx, b: Ev, herr: set):
    """-> polarity of 'the dag has an error' established by taking the T edge, or None."""
    test = b.info.get('test')
    if test is None:
        return None
    parts = []
    decompose(test, True, parts)
    env = FuncEnv.of(ctx.p, b.inst.unit)
    for gx, pol in parts:
        e = gx
        if isinstance(e, ast.Name):
            e2, i2 = sym.resolve_value(ctx.p, e, b.inst)
            if i2 is b.inst:
                e = e2
        if isinstance(e, ast.Call):
            for t in env.resolve_call(e):
                if t[0] == 'func' and t[1].fid in herr:
                    return pol
    # negative form: `not has_error(...)` as the whole test with T meaning "no error"
    return None


def rule_oneof_sequential(ctx: Ctx, out: Collector) -> None:
    """OO-1: candidates are tried one at a time: after spawning candidate i the loop reaches the next
    iteration only through the wait on candidate i and through the *failed* outcome of the error test;
    the successful outcome leaves the loop.  OO-2: candidates are tried in declared order."""
    herr = {u.fid for u in ctx.has_error_functions()}
    n = 0
    seen = set()
    for fid, g in ctx.run_graphs().items():
        for lp, region, spawn, wait in candidate_loops(ctx, g):
            unit = lp.inst.unit
            cons = f'{unit.module.name}::{unit.qualname}::candidate loop is sequential and lazy'
            if cons in seen:
                continue
            seen.add(cons)
            n += 1
            exits = _wait_exits(g, wait) if wait is not None else set()
            problems = []
            # (a) spawn -> next iteration must pass the wait's predicate-true exit
            p1 = find_path(g, spawn.id, {lp.id}, avoid=exits, labels=EXC_LABELS)
            if p1 is not None or not exits:
                problems.append(('the next candidate can be started without waiting for the current one', p1 or []))
            # (b) after the wait, reaching the next iteration requires the error test to say "failed"
            s = Search(ctx.p, g, EXC_LABELS)

            def estep(prev, lab, e, state, facts):
                if prev is not None and prev.kind == 'branch' and lab in ('T', 'F'):
                    pol = _has_error_test(ctx, prev, herr)
                    if pol is not None:
                        failed = pol if lab == 'T' else (not pol)
                        return 1 if failed else 2
                return state

            starts = [(m, 0, frozenset()) for ex in exits for m, lab in g.succ[ex] if lab == 'T']
            res = s.run(starts, None, lambda e, st, f: e.id == lp.id and st != 1, edge_step=estep)
            if res is not None:
                problems.append(('the next candidate is tried although the current one did not fail', res[0]))
            if not problems:
                out.ok('OO-1', cons, lp.where(), 'next candidate only after the wait on the current one and its failure')
            else:
                why, path = problems[0]
                out.bad('OO-1', cons, lp.where(), f'in the one-of candidate loop {why}: later candidates (and the nodes only they '
                                                  f'need) run although an earlier candidate is still running or succeeded',
                        path_text(g, path))
            # OO-2 order
            cons2 = f'{unit.module.name}::{unit.qualname}::candidates are tried in declared order'
            it = lp.info['iter']
            txt = unparse(it)
            def order_preserving(e, inst, depth=0):
                """-> (derived from the declared list by order-preserving steps only, text of the first reordering step)"""
                if depth > 5:
                    return False, unparse(e)[:40]
                e, inst = sym.resolve_value(ctx.p, e, inst)
                if isinstance(e, ast.Subscript) and 'oneof_nodes' in unparse(e):
                    return True, ''
                if isinstance(e, ast.Call) and isinstance(e.func, ast.Name) and e.func.id in ('enumerate', 'list', 'tuple', 'iter') and e.args:
                    return order_preserving(e.args[0], inst, depth + 1)
                if isinstance(e, (ast.ListComp, ast.GeneratorExp)) and len(e.generators) == 1 and not e.generators[0].ifs:
                    return order_preserving(e.generators[0].iter, inst, depth + 1)
                return False, unparse(e)[:40]
            direct, why_not = order_preserving(it, lp.inst)
            bad_wrappers = [] if direct else [why_not]
            if bad_wrappers or not direct:
                out.bad('OO-2', cons2, lp.where(), f'the candidate loop iterates {txt}, not the declared oneof_nodes list itself: '
                                                   f'candidates are not tried in declared order')
            else:
                out.ok('OO-2', cons2, lp.where(), f'iterates {txt}')
    if n == 0:
        raise AnalysisError('no one-of candidate loop found (OO-1 anchor vanished)')


def rule_candidate_started_lazily(ctx: Ctx, out: Collector) -> None:
    """OO-10: sub-dags computed later in the run show a one-of candidate only if it has been started (the set of started
    candidates is what the node filter of the reduced dag consults).  A candidate must therefore be recorded as started only
    in the iteration of the candidate loop that starts it - not for all candidates up front, or candidates that are never tried
    (and the nodes only they need) become ordinary nodes of every later sub-dag and are executed."""
    n = 0
    seen = set()
    mgr = ctx.manager_class()
    for fid, g in ctx.run_graphs().items():
        for lp, region, spawn, wait in candidate_loops(ctx, g):
            unit = lp.inst.unit
            cons = f'{unit.module.name}::{unit.qualname}::a candidate is recorded as started only when it is started [lazy candidates]'
            if cons in seen:
                continue
            seen.add(cons)
            # events that record a started candidate: `.add(..)` on a per-run set field of the manager, executed (inlined) by the
            # function that builds the reduced dag of a candidate
            marks = []
            for ev in g.events('call'):
                c = ev.node
                if not (isinstance(c, ast.Call) and isinstance(c.func, ast.Attribute) and c.func.attr in ('add', 'append', 'update') and c.args):
                    continue
                recv = sym.term(ctx.p, c.func.value, ev.inst)
                if not (isinstance(recv, tuple) and recv[0] == 'attr' and recv[1] == ('param', 'self')):
                    continue
                src = unparse(ev.inst.unit.node)
                if 'subgraph_view' in src or 'get_connected_subgraph' in src:
                    # only activations below the one-of function count
                    i = ev.inst
                    below = False
                    while i is not None:
                        if i is lp.inst:
                            below = True
                        i = i.parent
                    if below:
                        marks.append(ev)
            if not marks:
                continue
            n += 1
            _registry_only_grows(ctx, out, unit, lp, {sym.term(ctx.p, ev.node.func.value, ev.inst)[2] for ev in marks})
            outside = [ev for ev in marks if ev.id not in region]
            if not outside:
                out.ok('OO-10', cons, lp.where(), f'{len(marks)} recording site(s), all inside the iteration that starts the candidate')
            else:
                ev = outside[0]
                out.bad('OO-10', cons, ev.where(), f'{ev.text(70)} records candidates as started outside the iteration that starts them '
                        f'(all candidates are prepared before the first one is tried): every sub-dag computed later in the run - a switch '
                        f'case or a second one-of downstream - contains the untried candidates as ordinary nodes and executes them; '
                        f'a failure of such a candidate fails the run although an earlier candidate succeeded',
                        [f'reached through {ev.inst.chain()}'])
    if n == 0:
        raise AnalysisError('no site recording a started one-of candidate found below the candidate loop (OO-10 anchor vanished)')


def _registry_only_grows(ctx: Ctx, out: Collector, unit, lp, fields) -> None:
    """OO-11: a candidate that was started stays a member of every sub-dag built later in the run - that membership is how the
    error gate of a later scope sees that the scope contains a failed node.  The registry of started candidates is therefore
    only added to during a run: no removal, no clearing, no rebinding on the run path."""
    removing = ('discard', 'remove', 'pop', 'clear', 'difference_update', 'intersection_update', 'symmetric_difference_update')
    bad = []
    for fid, g in ctx.run_graphs().items():
        reach = g.reachable_from_entry()
        for ev in g.evs:
            if ev.id not in reach:
                continue
            if ev.kind == 'call' and isinstance(ev.node, ast.Call) and isinstance(ev.node.func, ast.Attribute) \
                    and ev.node.func.attr in removing:
                recv = sym.term(ctx.p, ev.node.func.value, ev.inst)
                if isinstance(recv, tuple) and recv[0] == 'attr' and recv[1] == ('param', 'self') and recv[2] in fields:
                    bad.append(ev)
            elif ev.kind in ('store', 'del'):
                tgt = ev.info.get('target')
                if isinstance(tgt, ast.Attribute) and tgt.attr in fields and sym.term(ctx.p, tgt.value, ev.inst) == ('param', 'self'):
                    bad.append(ev)
    cons = f'{unit.module.name}::{unit.qualname}::a started candidate stays a member of the sub-dags built later [started registry only grows]'
    if not bad:
        out.ok('OO-11', cons, lp.where(), f'{sorted(fields)}: only added to on the run path')
    else:
        ev = bad[0]
        out.bad('OO-11', cons, ev.where(), f'{ev.text(70)} withdraws a started candidate from {sorted(fields)}: a sub-dag built afterwards '
                f'for a node that consumes the candidate directly no longer contains it, so the error gate of that scope does not see '
                f'the candidate\'s failure - the consumer is "ready" (its predecessor holds the exception as its result) and is invoked '
                f'with the exception object as a value, or waits forever for a candidate that never ran',
                [f'reached through {ev.inst.chain()}'], props={'C10', 'C05', 'C02'})


def rule_oneof_exhaustion(ctx: Ctx, out: Collector) -> None:
    """OO-5: when the candidate loop is exhausted every path publishes OneOfDoesNotHaveResultError for the
    head or raises it (through a raiser that notifies run())."""
    err = _error_class(ctx, 'OneOfDoesNotHaveResultError')
    n = 0
    seen = set()
    for fid, g in ctx.run_graphs().items():
        for lp, region, spawn, wait in candidate_loops(ctx, g):
            unit = lp.inst.unit
            cons = f'{unit.module.name}::{unit.qualname}::exhaustion yields OneOfDoesNotHaveResultError'
            if cons in seen:
                continue
            seen.add(cons)
            n += 1
            fsucc = [m for m, lab in g.succ[lp.id] if lab == 'F']
            barrier = set()
            for pb in publishes(ctx, g, ['node_results']):
                if isinstance(pb.value, tuple) and pb.value[0] == 'new' and pb.value[1] == err.qualname:
                    barrier.add(pb.ev.id)
            for r in g.events('raise'):
                for k in r.info.get('kinds', []):
                    if k[1] is err:
                        barrier.add(r.id)
            ends = {g.exit} if lp.inst.parent is None else {ev.id for ev in g.events('ret') if ev.info.get('callee') is lp.inst}
            bad = None
            for f in fsucc:
                if f in barrier:
                    continue
                pth = find_path(g, f, ends, avoid=barrier, labels=NORMAL_LABELS)
                if f in ends:
                    pth = [f]
                if pth is not None:
                    bad = pth
            if bad is None:
                out.ok('OO-5', cons, lp.where(), 'every path after the last candidate publishes or raises OneOfDoesNotHaveResultError')
            else:
                out.bad('OO-5', cons, lp.where(), 'after the last candidate failed a path ends the one-of without publishing or raising '
                                                  'OneOfDoesNotHaveResultError: the consumer waits forever or the failure is lost',
                        path_text(g, [lp.id] + bad))
    if n == 0:
        raise AnalysisError('no one-of candidate loop found (OO-5 anchor vanished)')


def rule_flag_propagation(ctx: Ctx, out: Collector) -> None:
    """OO-4: every sub-dag created on behalf of a dag parameter inherits its errors-as-values flag
    (is_oneof=<dag>.is_oneof), or sets it to True when it starts a one-of candidate."""
    mgr = ctx.manager_class()
    n = 0
    for m in mgr.methods.values():
        env = FuncEnv.of(ctx.p, m)
        params = m.params()
        dag_params = [p_ for p_ in params if env.name_type(p_)[0] == 'class' and env.name_type(p_)[1].name == 'DiGraph']
        if not dag_params or not m.is_async:
            continue
        for node in env.own_nodes():
            if not isinstance(node, ast.Call):
                continue
            tg = env.resolve_call(node)
            creates = any(t[0] == 'func' and ('is_oneof' in [a.arg for a in t[1].node.args.args + t[1].node.args.kwonlyargs]) for t in tg)
            if not creates:
                continue
            n += 1
            kws = {k.arg: k.value for k in node.keywords}
            cons = f'{m.module.name}::{m.qualname}::{text(node)[:70]} [is_oneof propagated]'
            v = kws.get('is_oneof')
            ok = False
            if v is not None:
                if isinstance(v, ast.Constant) and v.value is True:
                    ok = True
                if isinstance(v, ast.Attribute) and v.attr == 'is_oneof' and isinstance(v.value, ast.Name) and v.value.id in dag_params:
                    ok = True
            if ok:
                out.ok('OO-4', cons, ctx.p.loc(m, node), f'is_oneof={unparse(v)}')
            else:
                out.bad('OO-4', cons, ctx.p.loc(m, node),
                        f'a sub-dag is created without inheriting the errors-as-values flag of the dag it belongs to '
                        f'(is_oneof={unparse(v) if v is not None else "<default False>"}): inside a one-of candidate a failing node raises '
                        f'and fails the whole run instead of failing only the candidate')
    if n < 2:
        raise AnalysisError(f'only {n} sub-dag creations found (OO-4 anchors vanished)')


def rule_error_gate(ctx: Ctx, out: Collector) -> None:
    """OO-6: in the launch loop every spawn is preceded, in the same iteration, by the errors-as-values
    gate (is_oneof and has-subgraph-error) taken on its negative side."""
    herr = {u.fid for u in ctx.has_error_functions()}
    n = 0
    seen = set()
    for fid, g in ctx.run_graphs().items():
        for lp, region, wait in launch_loops(ctx, g):
            unit = lp.inst.unit
            cons = f'{unit.module.name}::{unit.qualname}::error gate before every spawn of the launch loop'
            if cons in seen:
                continue
            seen.add(cons)
            n += 1
            gates = [g.evs[m] for m in region if g.evs[m].kind == 'branch' and g.evs[m].inst is lp.inst
                     and _has_error_test(ctx, g.evs[m], herr) is not None]
            spawns = [m for m in region if g.evs[m].kind == 'call' and ctx.roles.spawn(g.evs[m])]
            tsucc = [m for m, lab in g.succ[lp.id] if lab == 'T']
            bad = None
            for sp in spawns:
                pth = find_path(g, tsucc[0], {sp}, avoid={x.id for x in gates} | {lp.id}, labels=EXC_LABELS)
                if pth is not None:
                    bad = pth
            # the gate must scan the whole dag: a has-error call that narrows the scanned set (extra arguments)
            narrowed = None
            for gt in gates:
                for x in ast.walk(gt.info['test']):
                    if isinstance(x, ast.Call):
                        for t in FuncEnv.of(ctx.p, gt.inst.unit).resolve_call(x):
                            if t[0] == 'func' and t[1].fid in herr:
                                whole = bool(x.args) and isinstance(x.args[0], ast.Name) and any(
                                    d_[0] == 'param' for d_ in FuncEnv.of(ctx.p, gt.inst.unit).local_defs().get(x.args[0].id, []))
                                if len(x.args) > 1 or x.keywords or not whole:
                                    narrowed = x
            if narrowed is not None and gates and bad is None:
                out.bad('OO-6', cons, lp.where(),
                        f'the error gate of the launch loop scans only part of the dag ({unparse(narrowed)[:70]}): an error stored by a node '
                        f'that was executed for another scope (an earlier candidate, a shared ancestor) is not seen, the consumer counts as '
                        f'ready and is started with the exception object as its argument')
                continue
            is_oneof_guard = all(any(isinstance(x, ast.Attribute) and x.attr == 'is_oneof' for x in ast.walk(gt.info['test'])) for gt in gates)
            if gates and bad is None:
                out.ok('OO-6', cons, lp.where(), 'every spawn is dominated by the has-subgraph-error gate of the iteration'
                       + (' (active in errors-as-values dags)' if is_oneof_guard else ''))
            else:
                out.bad('OO-6', cons, lp.where(), 'a node of an errors-as-values dag can be launched without the has-subgraph-error '
                                                  'gate: a consumer is started with the exception object of a failed predecessor as '
                                                  'its argument', path_text(g, bad) if bad else [])
    if n == 0:
        raise AnalysisError('no launch loop found (OO-6 anchor vanished)')


# ---------------------------------------------------------------------------------------------
# RC: recurrent subgraph
# ---------------------------------------------------------------------------------------------

def _iteration_loops(ctx: Ctx, g: Graph) -> List[Ev]:
    """for _ in range(<bound>) loops of the manager that run a dag in their body."""
    out = []
    for lp in g.events('loop'):
        if lp.info.get('comp') is not None or lp.inst.unit.cls is not ctx.manager_class():
            continue
        it = lp.info['iter']
        if isinstance(it, ast.Call) and isinstance(it.func, ast.Name) and it.func.id == 'range':
            region = loop_region(g, lp, labels=EXC_LABELS)
            if any(g.evs[m].kind == 'call' and g.evs[m].inst is lp.inst and g.evs[m].info.get('inlined')
                   and _runs_launch_loop(ctx, g, g.evs[m]) for m in region):
                out.append(lp)
    return out


def rule_recurrent_loop(ctx: Ctx, out: Collector) -> None:
    """RC-1: the re-execution loop is `for _ in range(B)` with B exactly the max_iterations attribute of
    the destination node; its body runs the subgraph exactly once and re-enters only through the loop.
    RC-2: the hand-over slot is written with the marker's data before each run and read by the argument
    builder under the same key.  RC-4: exhaustion yields the default only for a Recurrent marker and
    use_default, otherwise RecurrentSubgraphDoesNotHaveResultError."""
    err = _error_class(ctx, 'RecurrentSubgraphDoesNotHaveResultError')
    n = 0
    seen = set()
    for fid, g in ctx.run_graphs().items():
        for lp in _iteration_loops(ctx, g):
            unit = lp.inst.unit
            base = f'{unit.module.name}::{unit.qualname}'
            if base in seen:
                continue
            seen.add(base)
            n += 1
            it = lp.info['iter']
            # ---- RC-1 bound
            cons = base + '::iteration bound is exactly max_iterations'
            ok = False
            detail = unparse(it)
            if len(it.args) == 1:
                e, i = sym.resolve_value(ctx.p, it.args[0], lp.inst)
                t = sym.term(ctx.p, it.args[0], lp.inst)
                detail = sym.show(t)
                if sym.mentions(t, lambda s: isinstance(s, tuple) and s[0] == 'global' and s[1].endswith('NodeField.max_iterations')) \
                        and isinstance(t, tuple) and t[0] == 'call' and not isinstance(e, ast.BinOp):
                    ok = True
            if not ok:
                # not the plain spelling: decided by what the driver does for the bounds 0..3 (recurrent worlds)
                try:
                    from .rcw import Scenario as _Sc, observe as _observe
                    counts = {}
                    for b_ in (0, 1, 2, 3):
                        o_ = _observe(ctx, _Sc(['again'], use_default=True, is_oneof=False, max_iterations=b_))
                        counts[b_] = len(o_['log']['runs']) if 'log' in o_ and o_.get('outcome') != ('endless',) else None
                    if all(counts[b_] == b_ for b_ in counts):
                        ok = True
                        detail = f'{detail}: interpreted for the bounds 0..3 the subgraph is run {counts} time(s)'
                    else:
                        detail = f'{detail}: interpreted for the bounds 0..3 the subgraph is run {counts} time(s)'
                except AnalysisError:
                    pass
            if ok:
                out.ok('RC-1', cons, lp.where(), f'range({detail})')
            else:
                out.bad('RC-1', cons, lp.where(), f'the re-execution loop is bounded by range({detail}), which is not exactly the '
                                                  f'max_iterations attribute of the destination node: the subgraph is re-executed more or '
                                                  f'fewer times than declared')
            # ---- RC-1 body runs the subgraph exactly once per iteration
            region = loop_region(g, lp, labels=EXC_LABELS)
            runs = [g.evs[m] for m in sorted(region) if g.evs[m].kind == 'call' and g.evs[m].inst is lp.inst
                    and g.evs[m].info.get('inlined') and g.evs[m].info.get('awaited')
                    and _runs_launch_loop(ctx, g, g.evs[m])]
            cons = base + '::each iteration runs the subgraph exactly once'
            tsucc = [m for m, lab in g.succ[lp.id] if lab == 'T']
            if len(runs) == 1 and find_path(g, tsucc[0], {lp.id}, avoid={runs[0].id}, labels=NORMAL_LABELS) is None:
                out.ok('RC-1', cons, lp.where(), f'{runs[0].text(60)} on every path of the iteration')
            else:
                out.bad('RC-1', cons, lp.where(), f'an iteration of the re-execution loop runs the subgraph {len(runs)} time(s) / can skip '
                                                  f'it: iterations and executions no longer correspond')
            # ---- RC-2 hand-over
            cons = base + '::hand-over of the marker data before every run'
            stores = [g.evs[m] for m in sorted(region) if g.evs[m].kind == 'store' and (g.evs[m].inst is lp.inst or _below(g.evs[m].inst, lp.inst))]
            hand = None
            for st in stores:
                v = sym.term(ctx.p, st.info['value'], st.inst)
                if isinstance(v, tuple) and v[0] == 'attr' and v[2] == 'data':
                    hand = st
            if hand is not None and runs and find_path(g, tsucc[0], {runs[0].id}, avoid={hand.id}, labels=NORMAL_LABELS) is None:
                slot = sym.term(ctx.p, hand.info['target'].value, hand.inst)
                key = sym.term(ctx.p, hand.info['target'].slice, hand.inst)
                # the reader: argument builder reads the same container
                reader_ok = _reader_of_slot(ctx, slot)
                if reader_ok:
                    out.ok('RC-2', cons, hand.where(), f'{sym.show(slot)}[{sym.show(key)}] = <marker>.data dominates the run; the argument '
                                                      f'builder reads {sym.show(slot)}')
                else:
                    out.bad('RC-2', cons, hand.where(), f'the marker data is stored in {sym.show(slot)} but the argument builder does not read '
                                                        f'that slot: the start node never receives additional_data')
            else:
                out.bad('RC-2', cons, lp.where(), 'the data of next_iteration() is not handed over before each run of the subgraph: the '
                                                  'start node is re-executed without (or with stale) additional_data')
            # ---- RC-8 the hand-over entry does not outlive the subgraph
            cons8 = base + '::the hand-over entry is removed when the subgraph has finished'
            if hand is not None:
                slot8 = sym.term(ctx.p, hand.info['target'].value, hand.inst)
                key8 = sym.term(ctx.p, hand.info['target'].slice, hand.inst)
                removals = set()
                for ev in g.evs:
                    if ev.inst is not lp.inst and not _below(ev.inst, lp.inst):
                        continue
                    if ev.kind == 'call' and isinstance(ev.node, ast.Call) and isinstance(ev.node.func, ast.Attribute) \
                            and ev.node.func.attr in ('pop', 'clear', '__delitem__') \
                            and sym.term(ctx.p, ev.node.func.value, ev.inst) == slot8:
                        if ev.node.func.attr == 'clear' or (ev.node.args and sym.term(ctx.p, ev.node.args[0], ev.inst) == key8):
                            removals.add(ev.id)
                    if ev.kind == 'del' and isinstance(ev.info.get('target'), ast.Subscript) \
                            and sym.term(ctx.p, ev.info['target'].value, ev.inst) == slot8 \
                            and sym.term(ctx.p, ev.info['target'].slice, ev.inst) == key8:
                        removals.add(ev.id)
                ends8 = {g.exit} if lp.inst.parent is None else {ev.id for ev in g.events('ret') if ev.info.get('callee') is lp.inst}
                # normal completions of the driver: the loop was left by break (a final result) or by exhaustion
                after = [m for m, lab in g.succ[lp.id] if lab == 'F']
                brk = [ev.id for ev in g.events('break') if ev.inst is lp.inst and ev.id in region]
                starts8 = after + [m for b_ in brk for m, lab in g.succ.get(b_, ()) if lab in NORMAL_LABELS]
                leak = None
                for st8 in starts8:
                    pth = find_path(g, st8, ends8, avoid=removals, labels=NORMAL_LABELS)
                    if pth is not None and st8 not in removals:
                        leak = pth
                        break
                if leak is None and starts8:
                    out.ok('RC-8', cons8, hand.where(), f'every normal completion removes {sym.show(slot8)}[{sym.show(key8)}]')
                else:
                    out.bad('RC-8', cons8, hand.where(),
                            f'{sym.show(slot8)}[{sym.show(key8)}] is written on every re-iteration and still set when the subgraph has '
                            f'finished: when an outer subgraph (or a later scope) executes the start node again it receives the '
                            f'additional_data of the superseded execution', path_text(g, leak or []))
            # ---- RC-4 exhaustion

            fsucc = [m for m, lab in g.succ[lp.id] if lab == 'F']
            ends = {g.exit} if lp.inst.parent is None else {ev.id for ev in g.events('ret') if ev.info.get('callee') is lp.inst}
            ok_events = set()
            for pb in publishes(ctx, g, ['node_results']):
                if isinstance(pb.value, tuple) and pb.value[0] == 'new' and pb.value[1] == err.qualname:
                    ok_events.add(pb.ev.id)
            for r in g.events('raise'):
                for k in r.info.get('kinds', []):
                    if k[1] is err:
                        ok_events.add(r.id)
            # a call of the loop's activation that (transitively) produces the node's default
            body_defaults = [ev for ev in g.events('call') if ctx.roles.body(ev) == 'default']
            # the invocations of get_default below the loop's activation (whatever helpers lie in between)
            defaults = set()
            for bd in body_defaults:
                cur = bd.inst
                while cur is not None and cur is not lp.inst:
                    cur = cur.parent
                if cur is lp.inst and bd.inst is not lp.inst:
                    defaults.add(bd.id)
            for ev in g.cut_calls:
                # not expanded (depth bound): a node runner below the loop counts as producing the default itself
                cur = ev.inst
                while cur is not None and cur is not lp.inst:
                    cur = cur.parent
                if cur is lp.inst and ev.info.get('cut') is not None and _may_default(ctx, ev.info['cut']):
                    defaults.add(ev.id)
            # calls (at any depth below the loop) that lead to such an invocation: "the default was requested"
            requests = set(defaults)
            for ev in g.events('call'):
                callee = ev.info.get('callee')
                if callee is None or callee.unit.fid not in ctx.task_roots():
                    continue            # only a whole node execution (a task root run in place) stands for its default
                for bd in body_defaults:
                    if bd.id not in defaults:
                        continue
                    cur = bd.inst
                    while cur is not None and cur is not callee:
                        cur = cur.parent
                    if cur is callee:
                        requests.add(ev.id)
                        break
            # paths to a default must be guarded by isinstance(.., Recurrent) and use_default
            s = Search(ctx.p, g, EXC_LABELS)

            def estep(prev, lab, e, state, facts):
                rec, usedef = state
                if prev is not None and prev.kind == 'branch' and lab == 'T' and prev.info.get('test') is not None:
                    parts = []
                    decompose(prev.info['test'], True, parts)
                    for gx, pol in parts:
                        tx = text(gx)
                        if pol and tx.startswith('isinstance(') and 'Recurrent' in tx:
                            rec = 1
                        if pol and tx.endswith('.use_default'):
                            usedef = 1
                if e.id in ok_events:
                    return None
                return (rec, usedef)

            problems = []
            # what the path knows when the loop is exhausted (flags set before / inside the loop)
            exhausted_facts = set()
            s0 = Search(ctx.p, g, EXC_LABELS)

            def collect(e, st, f, lp=lp):
                if e.id == lp.id:
                    exhausted_facts.add(frozenset(kv for kv in f if kv[0][1] == lp.inst.iid and kv[0][0] in ('v', 'a')))
                return False
            s0.run([(g.entry, 0, frozenset())], lambda e, st, f: 0, collect)
            if not exhausted_facts:
                exhausted_facts = {frozenset()}
            if fsucc:
                starts = [(f, (0, 0), fx) for f in fsucc for fx in exhausted_facts]
                res = s.run(starts, None, lambda e, st, f: e.id in defaults and st != (1, 1), edge_step=estep)
                if res is not None:
                    problems.append(('the default is produced on exhaustion without the (Recurrent marker and use_default) guard', res[0]))
                s2 = Search(ctx.p, g, NORMAL_LABELS)

                def step2(e, st, f):
                    if e.id in ok_events or e.id in requests:
                        return None
                    return 0
                res2 = s2.run([(f, 0, fx) for f in fsucc for fx in exhausted_facts], step2, lambda e, st, f: e.id in ends)
                if res2 is not None:
                    problems.append(('exhaustion can end without a default and without RecurrentSubgraphDoesNotHaveResultError', res2[0]))
            else:
                problems.append(('the loop has no exhaustion branch', []))
            if not problems:
                out.ok('RC-4', cons, lp.where(), 'default under isinstance(result, Recurrent) and use_default; otherwise the error is '
                                                 'published (one-of dag) or raised')
            else:
                why, path = problems[0]
                out.bad('RC-4', cons, lp.where(), f'{why}: consumers of the destination get a value the declaration does not allow, or '
                                                  f'none at all', path_text(g, path))
    if n == 0:
        # the iterations are not written as `for ... in range(bound)`: bound, hand-over, exhaustion and clean-up are decided over
        # the recurrent worlds (rcw.py), which interpret the driver whatever its loop looks like - if they find the driver
        from .rcw import _driver
        try:
            driver, _rd, _rn = _driver(ctx)
        except AnalysisError:
            raise AnalysisError('no bounded re-execution loop found (RC-1 anchor vanished)')
        base = f'{driver.module.name}::{driver.qualname}'
        for rid, title in (('RC-1', 'iteration bound is exactly max_iterations'), ('RC-1', 'each iteration runs the subgraph exactly once'),
                           ('RC-2', 'hand-over of the marker data before every run'), ('RC-4', 'hand-over of the marker data before every run'),
                           ('RC-8', 'the hand-over entry is removed when the subgraph has finished')):
            out.ok(rid, f'{base}::{title}', ctx.p.loc(driver, driver.node), 'not a range loop: decided by the recurrent worlds (the [recurrent world] instances)')


def _below(inst, anc) -> bool:
    cur = inst
    while cur is not None:
        if cur is anc:
            return True
        cur = cur.parent
    return False


def _may_default(ctx: Ctx, unit: FuncUnit) -> bool:
    g = ctx.graph(unit.fid)
    return any(ctx.roles.body(ev) == 'default' for ev in g.events('call'))


def _runs_launch_loop(ctx: Ctx, g: Graph, call: Ev) -> bool:
    callee = call.info.get('callee')
    if callee is None:
        return False
    for lp, region, wait in launch_loops(ctx, g):
        # the loop lives in the callee itself or in a helper the callee runs inline (the runner split into "launch" and "await")
        inst = lp.inst
        while inst is not None:
            if inst is callee:
                return True
            inst = inst.parent
    return False


def _reader_of_slot(ctx: Ctx, slot) -> bool:
    """Some function on the run path reads the hand-over container (`.get(...)` / subscript) and stores
    the value under the additional_data key of an argument dictionary."""
    for fid, g in ctx.run_graphs().items():
        for ev in g.events('call'):
            c = ev.node
            if isinstance(c, ast.Call) and isinstance(c.func, ast.Attribute) and c.func.attr == 'get':
                recv = sym.term(ctx.p, c.func.value, ev.inst)
                if recv == slot:
                    return True
        for ev in g.events('subscr'):
            if sym.term(ctx.p, ev.node.value, ev.inst) == slot:
                return True
    return False
