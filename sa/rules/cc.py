"""CC-* (C06): independent nodes of equal depth run concurrently."""
from __future__ import annotations

import ast
from typing import List, Optional, Tuple

from .. import sym
from ..cfg import Ev, Graph, reach
from ..engine import Ctx, resolve_all
from ..paths import EXC_LABELS, NORMAL_LABELS, Search
from ..program import AnalysisError, FuncEnv, FuncUnit, dotted, unparse
from ..absint import AFunc
from ..report import Collector
from .common import loop_region, path_text, awaited_in_frame

GENERATION_ORDERED = {'networkx.topological_sort', 'networkx.topological_generations'}
NOT_GENERATION_ORDERED = {'networkx.lexicographical_topological_sort', 'networkx.all_topological_sorts',
                          'networkx.dfs_preorder_nodes', 'networkx.dfs_postorder_nodes', 'networkx.dfs_tree',
                          'networkx.bfs_tree', 'networkx.dfs_edges', 'networkx.bfs_edges', 'builtins.sorted',
                          'builtins.reversed', 'builtins.set', 'builtins.frozenset', 'networkx.descendants',
                          'networkx.ancestors', 'random.shuffle', 'random.sample'}
ORDER_PRESERVING = {'builtins.list', 'builtins.tuple', 'builtins.filter', 'builtins.iter', 'collections.deque',
                    'itertools.chain', 'itertools.chain.from_iterable'}


def launch_loops(ctx: Ctx, g: Graph) -> List[Tuple[Ev, set, Optional[Ev]]]:
    """(loop header, body region, the WAIT event keyed by the loop variable or None) of *launch loops*:
    loops whose body hands a coroutine that takes the loop variable itself (the node) as an argument to the
    task spawner."""
    out = []
    for lp in g.events('loop'):
        if lp.info.get('comp') is not None:
            continue
        region = loop_region(g, lp, labels=('n', 'T', 'F', 'back', 'exc'))
        key = ('elem', sym.term(ctx.p, lp.info['iter'], lp.inst))
        per_node = False
        for m in region:
            ev = g.evs[m]
            if ev.kind != 'call' or not (ev.info.get('coro') or (ev.info.get('inlined') and ev.info.get('awaited'))):
                continue
            if ev.inst is not lp.inst:
                continue
            c = ev.node
            tg = [t for t in ev.info.get('targets', ()) if t[0] == 'func' and t[1].is_async and t[1].fid in ctx.task_roots()]
            if not tg:
                continue
            args = [sym.term(ctx.p, a, ev.inst) for a in c.args if not isinstance(a, ast.Starred)] + \
                   [sym.term(ctx.p, k.value, ev.inst) for k in c.keywords if k.arg is not None]
            if key in args:
                per_node = True
        if not per_node:
            # the coroutine may be chosen by a synchronous helper: follow the values that reach the spawner
            for sev, roots in ctx.spawn_sites(g):
                if sev.id not in region:
                    continue
                for unit, e, i in roots:
                    if unit.fid not in ctx.task_roots():
                        continue
                    args = [sym.term(ctx.p, a, i) for a in e.args if not isinstance(a, ast.Starred)] + \
                           [sym.term(ctx.p, k.value, i) for k in e.keywords if k.arg is not None]
                    if key in args:
                        per_node = True
        if not per_node:
            continue
        wait = None
        for n in sorted(region):
            ev = g.evs[n]
            w = ctx.roles.wait(ev) if ev.kind == 'call' else None
            if w is not None and w[0] == key:
                wait = ev
                break
        out.append((lp, region, wait))
    return out


def rule_launch_loop(ctx: Ctx, out: Collector) -> None:
    """CC-1 / CC-2: inside the launch loop node coroutines are only spawned, nothing but the readiness
    wait is awaited, no node / collaborator code and no sleep runs in the loop's own frame."""
    n = 0
    seen = set()
    for fid, g in ctx.run_graphs().items():
        for lp, region, wait in launch_loops(ctx, g):
            cons = ctx.construct(lp, lp.node.iter if hasattr(lp.node, 'iter') else lp.node, None)
            cons = f'{lp.inst.unit.module.name}::{lp.inst.unit.qualname}::launch loop over {unparse(lp.info["iter"])}'
            if cons in seen:
                continue
            seen.add(cons)
            n += 1
            problems = []
            spawned = set()
            for m in sorted(region):
                ev = g.evs[m]
                if ev.kind == 'call' and ctx.roles.spawn(ev):
                    c = ev.node
                    if c.args:
                        for e, i in resolve_all(ctx.p, c.args[0], ev.inst):
                            spawned.add(id(e))
            for sev, roots in ctx.spawn_sites(g):
                if sev.id in region:
                    spawned |= {id(e) for unit, e, i in roots}
            for m in sorted(region):
                ev = g.evs[m]
                if ev.kind == 'await' and not ev.info.get('wait'):
                    problems.append((ev, 'awaits inside the launch loop (the loop does not continue to the next sibling '
                                         'until this completes)'))
                elif ev.kind == 'call' and ctx.roles.gather(ev):
                    problems.append((ev, 'gathers / waits for tasks inside the launch loop'))
                elif ev.kind == 'call' and ctx.roles.sleep(ev):
                    problems.append((ev, 'sleeps inside the launch loop'))
                elif ev.kind == 'call' and ctx.roles.foreign(ev):
                    problems.append((ev, f'runs {ctx.roles.foreign(ev)} code in the frame of the launch loop'))
                elif ev.kind == 'call' and ev.info.get('coro') and id(ev.node) not in spawned:
                    problems.append((ev, 'creates a node coroutine that is not handed to the task spawner'))
            if not problems:
                out.ok('CC-1', cons, lp.where(), 'node coroutines are only spawned; the loop awaits nothing but the readiness wait')
            else:
                ev, why = problems[0]
                out.bad('CC-1', cons, lp.where(), f'the launch loop {why}: siblings of equal depth are serialised',
                        [f'{e.where()} [{e.kind}] {e.text()} - {w}' for e, w in problems[:5]])
    if n == 0:
        raise AnalysisError('no launch loop found (CC-1 anchor vanished)')


def rule_ready_reads(ctx: Ctx, out: Collector) -> None:
    """CC-3: the readiness predicate of the launch loop reads results only of nodes derived from the
    node being launched (its predecessors), never of siblings."""
    n = 0
    seen = set()
    for fid, g in ctx.run_graphs().items():
        for lp, region, wait in launch_loops(ctx, g):
            if wait is None:
                continue            # reported by RD-1 (no readiness wait at all)
            pred = wait.info.get('pred')
            cons = f'{lp.inst.unit.module.name}::{lp.inst.unit.qualname}::readiness predicate of the launch loop'
            if cons in seen:
                continue
            seen.add(cons)
            if pred is None:
                raise AnalysisError(f'readiness predicate of the launch loop at {wait.where()} cannot be resolved')
            n += 1
            K = ('elem', sym.term(ctx.p, lp.info['iter'], lp.inst))
            # activations of the predicate: events whose activation chain passes the wait_for call
            bad = []
            reads = 0
            for ev in g.evs:
                if ev.kind != 'call' or ev.info.get('inlined') is False and not isinstance(ev.node, ast.Call):
                    continue
                if not _inside_pred(ev, wait):
                    continue
                c = ev.node
                if not (isinstance(c, ast.Call) and isinstance(c.func, ast.Attribute)):
                    continue
                recv = sym.term(ctx.p, c.func.value, ev.inst)
                if isinstance(recv, tuple) and recv[0] == 'attr' and recv[2] in ('node_results', 'switch_results', 'processed_nodes') \
                        and c.func.attr in ('get', 'exists') and c.args:
                    reads += 1
                    kt = sym.term(ctx.p, c.args[0], ev.inst)
                    if not sym.mentions(kt, lambda s: s == K):
                        bad.append((ev, kt))
            if reads == 0:
                raise AnalysisError(f'no result-store read found in the readiness predicate at {wait.where()}')
            if not bad:
                out.ok('CC-3', cons, wait.where(), f'{reads} store reads, all keyed by nodes derived from the launched node')
            else:
                ev, kt = bad[0]
                out.bad('CC-3', cons, wait.where(),
                        f'the readiness predicate reads {sym.show(kt)}, which is not derived from the node being launched: '
                        f'a node waits for something else than its own inputs',
                        [f'{e.where()} [call] {e.text()} key={sym.show(k)}' for e, k in bad[:5]])
    if n == 0 and not any(launch_loops(ctx, g) for g in ctx.run_graphs().values()):
        raise AnalysisError('no launch loop found (CC-3 anchor vanished)')


def _inside_pred(ev: Ev, wait: Ev) -> bool:
    """ev belongs to an activation started below the wait_for event (the predicate call)."""
    inst = ev.inst
    while inst is not None:
        if inst.call is not None and inst.parent is wait.inst and getattr(inst.call, 'lineno', None) == getattr(wait.node, 'lineno', None) \
                and inst.depth == wait.inst.depth + 1 and _is_pred_call(inst, wait):
            return True
        inst = inst.parent
    return False


def _is_pred_call(inst, wait: Ev) -> bool:
    c = wait.node
    return isinstance(c, ast.Call) and bool(c.args) and inst.call is not None and inst.call.func is c.args[0]


def order_source(ctx: Ctx, expr: ast.AST, inst, depth: int = 0) -> Tuple[str, str]:
    """-> ('ordered'|'unordered'|'unknown', description)"""
    if depth > 10:
        return 'unknown', unparse(expr)
    e, i = sym.resolve_value(ctx.p, expr, inst)
    if isinstance(e, ast.Name):
        vals = resolve_all(ctx.p, e, i)
        if len(vals) == 1 and vals[0][0] is e:
            return 'unknown', unparse(e)
        res = [order_source(ctx, v, vi, depth + 1) for v, vi in vals]
        for r in res:
            if r[0] != 'ordered':
                return r
        return res[0]
    if isinstance(e, (ast.ListComp, ast.GeneratorExp)):
        if len(e.generators) == 1 and isinstance(e.elt, ast.Name) and isinstance(e.generators[0].target, ast.Name) \
                and e.elt.id == e.generators[0].target.id:
            return order_source(ctx, e.generators[0].iter, i, depth + 1)
        return 'unknown', unparse(e)
    if isinstance(e, ast.Call):
        env = FuncEnv.of(ctx.p, i.unit)
        targets = env.resolve_call(e)
        for t in targets:
            if t[0] == 'ext':
                name = t[1]
                if name in GENERATION_ORDERED:
                    return 'ordered', name
                if name in NOT_GENERATION_ORDERED or name.split('.')[-1].startswith(('dfs_', 'bfs_')):
                    return 'unordered', name
                if name in ORDER_PRESERVING and e.args:
                    src = e.args[1] if name == 'builtins.filter' and len(e.args) > 1 else e.args[0]
                    return order_source(ctx, src, i, depth + 1)
                return 'unknown', name
            if t[0] == 'func':
                unit = t[1]
                from ..cfg import Builder, Inst
                binding = Builder.bind(None, e, unit, i, t[2], None, None)
                callee = Inst(unit, i, e, binding)
                rets = [n for n in FuncEnv.of(ctx.p, unit).own_nodes() if isinstance(n, ast.Return) and n.value is not None]
                if not rets:
                    return 'unknown', unit.qualname
                res = [order_source(ctx, r.value, callee, depth + 1) for r in rets]
                for r in res:
                    if r[0] != 'ordered':
                        return r
                return res[0]
    if isinstance(e, ast.Attribute) and e.attr in ('nodes',):
        return 'unordered', unparse(e) + ' (insertion order, not depth order)'
    return 'unknown', unparse(e)


def rule_launch_order(ctx: Ctx, out: Collector) -> None:
    """CC-4: the launch order is generation ordered (a node of depth d+1 never precedes one of depth d)."""
    n = 0
    seen = set()
    for fid, g in ctx.run_graphs().items():
        for lp, region, wait in launch_loops(ctx, g):
            cons = f'{lp.inst.unit.module.name}::{lp.inst.unit.qualname}::order of the launch loop'
            if cons in seen:
                continue
            seen.add(cons)
            n += 1
            verdict, what = order_source(ctx, lp.info['iter'], lp.inst)
            if verdict == 'ordered':
                out.ok('CC-4', cons, lp.where(), f'launch order comes from {what} through order-preserving operations')
            elif verdict == 'unordered':
                out.bad('CC-4', cons, lp.where(),
                        f'the launch order comes from {what}, which is not generation ordered: the loop blocks on the readiness '
                        f'of a deep node while shallower independent nodes behind it are not started')
            else:
                raise AnalysisError(f'cannot classify the order source of the launch loop at {lp.where()}: {what}')
    if n == 0:
        raise AnalysisError('no launch loop found (CC-4 anchor vanished)')


def rule_dispatch(ctx: Ctx, out: Collector) -> None:
    """CC-5: a synchronous body runs inline only under the non_async tag; otherwise it goes to an
    executor; tasks are created with asyncio.create_task (eager scheduling)."""
    n = 0
    seen = set()
    for fid, g in ctx.run_graphs().items():
        have_executor = False
        for ev in g.events('call'):
            role = ctx.roles.body(ev)
            if role == 'executor':
                have_executor = True
                if not awaited_in_frame(ctx, g, ev):
                    cons = ctx.construct(ev) + ' [executor future]'
                    if cons not in seen:
                        seen.add(cons)
                        out.bad('CC-5', cons, ev.where(), 'the executor future is not awaited in the frame that created it')
            if role != 'process' or ev.info.get('awaited'):
                continue
            cons = ctx.construct(ev) + ' [inline body]'
            if cons in seen:
                continue
            seen.add(cons)
            n += 1
            s = Search(ctx.p, g, EXC_LABELS)

            def estep(prev, lab, e, state, facts):
                if prev is not None and prev.kind == 'branch' and lab == 'T' and prev.info.get('test') is not None \
                        and prev.inst is ev.inst:
                    t = sym.term(ctx.p, prev.info['test'], prev.inst)
                    if sym.mentions(t, lambda s: isinstance(s, tuple) and s[0] == 'global' and s[1].endswith('NodeTag.non_async')):
                        return 1
                if e.kind == 'entry' and e.inst is ev.inst:
                    return 0
                return state

            res = s.run([(g.entry, 0, frozenset())], None, lambda e, st, f, ev=ev: e.id == ev.id and st == 0, edge_step=estep)
            if res is None:
                out.ok('CC-5', cons, ev.where(), 'the inline call of a synchronous body is guarded by the non_async tag')
            else:
                out.bad('CC-5', cons, ev.where(),
                        'a synchronous node body is called inline on the event loop without the non_async tag guard: while it '
                        'runs no sibling can start or progress', path_text(g, res[0]))
        if any(ctx.roles.body(ev) == 'process' for ev in g.events('call')) and not have_executor:
            out.bad('CC-5', f'{g.root.module.name}::{g.root.qualname}::executor dispatch', '',
                    'node code is invoked on the run path but never through loop.run_in_executor: synchronous bodies block the loop')
    # every body that leaves the loop thread is handed to a *registered* pool directly: a hop through another executor
    # (asyncio.to_thread, the loop's default executor) makes the capacity of that executor a second bound on how many
    # siblings can be in flight
    for unit in ctx.p.functions.values():
        if isinstance(unit.node, ast.Lambda) or not unit.is_async or not unit.module.name.startswith('ml_pipeline_engine'):
            continue
        env = FuncEnv.of(ctx.p, unit)
        for c in env.own_nodes():
            if not isinstance(c, ast.Call):
                continue
            names = [t[1] for t in env.resolve_call(c) if t[0] == 'ext']
            via = None
            if any(nm == 'asyncio.to_thread' for nm in names):
                via = 'asyncio.to_thread (the loop\'s default executor)'
            elif isinstance(c.func, ast.Attribute) and c.func.attr == 'run_in_executor' and c.args \
                    and isinstance(c.args[0], ast.Constant) and c.args[0].value is None:
                via = 'run_in_executor(None, ...) (the loop\'s default executor)'
            if via is None:
                continue
            cons = f'{unit.module.name}::{unit.qualname}::{unparse(c)[:60]} [bodies go to a registered pool directly]'
            if cons in seen:
                continue
            seen.add(cons)
            out.bad('CC-5', cons, ctx.p.loc(unit, c),
                    f'work is sent through {via}: every call in flight holds one of its threads, so the number of siblings that can run '
                    f'at the same time is bounded by an executor the engine neither registered nor validated (a capped or busy default '
                    f'executor serialises them although the registered pool has idle workers)', props={'C06', 'C17'})
    # spawn primitive
    for fid, g in ctx.run_graphs().items():
        for ev in g.events('call'):
            if ctx.roles.spawn(ev):
                cons = ctx.construct(ev) + ' [spawn primitive]'
                if cons in seen:
                    continue
                seen.add(cons)
                names = [t[1] for t in ev.info['targets'] if t[0] == 'ext']
                if any(x in ('asyncio.create_task', 'asyncio.ensure_future') or x.endswith('.create_task') for x in names):
                    out.ok('CC-5', cons, ev.where(), 'tasks are created with asyncio.create_task')
    if n == 0:
        raise AnalysisError('no inline body invocation found (CC-5 anchor vanished)')


def rule_no_mutex(ctx: Ctx, out: Collector) -> None:
    """CC-6: node code never runs inside a lock / semaphore region."""
    n = 0
    seen = set()
    for fid, g in ctx.run_graphs().items():
        for en in g.events('enter'):
            cons = ctx.construct(en, en.info['expr'], None) + ' [with-region]'
            if cons in seen:
                continue
            seen.add(cons)
            n += 1
            leaves = {ev.id for ev in g.events('leave') if ev.node is en.node and ev.inst is en.inst}
            region = reach(g, [en.id], stop=leaves, labels=('n', 'T', 'F', 'back'))
            hit = [g.evs[m] for m in sorted(region) if g.evs[m].kind == 'call' and (ctx.roles.body(g.evs[m]) or ctx.roles.spawn(g.evs[m]))]
            if hit:
                out.bad('CC-6', cons, en.where(), f'node code / task creation runs inside a `with` region ({hit[0].text(60)} at '
                                                f'{hit[0].where()}): bodies of independent nodes are mutually excluded')
            else:
                out.ok('CC-6', cons, en.where(), 'no node code inside the region')
        for ev in g.events('call'):
            names = [t[1] for t in ev.info.get('targets', ()) if t[0] == 'ext']
            if any(x.endswith('.acquire') for x in names) or any(x in ('asyncio.Semaphore', 'asyncio.Lock', 'threading.Lock',
                                                                      'threading.Semaphore', 'asyncio.BoundedSemaphore') for x in names):
                cons = ctx.construct(ev) + ' [explicit lock]'
                if cons in seen:
                    continue
                seen.add(cons)
                after = reach(g, [ev.id], labels=('n', 'T', 'F', 'back'))
                if any(g.evs[m].kind == 'call' and ctx.roles.body(g.evs[m]) for m in after):
                    out.bad('CC-6', cons, ev.where(), 'an explicitly acquired lock / semaphore is held while node code runs')
    if n == 0:
        raise AnalysisError('no with-region found on the run path (CC-6 anchor vanished)')


def rule_wrapper_kind(ctx: Ctx, out: Collector) -> None:
    """CC-7: run_node chooses the execution mode from `iscoroutinefunction(<run method>)`.  A function installed as the
    `process` of a dynamically created node class (build_node) must therefore be a coroutine function exactly when the
    method it wraps is one: an `async def` wrapper is defined only under iscoroutinefunction(<wrapped>) and a plain one
    only under its negation.  Otherwise a synchronous body is awaited on the event-loop thread and its siblings wait."""
    from ..guards import guards
    n = 0
    for unit in ctx.p.functions.values():
        if unit.parent is not None or isinstance(unit.node, ast.Lambda):
            continue
        env = FuncEnv.of(ctx.p, unit)
        for node in env.own_nodes():
            if not (isinstance(node, ast.Call) and isinstance(node.func, ast.Name) and node.func.id == 'type' and len(node.args) == 3):
                continue
            ns = node.args[2]
            if isinstance(ns, ast.Name):
                ds = env.local_defs().get(ns.id, [])
                if len(ds) == 1 and ds[0][0] == 'assign':
                    ns = ds[0][1]
                elif len(ds) == 1 and ds[0][0] == 'annassign' and ds[0][2] is not None:
                    ns = ds[0][2]
            pairs = []
            if isinstance(ns, ast.Dict):
                pairs = [(k.value, v) for k, v in zip(ns.keys, ns.values) if isinstance(k, ast.Constant)]
            elif isinstance(ns, ast.Call) and isinstance(ns.func, ast.Name) and ns.func.id == 'dict':
                pairs = [(k.arg, k.value) for k in ns.keywords if k.arg is not None]
            else:
                raise AnalysisError(f'{unit.fid}: the namespace of the created class is {unparse(ns)[:60]} (CC-7 cannot read it)')
            # later item stores into the namespace / setattr on the class would also install a process: none accepted silently
            for k, v in pairs:
                if k != 'process':
                    continue
                if not isinstance(v, ast.Name):
                    raise AnalysisError(f'{unit.fid}: the process attribute of the created class is {unparse(v)} (CC-7 cannot classify it)')
                defs = [d for d in env.local_defs().get(v.id, []) if d[0] == 'def']
                if not defs:
                    raise AnalysisError(f'{unit.fid}: {v.id} is not a local function (CC-7)')
                for d in defs:
                    w = d[1]
                    n += 1
                    gs = guards(unit.node, w.node)
                    kind_guard = None
                    for e, pol in gs:
                        if isinstance(e, ast.Call) and (dotted(e.func) or '').split('.')[-1] == 'iscoroutinefunction':
                            kind_guard = pol
                    # SH-6: the wrapper is shared by every run of every chart that uses the node class: it must not keep state
                    wenv = FuncEnv.of(ctx.p, w)
                    wlocals = set(wenv.local_defs())
                    from ..effects import MUTATORS
                    muts = []
                    for x in wenv.own_nodes():
                        tgt = None
                        if isinstance(x, ast.Call) and isinstance(x.func, ast.Attribute) and x.func.attr in MUTATORS | {'update', 'clear', 'setdefault'} \
                                and isinstance(x.func.value, ast.Name):
                            tgt = x.func.value.id
                        elif isinstance(x, (ast.Subscript, ast.Attribute)) and isinstance(x.ctx, (ast.Store, ast.Del)) and isinstance(x.value, ast.Name):
                            tgt = x.value.id
                        elif isinstance(x, ast.Nonlocal):
                            tgt = x.names[0]
                        if tgt is not None and tgt not in wlocals:
                            muts.append((tgt, x))
                    cons6 = f'{unit.module.name}::{unit.qualname}::{"async " if w.is_async else ""}def {w.name} installed as process [the generated wrapper keeps no state]'
                    if not muts:
                        out.ok('SH-6', cons6, ctx.p.loc(unit, w.node), 'no write to a variable of the enclosing scope')
                    else:
                        out.bad('SH-6', cons6, ctx.p.loc(unit, muts[0][1]),
                                f'the process wrapper generated for the node class changes `{muts[0][0]}`, a variable of the enclosing build_node '
                                f'call ({unparse(muts[0][1])[:60]}): the object lives as long as the node class, so what one execution stores '
                                f'there is seen by every later run and by overlapping runs of every chart that uses the node',
                                props={'C07', 'C08'})
                    cons = f'{unit.module.name}::{unit.qualname}::{"async " if w.is_async else ""}def {w.name} installed as process [wrapper kind follows the wrapped method]'
                    # decided by interpreting the function for a wrapped coroutine function and for a wrapped plain function:
                    # which local function ends up as the run method of the created class
                    if unit.name == 'build_node':
                        from .bw import run_build_node
                        installed_for = set()
                        for is_coro in (False, True):
                            for created, _proc in run_build_node(ctx, is_coro):
                                for v_ in created.attrs.values():
                                    if isinstance(v_, AFunc) and v_.unit is w:
                                        installed_for.add(is_coro)
                        kind_guard = None if installed_for == {False, True} else (next(iter(installed_for)) if installed_for else None)
                        if not installed_for:
                            continue          # defined but never installed
                    if kind_guard is not None and kind_guard == w.is_async:
                        out.ok('CC-7', cons, ctx.p.loc(unit, w.node),
                               f'{"coroutine" if w.is_async else "plain"} wrapper only when iscoroutinefunction(<wrapped>) is {kind_guard}')
                    else:
                        out.bad('CC-7', cons, ctx.p.loc(unit, w.node),
                                f'the {"coroutine" if w.is_async else "plain"} wrapper {w.name} is installed as the node\'s process '
                                f'{"whatever the wrapped method is" if kind_guard is None else "for the opposite kind of method"}: run_node '
                                f'picks the execution mode from iscoroutinefunction(process), so a synchronous body is run on the event-loop '
                                f'thread (its pool tags are ignored) and independent siblings are serialised',
                                props={'C06', 'C17'})
    if n == 0:
        raise AnalysisError('no dynamically created node class with a process wrapper found (CC-7 anchor vanished)')
