"""Chart worlds: PipelineChart.run interpreted (abstract interpretation, nothing is executed) over the few situations its
contract distinguishes.  Everything between run() and the user's objects is interpreted as written - the context class, its
constructor, the event mixin and whatever helpers run() is split into; only the leaves that touch user code are replaced:

  get_instance(cls, ...)        the user's artifact store / event manager classes are instantiated here: returns the world's
                                 event manager / store object, or raises the world's constructor error
  entrypoint.run(ctx)            returns the world's value token, or raises the world's exception
  manager.on_pipeline_start / on_pipeline_complete     append to the world's event log

Rules decided here:
  ER-2   the result object of every situation (value / error / identity of the caught exception), nothing but Exception is
         converted, user constructors fail into a result
  EV-1   the event history of every situation: start . entrypoint . complete(result) . return of that very result
"""
from __future__ import annotations

from typing import Any, Dict, List, Optional, Tuple

from ..absint import AClass, AExt, AObj, ARaise, Interp, Oracle, TOP, enumerate_outcomes
from ..engine import CHART_RUN, Ctx
import ast

from ..program import AnalysisError, ClassInfo, FuncEnv
from ..report import Collector


def _exc(kind: str, tag: str) -> AObj:
    return AObj(('ext', f'builtins.{kind}'), {'args': (), '__what__': f'{kind} ({tag})'}, tag=f'exc:{tag}')


class World:
    def __init__(self, ctor_raises: Optional[str] = None, entry: Tuple[str, str] = ('value', ''), managers: int = 1) -> None:
        self.ctor_raises = ctor_raises          # None | 'Exception' | 'CancelledError': the first user constructor raises it
        self.entry = entry                      # ('value', '') | ('raise', 'Exception' | 'CancelledError')
        self.managers = managers


def run_chart(ctx: Ctx, w: World):
    """All outcomes of PipelineChart.run in world w: list of (kind, payload, log, tokens)."""
    p = ctx.p
    unit = p.func(CHART_RUN)
    chart_cls = unit.cls
    if chart_cls is None:
        raise AnalysisError('PipelineChart.run is not a method (chart-world anchor vanished)')
    gi = [u for u in p.functions.values() if u.parent is None and u.cls is None and u.name == 'get_instance']
    if not gi:
        raise AnalysisError('get_instance not found (chart-world anchor vanished)')
    results = []

    def run(oracle: Oracle):
        log: List[Tuple[str, Dict[str, Any]]] = []
        value = AObj(('ext', 'Value'), {}, tag='entrypoint-value')
        entry_exc = _exc(w.entry[1], 'entrypoint') if w.entry[0] == 'raise' else None
        ctor_exc = _exc(w.ctor_raises, 'constructor') if w.ctor_raises else None
        tokens = {'value': value, 'entry_exc': entry_exc, 'ctor_exc': ctor_exc}

        def on(name):
            def cb(a, k):
                log.append((name, dict(k)))
                return None
            return cb

        def entry_run(a, k):
            log.append(('entrypoint.run', {'args': list(a), **k}))
            if entry_exc is not None:
                raise ARaise(entry_exc.attrs['__what__'], entry_exc)
            return value
        em_classes = [AObj(('ext', 'UserClass'), {}, tag=f'event-manager-class-{i}') for i in range(w.managers)]
        managers = {id(c): AObj(('ext', 'EventManager'), {'on_pipeline_start': AExt(f'world.on_pipeline_start.{i}'),
                                                          'on_pipeline_complete': AExt(f'world.on_pipeline_complete.{i}'),
                                                          'on_node_start': None, 'on_node_complete': None}, tag=f'event-manager-{i}')
                    for i, c in enumerate(em_classes)}
        store = AObj(('ext', 'ArtifactStore'), {}, tag='artifact-store')
        made = {'n': 0}

        def get_instance(interp, a, k, s_):
            cls = a[0] if a else k.get('cls')
            made['n'] += 1
            if ctor_exc is not None and made['n'] == 1:
                raise ARaise(ctor_exc.attrs['__what__'], ctor_exc)
            if isinstance(cls, AObj) and id(cls) in managers:
                return managers[id(cls)]
            return store
        ext = {'world.entry_run': entry_run}
        for i in range(w.managers):
            ext[f'world.on_pipeline_start.{i}'] = on(f'on_pipeline_start[{i}]')
            ext[f'world.on_pipeline_complete.{i}'] = on(f'on_pipeline_complete[{i}]')
        interp = Interp(p, oracle, stubs={u.fid: get_instance for u in gi}, ext_stubs=ext)
        entry = AObj(('ext', 'Entrypoint'), {'run': AExt('world.entry_run')}, tag='entrypoint')
        chart = AObj(chart_cls, {'model_name': 'model', 'entrypoint': entry, 'artifact_store': None, 'event_managers': list(em_classes)},
                     tag='chart')
        res = interp.call_unit(unit, [], {'pipeline_id': 'pid', 'input_kwargs': {}, 'meta': {}}, chart)
        return res, log, tokens

    for o in enumerate_outcomes(run):
        results.append(o)
    return results


def _result_fields(r) -> Optional[Dict[str, Any]]:
    if isinstance(r, AObj) and isinstance(r.cls, ClassInfo) and r.cls.name == 'PipelineResult':
        return r.attrs
    return None


def _names(log) -> List[str]:
    return [n for n, _ in log]


def decide(ctx: Ctx) -> Dict[str, Dict[str, Any]]:
    """Evaluates the worlds; returns per world: {'problems_result': [...], 'problems_events': [...], 'summary': str}."""
    out: Dict[str, Dict[str, Any]] = {}

    def world(label: str, w: World, check) -> None:
        pr, pe, summ = [], [], []
        outs = run_chart(ctx, w)
        if not outs:
            raise AnalysisError(f'chart world "{label}": no outcome')
        for o in outs:
            if o[0] == 'value':
                res, log, tok = o[1]
                check('value', res, None, log, tok, pr, pe)
                f = _result_fields(res)
                summ.append(f'returns {"PipelineResult" if f is not None else type(res).__name__}; events {_names(log)}')
            else:
                check('raise', None, str(o[1]), None, None, pr, pe)
                summ.append(f'raises {str(o[1])[:60]}')
        out[label] = {'problems_result': pr, 'problems_events': pe, 'summary': sorted(set(summ))}

    def expect_events(log, want: List[str], res, pe: List[str]) -> None:
        got = _names(log)
        if got != want:
            pe.append(f'event history {got}, expected {want}')
            return
        for n, kw in log:
            if n.startswith('on_pipeline_complete') and kw.get('result') is not res:
                pe.append(f'{n} is given an object that is not the one run() returns')
            if n.startswith('on_pipeline_') and 'ctx' not in kw:
                pe.append(f'{n} is not given the context')

    def ok_world(kind, res, what, log, tok, pr, pe):
        if kind != 'value':
            pr.append(f'run() raises {what[:50]} although nothing failed')
            return
        f = _result_fields(res)
        if f is None:
            pr.append(f'run() returns {res!r}, not a PipelineResult')
            return
        if f.get('value') is not tok['value'] or f.get('error') is not None:
            pr.append('the success result does not carry (value=<entrypoint result>, error=None)')
        expect_events(log, ['on_pipeline_start[0]', 'entrypoint.run', 'on_pipeline_complete[0]'], res, pe)
    world('the entrypoint returns a value', World(), ok_world)

    def two_managers(kind, res, what, log, tok, pr, pe):
        if kind != 'value':
            pr.append(f'run() raises {what[:50]} although nothing failed')
            return
        expect_events(log, ['on_pipeline_start[0]', 'on_pipeline_start[1]', 'entrypoint.run', 'on_pipeline_complete[0]',
                            'on_pipeline_complete[1]'], res, pe)
    world('two event managers', World(managers=2), two_managers)

    def failing(kind, res, what, log, tok, pr, pe):
        if kind != 'value':
            pr.append(f'an Exception of the entrypoint escapes run() ({what[:50]})')
            return
        f = _result_fields(res)
        if f is None:
            pr.append(f'run() returns {res!r}, not a PipelineResult')
            return
        if f.get('value') is not None:
            pr.append('the error result carries a value')
        if f.get('error') is not tok['entry_exc']:
            pr.append('the error result does not carry the caught exception')
        expect_events(log, ['on_pipeline_start[0]', 'entrypoint.run', 'on_pipeline_complete[0]'], res, pe)
    world('the entrypoint raises an Exception', World(entry=('raise', 'Exception')), failing)

    def cancelled(kind, res, what, log, tok, pr, pe):
        if kind == 'value':
            pr.append('cancellation of the entrypoint is converted into a result instead of propagating')
        elif 'CancelledError' not in what:
            pr.append(f'cancellation of the entrypoint surfaces as {what[:50]}')
    world('the entrypoint is cancelled', World(entry=('raise', 'CancelledError')), cancelled)

    def ctor(kind, res, what, log, tok, pr, pe):
        if kind != 'value':
            pr.append(f'a failing constructor of a user class makes run() raise ({what[:50]}) instead of returning the error result')
            return
        f = _result_fields(res)
        if f is None:
            pr.append(f'run() returns {res!r}, not a PipelineResult')
            return
        if f.get('value') is not None or f.get('error') is not tok['ctor_exc']:
            pr.append('the result of a failed context creation does not carry (value=None, error=<the constructor\'s exception>)')
        if 'entrypoint.run' in _names(log):
            pe.append('the entrypoint runs although the context could not be created')
    world('a user constructor (artifact store / event manager) raises', World(ctor_raises='Exception'), ctor)
    return out


def rule_chart_worlds_result(ctx: Ctx, out: Collector) -> None:
    """ER-2 (result side)."""
    unit = ctx.p.func(CHART_RUN)
    base = f'{unit.module.name}::{unit.qualname}'
    where = ctx.p.loc(unit, unit.node)
    table = decide(ctx)
    groups = {
        '::success result': ['the entrypoint returns a value', 'two event managers'],
        '::except Exception': ['the entrypoint raises an Exception', 'the entrypoint is cancelled'],
        '::user-supplied constructors run inside the try of run() [collaborators constructed under try]':
            ['a user constructor (artifact store / event manager) raises'],
    }
    for suffix, labels in groups.items():
        problems = [f'{lb}: {x}' for lb in labels for x in table[lb]['problems_result']]
        tb = {lb: table[lb]['summary'] for lb in labels}
        if not problems:
            out.ok('ER-2', base + suffix, where, '; '.join(f'{lb}: {table[lb]["summary"][0]}' for lb in labels)[:200], table=tb)
        else:
            out.bad('ER-2', base + suffix, where, 'PipelineChart.run does not turn the situation into the documented result: '
                    + '; '.join(problems[:3]), table=tb)


def rule_chart_worlds_events(ctx: Ctx, out: Collector) -> None:
    """EV-1."""
    unit = ctx.p.func(CHART_RUN)
    where = ctx.p.loc(unit, unit.node)
    table = decide(ctx)
    problems = [f'{lb}: {x}' for lb, d in table.items() for x in d['problems_events']]
    cons = f'{unit.module.name}::{unit.qualname}::pipeline_start . entrypoint.run . pipeline_complete(result) . return result'
    tb = {lb: d['summary'] for lb, d in table.items()}
    if not problems:
        out.ok('EV-1', cons, where, f'{len(table)} situations: start, entrypoint, complete(result), return of that result - each once, '
                                    f'every manager in order', table=tb)
    else:
        out.bad('EV-1', cons, where, 'the event history of PipelineChart.run leaves pipeline_start . entrypoint.run . '
                                     'pipeline_complete(result) . return result: ' + '; '.join(problems[:3]), table=tb)


# ------------------------------------------------------------------------------------------------------- the dispatcher
def rule_dispatch_worlds(ctx: Ctx, out: Collector) -> None:
    """EV-3: every emit_<event> method of the context delivers the event to every registered manager that has the hook, in
    registration order, each exactly once, with the context and the payload it was given - decided by interpreting the
    context class and the event mixin for a context with four managers (two with the hook, one whose hook is None, one
    without the attribute)."""
    p = ctx.p
    proto = next((ci for ci in p.classes.values() if ci.name == 'EventManagerLike'), None)
    if proto is None:
        raise AnalysisError('EventManagerLike not found (EV-3 anchor vanished)')
    hooks = {}
    for name, m in proto.methods.items():
        if name.startswith('on_'):
            a = m.node.args
            hooks[name] = [x.arg for x in a.args if x.arg not in ('self', 'ctx')]
    if len(hooks) < 4:
        raise AnalysisError(f'EventManagerLike declares {sorted(hooks)} (EV-3 anchor vanished)')
    ctx_classes = [ci for ci in p.classes.values()
                   if all(p.lookup_method(ci, 'emit_' + h) is not None for h in hooks) and p.lookup_method(ci, '__init__') is not None
                   and not ci.name.endswith('Like')]
    if not ctx_classes:
        raise AnalysisError('no context class with emit_<event> methods found (EV-3 anchor vanished)')
    gi = [u for u in p.functions.values() if u.parent is None and u.cls is None and u.name == 'get_instance']
    chart_cls = p.func(CHART_RUN).cls
    n = 0
    for cc in ctx_classes:
        for hook, params in sorted(hooks.items()):
            em = p.lookup_method(cc, 'emit_' + hook)
            problems: List[str] = []

            def run(oracle: Oracle, hook=hook, params=params, em=em, cc=cc):
                log: List[Tuple[int, Dict[str, Any]]] = []
                classes = [AObj(('ext', 'UserClass'), {}, tag=f'event-manager-class-{i}') for i in range(4)]
                managers = {}
                ext = {}
                for i, c in enumerate(classes):
                    attrs: Dict[str, Any] = {}
                    if i in (0, 3):
                        for h in hooks:
                            attrs[h] = AExt(f'world.{h}.{i}')
                            ext[f'world.{h}.{i}'] = (lambda i, h: (lambda a, k: log.append((i, h, list(a), dict(k)))))(i, h)
                    elif i == 1:
                        for h in hooks:
                            attrs[h] = None
                    managers[id(c)] = AObj(('ext', 'EventManager'), attrs, tag=f'event-manager-{i}')
                store = AObj(('ext', 'ArtifactStore'), {}, tag='artifact-store')

                def get_instance(interp, a, k, s_):
                    cls = a[0] if a else k.get('cls')
                    return managers.get(id(cls), store)
                interp = Interp(p, oracle, stubs={u.fid: get_instance for u in gi}, ext_stubs=ext)
                chart = AObj(chart_cls, {'model_name': 'model', 'entrypoint': None, 'artifact_store': None,
                                         'event_managers': list(classes)}, tag='chart')
                context = interp.construct(AClass(cc), [], {'chart': chart, 'pipeline_id': 'pid', 'input_kwargs': {}, 'meta': {}})
                payload = {pn: AObj(('ext', 'Payload'), {}, tag=f'payload:{pn}') for pn in params}
                interp.call_unit(em, [], dict(payload), context)
                return log, context, payload
            for o in enumerate_outcomes(run):
                if o[0] != 'value':
                    problems.append(f'raises {str(o[1])[:60]}')
                    continue
                log, context, payload = o[1]
                got = [(i, h) for i, h, a, k in log]
                if got != [(0, hook), (3, hook)]:
                    problems.append(f'delivered to {got}, expected managers 0 and 3 (the ones with the hook) once each, in order')
                    continue
                for i, h, a, k in log:
                    if a or k.get('ctx') is not context:
                        problems.append(f'manager {i} is not called with ctx=<the context>')
                    rest = {kk: vv for kk, vv in k.items() if kk != 'ctx'}
                    if set(rest) != set(payload) or any(rest[kk] is not payload[kk] for kk in rest):
                        problems.append(f'manager {i} gets {sorted(rest)}, not the payload {sorted(payload)} it was emitted with')
            n += 1
            cons = f'{em.module.name}::{cc.name}.emit_{hook}::every manager with the hook gets the event, in order, once'
            if not problems:
                out.ok('EV-3', cons, p.loc(em, em.node), 'managers 0 and 3 of 4 (1: hook is None, 2: no such attribute), payload and context passed on')
            else:
                out.bad('EV-3', cons, p.loc(em, em.node), 'the event dispatcher does not deliver the event to every manager in order: '
                        + '; '.join(sorted(set(problems))[:3]))
    if n == 0:
        raise AnalysisError('event dispatcher not found (EV-3 anchor vanished)')


def rule_managers_isolated_worlds(ctx: Ctx, out: Collector) -> None:
    """EV-6: a raising event manager must not change what the other (well-behaved) managers observe, nor send the emitting code
    down its error path.  Decided by interpreting emit_<event> of the context for two managers with the hook, the first of which
    raises: the second still gets the event and the emit returns."""
    p = ctx.p
    proto = next((ci for ci in p.classes.values() if ci.name == 'EventManagerLike'), None)
    if proto is None:
        raise AnalysisError('EventManagerLike not found (EV-6 anchor vanished)')
    hooks = sorted(n for n in proto.methods if n.startswith('on_'))
    ctx_classes = [ci for ci in p.classes.values()
                   if all(p.lookup_method(ci, 'emit_' + h) is not None for h in hooks) and p.lookup_method(ci, '__init__') is not None
                   and not ci.name.endswith('Like')]
    if not ctx_classes or not hooks:
        raise AnalysisError('no context class with emit_<event> methods found (EV-6 anchor vanished)')
    gi = [u for u in p.functions.values() if u.parent is None and u.cls is None and u.name == 'get_instance']
    chart_cls = p.func(CHART_RUN).cls
    seen = set()
    for cc in ctx_classes:
        problems: List[str] = []
        dispatcher = None
        for hook in hooks:
            em = p.lookup_method(cc, 'emit_' + hook)
            env = FuncEnv.of(p, em)
            for c in env.own_nodes():
                if isinstance(c, ast.Call):
                    for t in env.resolve_call(c):
                        if t[0] == 'func' and t[1].cls is not None and dispatcher is None:
                            dispatcher = t[1]
            params = [x.arg for x in proto.methods[hook].node.args.args if x.arg not in ('self', 'ctx')]

            def run(oracle: Oracle, hook=hook, params=params, em=em, cc=cc):
                log: List[int] = []
                classes = [AObj(('ext', 'UserClass'), {}, tag=f'event-manager-class-{i}') for i in range(2)]

                def raising(a, k):
                    log.append(0)
                    raise ARaise('ValueError (raised by the first event manager)')
                ext = {'world.hook.0': raising, 'world.hook.1': lambda a, k: log.append(1)}
                managers = {id(c): AObj(('ext', 'EventManager'), {h: AExt(f'world.hook.{i}') for h in hooks}, tag=f'event-manager-{i}')
                            for i, c in enumerate(classes)}
                store = AObj(('ext', 'ArtifactStore'), {}, tag='artifact-store')
                interp = Interp(p, oracle, stubs={u.fid: (lambda it, a, k, s_: managers.get(id(a[0] if a else k.get('cls')), store)) for u in gi},
                                ext_stubs=ext)
                chart = AObj(chart_cls, {'model_name': 'model', 'entrypoint': None, 'artifact_store': None,
                                         'event_managers': list(classes)}, tag='chart')
                context = interp.construct(AClass(cc), [], {'chart': chart, 'pipeline_id': 'pid', 'input_kwargs': {}, 'meta': {}})
                payload = {pn: AObj(('ext', 'Payload'), {}, tag=f'payload:{pn}') for pn in params}
                try:
                    interp.call_unit(em, [], dict(payload), context)
                except ARaise as ex:
                    return tuple(log), f'raises {ex.what}'
                return tuple(log), 'returns'
            for o in enumerate_outcomes(run):
                if o[0] != 'value':
                    problems.append(f'emit_{hook}: {o[1]}')
                    continue
                log, how = o[1]
                if log != (0, 1) or how != 'returns':
                    problems.append(f'emit_{hook}: delivered to managers {list(log)}, the emit {how}')
        if dispatcher is None:
            raise AnalysisError('event dispatcher not found (EV-6 anchor vanished)')
        cons = f'{dispatcher.module.name}::{dispatcher.qualname}::a raising event manager does not disturb the other managers'
        if cons in seen:
            continue
        seen.add(cons)
        if not problems:
            out.ok('EV-6', cons, p.loc(dispatcher, dispatcher.node), f'{len(hooks)} events: the second manager gets the event although the first raises; the emit returns')
        else:
            out.bad('EV-6', cons, p.loc(dispatcher, dispatcher.node),
                    'the dispatcher awaits the callbacks of all managers unprotected: when one manager raises, the '
                    'managers after it miss the event, and the emitting code takes its error path, so a well-behaved manager sees zero or '
                    'two on_pipeline_complete events (neither carrying the object run returns) or a duplicated on_node_complete ('
                    + '; '.join(problems[:2]) + ')', props={'C14'})


def rule_chart_runs_share_nothing(ctx: Ctx, out: Collector) -> None:
    """SH-13: two runs of ONE chart that pass neither meta nor input_kwargs get contexts whose mutable parts (meta, input_kwargs)
    are new objects per run and are not objects of the chart: what a run's callbacks write into its context must not reach the
    chart or the next run.  Decided by constructing the chart (full dataclass protocol, so every defaulted field exists) and
    interpreting PipelineChart.run twice on it; the context handed to the entrypoint is inspected."""
    p = ctx.p
    unit = p.func(CHART_RUN)
    chart_cls = unit.cls
    if chart_cls is None:
        raise AnalysisError('PipelineChart.run is not a method (SH-13 anchor vanished)')
    gi = [u for u in p.functions.values() if u.parent is None and u.cls is None and u.name == 'get_instance']
    base = f'{unit.module.name}::{unit.qualname}::two runs of one chart share no mutable context part'
    where = p.loc(unit, unit.node)
    problems: List[str] = []
    seen = {'worlds': 0, 'contexts': 0}

    def reachable(v, acc, depth=0):
        if depth > 4:
            return
        if isinstance(v, (dict, list, set)):
            acc[id(v)] = v
            for x in (v.values() if isinstance(v, dict) else v):
                reachable(x, acc, depth + 1)
        elif isinstance(v, AObj):
            for x in v.attrs.values():
                reachable(x, acc, depth + 1)

    def run(oracle: Oracle):
        ctxs: list = []

        def entry_run(a, k):
            ctxs.append(a[0] if a else k.get('ctx'))
            return AObj(('ext', 'Value'), {}, tag='entrypoint-value')
        store = AObj(('ext', 'ArtifactStore'), {}, tag='artifact-store')
        interp = Interp(p, oracle, stubs={u.fid: (lambda i_, a, k, s_: store) for u in gi}, ext_stubs={'world.entry_run': entry_run})
        interp.eager_dataclasses = True
        entry = AObj(('ext', 'Entrypoint'), {'run': AExt('world.entry_run')}, tag='entrypoint')
        chart = interp.construct(AClass(chart_cls), [], {'model_name': 'model', 'entrypoint': entry})
        for _ in range(2):
            interp.call_unit(unit, [], {'pipeline_id': 'pid'}, chart)
        return chart, ctxs

    for kind, payload, *_rest in enumerate_outcomes(run):
        seen['worlds'] += 1
        if kind != 'value':
            problems.append(f'run raised {payload}')
            continue
        chart, ctxs = payload
        if len(ctxs) != 2 or not all(isinstance(c, AObj) for c in ctxs):
            raise AnalysisError('the entrypoint did not receive one context per run (SH-13 world)')
        seen['contexts'] += 2
        of_chart: Dict[int, Any] = {}
        reachable(chart, of_chart)
        for fname in sorted(set(ctxs[0].attrs) & set(ctxs[1].attrs)):
            a, b = ctxs[0].attrs[fname], ctxs[1].attrs[fname]
            if not isinstance(a, (dict, list, set)):
                continue
            if a is b:
                problems.append(f'context.{fname} of the second run is the very object of the first run')
            if id(a) in of_chart:
                problems.append(f'context.{fname} is an object kept by the chart (a write of the run mutates the chart)')
    if not seen['contexts'] and not problems:
        raise AnalysisError('no context observed (SH-13 world)')
    if problems:
        out.bad('SH-13', base, where, 'runs of one chart are not independent: ' + '; '.join(sorted(set(problems))[:3]), table=seen)
    else:
        out.ok('SH-13', base, where, f'{seen["worlds"]} world(s), {seen["contexts"]} contexts: meta / input_kwargs are new objects per run '
               'and none of them is kept by the chart', table=seen)
