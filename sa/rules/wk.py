"""WK-*: wake-up discipline (C02, parts of C09/C10)."""
from __future__ import annotations

import ast
from typing import List, Optional

from .. import sym
from ..cfg import Ev, Graph, describe_path, reach
from ..engine import Ctx
from ..paths import ALL_LABELS, EXC_LABELS, NORMAL_LABELS, Search
from ..program import AnalysisError, FuncEnv
from ..report import Collector
from .common import (Publish, after_event_search, is_desc_key, loop_region, marker_fact, notify_points, outer_site,
                     path_text, publishes)


def _root_name(g: Graph) -> str:
    return g.root.qualname


def _site_construct(ctx: Ctx, g: Graph, pub: Publish, what: str) -> str:
    return ctx.construct(pub.home) + f' => {what} in task root {g.root.qualname}'


def _executes_body(ctx: Ctx, fid: str) -> bool:
    g = ctx.graph(fid)
    return any(ctx.roles.body(ev) for ev in g.events('call'))


def _value_from_body(ctx: Ctx, pub: Publish) -> bool:
    """The published value is the result of a function that invokes node code."""
    for s in sym.subterms(pub.value):
        if isinstance(s, tuple) and s and s[0] == 'call' and isinstance(s[1], str) and s[1] in ctx.p.functions:
            unit = ctx.p.functions[s[1]]
            if unit.is_async and _executes_body(ctx, unit.fid):
                return True
    return False


def _real_node_key(ctx: Ctx, g: Graph, K) -> bool:
    """K indexes the node map somewhere in this graph: it names a real (executable) node."""
    for ev in g.events('subscr'):
        node = ev.node
        base = sym.term(ctx.p, node.value, ev.inst)
        if isinstance(base, tuple) and base[0] == 'attr' and base[2] == 'node_map':
            if sym.term(ctx.p, node.slice, ev.inst) == K:
                return True
    return False


def rule_publish_notify(ctx: Ctx, out: Collector) -> None:
    """WK-a, WK-c, WK-d, WK-e."""
    mrun = ctx.manager_run().fid
    for fid, g in ctx.run_graphs().items():
        if fid == mrun:
            continue
        nps = notify_points(ctx, g)
        pubs = publishes(ctx, g, ['node_results', 'switch_results'])
        out.count('publish_sites', len(pubs))
        out.count('notify_points', len(nps))
        for pub in pubs:
            K = pub.key
            prune = (lambda facts, pub=pub: marker_fact(ctx, pub, facts))
            # ---- WK-a / WK-c: descendants
            rule = 'WK-a' if pub.field == 'switch_results' else 'WK-c'
            barrier = {n for n, k, how in nps if is_desc_key(ctx, k, K)}
            path = after_event_search(ctx, g, pub.ev.id, barrier, {g.exit}, EXC_LABELS, prune_at_via=prune)
            cons = _site_construct(ctx, g, pub, f'notify descendants({sym.show(K)})')
            if path is None:
                out.ok(rule, cons, pub.site.where(), f'{pub.field}[{sym.show(K)}] published; every path to the end of task root '
                                                    f'{_root_name(g)} notifies the descendants', barrier=len(barrier))
            else:
                out.bad(rule, cons, pub.site.where(),
                        f'{pub.field}[{sym.show(K)}] is published in task root {_root_name(g)} but a path reaches the end of '
                        f'the task without notifying descendants({sym.show(K)}): waiters of the consumers are never re-checked',
                        path_text(g, path))
            if pub.field != 'node_results':
                continue
            # ---- WK-d: run
            if _value_from_body(ctx, pub):
                barrier = {n for n, k, how in nps if k == ('const', 'run') or _is_run_key(ctx, k)}
                path = after_event_search(ctx, g, pub.ev.id, barrier, {g.exit}, EXC_LABELS, prune_at_via=prune)
                cons = _site_construct(ctx, g, pub, 'notify run')
                if path is None:
                    out.ok('WK-d', cons, pub.site.where(), 'a node value is published; every path notifies the run waiter')
                else:
                    out.bad('WK-d', cons, pub.site.where(),
                            f'node value {pub.field}[{sym.show(K)}] is published in {_root_name(g)} but a path ends the task '
                            f'without notifying the run waiter: run() is never re-checked if this is the output node',
                            path_text(g, path))
            # ---- WK-e: the node itself, when it is the destination of its dag
            if _real_node_key(ctx, g, K):
                barrier = {n for n, k, how in nps if k == K or (isinstance(k, tuple) and k[0] == 'attr' and k[2] == 'dest')}

                def edge_ok(ev: Ev, lab: str, mev: Ev, K=K) -> bool:
                    return not _not_dest_edge(ctx, ev, lab, K)

                path = _after_event_search_edges(ctx, g, pub.ev.id, barrier, {g.exit}, prune, edge_ok)
                cons = _site_construct(ctx, g, pub, f'notify {sym.show(K)} when it is dag.dest')
                if path is None:
                    out.ok('WK-e', cons, pub.site.where(), 'when the node is the destination of its dag its own condition is notified')
                else:
                    out.bad('WK-e', cons, pub.site.where(),
                            f'{pub.field}[{sym.show(K)}] is published in {_root_name(g)}; when {sym.show(K)} is the destination of '
                            f'the dag, the owner of the dag waits on its condition, but a path ends without notifying it',
                            path_text(g, path))


def rule_waiting_request_notifies_its_dag(ctx: Ctx, out: Collector) -> None:
    """WK-n: a request for a node that another request is executing waits for the execution event and then owes its *own* dag
    the same notification an executing request gives: when the node is the destination of the dag of this request, the owner of
    that dag waits on the node's condition - and the executing request (for which the node may be an intermediate one) does
    not notify it.  After the event wait of node K every normal path to the end of the task notifies K's condition on the
    branch where K is dag.dest."""
    mrun = ctx.manager_run().fid
    n = 0
    seen = set()
    for fid, g in ctx.run_graphs().items():
        if fid == mrun:
            continue
        nps = notify_points(ctx, g)
        for ev in g.events('call'):
            K = ctx.roles.event_wait(ev)
            if K is None or K == ('unknown',) or not _real_node_key(ctx, g, K):
                continue
            cons = ctx.construct(ev) + f' => notify {sym.show(K)} when it is dag.dest [waiting request] in task root {_root_name(g)}'
            if cons in seen:
                continue
            seen.add(cons)
            n += 1
            barrier = {m for m, k, how in nps if k == K or (isinstance(k, tuple) and k[0] == 'attr' and k[2] == 'dest')}

            def edge_ok(e: Ev, lab: str, mev: Ev, K=K) -> bool:
                return not _not_dest_edge(ctx, e, lab, K)
            s_ = Search(ctx.p, g, NORMAL_LABELS)

            def step(e, state, facts, via=ev.id, barrier=barrier):
                if state == 0:
                    return 1 if e.id == via else 0
                if e.id in barrier:
                    return None
                return 1
            res = s_.run([(g.entry, 0, frozenset())], step, lambda e, st, f: st == 1 and e.id == g.exit, edge_ok=edge_ok)
            if res is None:
                out.ok('WK-n', cons, ev.where(), 'after waiting for the execution by another request, the node\'s own condition is notified '
                                                'when the node is the destination of this request\'s dag')
            else:
                out.bad('WK-n', cons, ev.where(),
                        f'a request that waited for {sym.show(K)} to be executed by another request can end its task without notifying '
                        f'{sym.show(K)}\'s condition when {sym.show(K)} is the destination of its own dag: the owner of that dag (a one-of '
                        f'resolving its candidate, a switch, run()) waits on it, the executing request does not notify it (there the node is '
                        f'an intermediate one) - the result is stored, nothing is left to execute, the run hangs', path_text(g, res[0]))
    if n == 0:
        raise AnalysisError('no wait for the execution event of a node found in a task root (WK-n anchor vanished)')


def _is_run_key(ctx: Ctx, k) -> bool:
    return k == ('const', 'run')


def _is_dest_test(t, K, op: str = 'Eq') -> bool:
    if isinstance(t, tuple) and t[0] == 'cmp' and t[1] == op:
        a, b = t[2], t[3]
        for x, y in ((a, b), (b, a)):
            if x == K and isinstance(y, tuple) and y[0] == 'attr' and y[2] == 'dest':
                return True
    if isinstance(t, tuple) and t[0] == 'not' and op == 'Eq':
        return _is_dest_test(t[1], K, 'NotEq')
    if isinstance(t, tuple) and t[0] == 'not' and op == 'NotEq':
        return _is_dest_test(t[1], K, 'Eq')
    return False


def _not_dest_edge(ctx: Ctx, ev: Ev, lab: str, K) -> bool:
    """The edge is the outcome "K is not the destination of the dag" of a test of K against dag.dest (either spelling)."""
    if ev.kind != 'branch' or lab not in ('T', 'F') or ev.info.get('test') is None:
        return False
    t = sym.term(ctx.p, ev.info['test'], ev.inst)
    return (lab == 'F' and _is_dest_test(t, K, 'Eq')) or (lab == 'T' and _is_dest_test(t, K, 'NotEq'))


def _after_event_search_edges(ctx, g, via, barrier, goals, prune, edge_ok):
    s = Search(ctx.p, g, EXC_LABELS)

    def step(ev, state, facts):
        if state == 0:
            if ev.id == via:
                if prune(facts):
                    return None
                return 1
            return 0
        if ev.id in barrier:
            return None
        return 1

    res = s.run([(g.entry, 0, frozenset())], step, lambda ev, st, f: st == 1 and ev.id in goals, edge_ok=edge_ok)
    return res[0] if res else None


# ---------------------------------------------------------------------------------------------

def fault_sources(g: Graph) -> List[Ev]:
    return [ev for ev in g.evs if any(lab == 'exc' for _, lab in g.succ.get(ev.id, ()))
            and ev.kind in ('raise', 'call', 'await', 'subscr', 'member')]


def rule_fault_reaches_run(ctx: Ctx, out: Collector) -> None:
    """WK-b: an exception that ends a task must have notified the run waiter after the last real
    suspension point (otherwise run() is never re-evaluated and waits forever)."""
    ctx.arm_faulty_subscripts()
    mrun = ctx.manager_run().fid
    for fid, g in ctx.run_graphs().items():
        if fid == mrun:
            continue
        nps = notify_points(ctx, g)
        run_pts = {n for n, k, how in nps if k == ('const', 'run')}
        goal = g.rexit['exc']
        sources = fault_sources(g)
        out.count('fault_sources', len(sources))
        reached = _reach_sources(ctx, g, sources, run_pts)
        seen = set()
        for src in sources:
            label = ctx.construct(src) + f' in task root {_root_name(g)}'
            if label in seen:
                continue
            seen.add(label)
            where = src.where()
            role = ctx.roles.foreign(src) if src.kind == 'call' else None
            if src.kind == 'await' and src.info.get('call') is not None:
                role = ctx.roles.foreign(g.evs[src.info['call']])
            role = role or src.kind
            if not _escapes(g, src, goal):
                out.ok('WK-b', label, where, 'fault is always caught inside the task', role=role)
                continue
            path = _search_with_src_edge(ctx, g, src, run_pts, goal, reached[src.id])
            if path is None:
                out.ok('WK-b', label, where, 'every escape of this fault from the task notifies the run waiter after the '
                                             'last suspension point', role=role)
            else:
                out.bad('WK-b', label, where,
                        f'a fault raised here can end task root {_root_name(g)} without the run waiter being notified '
                        f'after the last suspension point: run() waits forever',
                        path_text(g, path), role=role)


def _escapes(g: Graph, src: Ev, goal: int) -> bool:
    starts = [m for m, lab in g.succ.get(src.id, ()) if lab == 'exc']
    if goal in starts:
        return True
    return goal in reach(g, starts, labels=EXC_LABELS)


def _reach_sources(ctx: Ctx, g: Graph, sources: List[Ev], run_pts: set) -> dict:
    """Stage 1 (shared by all sources of a graph): the (bit, facts) with which each source is reached.
    bit = 1 iff the run waiter has been notified since the last real suspension point."""
    ids = {s.id for s in sources}
    reached = {i: [] for i in ids}
    s1 = Search(ctx.p, g, EXC_LABELS)

    def step1(ev, state, facts):
        bit = state
        if ev.kind == 'await':
            bit = 0
        if ev.id in run_pts:
            bit = 1
        return bit

    def goal1(ev, state, facts):
        if ev.id in ids:
            reached[ev.id].append((state, facts))
        return False

    s1.run([(g.entry, 0, frozenset())], step1, goal1)
    return reached


def _search_with_src_edge(ctx: Ctx, g: Graph, src: Ev, run_pts: set, goal: int, reached: list):
    """Stage 2: leave `src` along its exceptional edge and look for an escape from the task with
    bit == 0."""
    if not reached:
        return None
    starts = []
    seen = set()
    for bit, facts in reached:
        for m, lab in g.succ.get(src.id, ()):
            if lab != 'exc':
                continue
            key = (m, bit, facts)
            if key in seen:
                continue
            seen.add(key)
            starts.append((m, bit, facts))
    s2 = Search(ctx.p, g, EXC_LABELS)

    def step2(ev, state, facts):
        bit = state
        if ev.kind == 'await':
            bit = 0
        if ev.id in run_pts:
            bit = 1
        return bit

    res = s2.run(starts, step2, lambda ev, st, f: ev.id == goal and st == 0)
    if res is None:
        return None
    return [src.id] + res[0]


# ---------------------------------------------------------------------------------------------

def rule_launch_loop_error_exit(ctx: Ctx, out: Collector) -> None:
    """WK-f: the launch loop's error exit must notify the destination of the dag (its owner waits
    on that key while its predicate reads the whole dag)."""
    herr = {u.fid for u in ctx.has_error_functions()}
    if not herr:
        raise AnalysisError('no has-subgraph-error function found (WK-f anchor)')
    count = 0
    for fid, g in ctx.run_graphs().items():
        nps = notify_points(ctx, g)
        for b in g.events('branch'):
            test = b.info.get('test')
            if test is None:
                continue
            t = sym.term(ctx.p, test, b.inst)
            D = None
            for s in sym.subterms(t):
                if isinstance(s, tuple) and s and s[0] == 'call' and s[1] in herr and len(s[2]) >= 2:
                    D = s[2][1]              # (self, dag, ...)
            if D is None:
                continue
            # the dag must be the one this activation runs on behalf of its owner: a parameter - or, when the gate is
            # handed something derived from it (its node order ...), the parameter that value is derived from
            if not _dag_is_parameter(ctx, b, herr):
                derived = None
                for pname in b.inst.unit.params()[1:]:
                    pt = sym.term(ctx.p, ast.Name(id=pname, ctx=ast.Load()), b.inst)
                    if pt != D and sym.mentions(D, lambda s_, pt=pt: s_ == pt) and _has_dest_use(b.inst.unit, pname):
                        derived = pt
                if derived is None:
                    continue
                D = derived
            # the branch must sit in a launch loop: a loop of the same activation whose body spawns
            loop = _enclosing_spawn_loop(ctx, g, b)
            if loop is None:
                continue
            count += 1
            dest_key = ('attr', D, 'dest')
            barrier = {n for n, k, how in nps if k == dest_key}
            ends = _activation_ends(g, b.inst)
            tsucc = [m for m, lab in g.succ[b.id] if lab == 'T']
            # only paths that leave the loop without continuing to launch
            s = Search(ctx.p, g, EXC_LABELS)

            def step(ev, state, facts):
                if ev.id in barrier:
                    return None
                if ev.id == loop.id:
                    return None          # back to the loop header: keeps launching, not an exit
                return 1

            starts = [(m, 1, ctx_facts(ctx, b, True)) for m in tsucc]
            res = s.run(starts, step, lambda ev, st, f: ev.id in ends)
            cons = ctx.construct(b, test) + f' [error exit of the launch loop] => notify <dag>.dest in task root {_root_name(g)}'
            if res is None:
                out.ok('WK-f', cons, b.where(), 'the error exit of the launch loop notifies the destination of the dag')
            else:
                out.bad('WK-f', cons, b.where(),
                        f'the launch loop observes an error in the dag and returns without notifying {sym.show(dest_key)}: '
                        f'the owner of the dag waits on that key and is never re-checked when the failed node is not a '
                        f'direct predecessor', path_text(g, [b.id] + res[0]))
    if count == 0:
        out.note('WK-f: no launch-loop error exit in the current tree (OO-6 decides whether the gate itself exists)')


def _dag_is_parameter(ctx: Ctx, b: Ev, herr: set) -> bool:
    env = FuncEnv.of(ctx.p, b.inst.unit)
    test, tinst = b.info['test'], b.inst
    exprs = [test]
    if isinstance(test, ast.Name):
        e, i = sym.resolve_value(ctx.p, test, b.inst)
        if i is b.inst:
            exprs = [e]
    for e in exprs:
        for n in ast.walk(e):
            if isinstance(n, ast.Call):
                for t in env.resolve_call(n):
                    if t[0] == 'func' and t[1].fid in herr and n.args:
                        a = n.args[0]
                        if isinstance(a, ast.Name):
                            defs = env.local_defs().get(a.id, [])
                            if defs and all(d[0] == 'param' for d in defs):
                                return True
    return False


def _has_dest_use(unit, pname: str) -> bool:
    return any(isinstance(n, ast.Attribute) and n.attr == 'dest' and isinstance(n.value, ast.Name) and n.value.id == pname
               for n in ast.walk(unit.node))


def ctx_facts(ctx: Ctx, b: Ev, value: bool):
    from ..paths import FactOps
    return FactOps(ctx.p).assume(b.info.get('test'), value, b.inst.iid, frozenset())


def _enclosing_spawn_loop(ctx: Ctx, g: Graph, b: Ev) -> Optional[Ev]:
    for lp in g.events('loop'):
        if lp.inst is not b.inst or lp.info.get('comp') is not None:
            continue
        region = loop_region(g, lp)
        if b.id not in region:
            continue
        if any(ctx.roles.spawn(g.evs[n]) for n in region if g.evs[n].kind == 'call'):
            return lp
    return None


def _activation_ends(g: Graph, inst) -> set:
    if inst.parent is None:
        return {g.exit}
    out = set()
    for ev in g.events('ret'):
        if ev.info.get('callee') is inst:
            out.add(ev.id)
    return out


# ---------------------------------------------------------------------------------------------

def rule_primitives(ctx: Ctx, out: Collector) -> None:
    """WK-h: notify_all / wait_for under the lock, never bare wait()/notify(); events never cleared."""
    seen = set()
    n_wait = n_notify = 0
    for fid, g in ctx.run_graphs().items():
        for ev in g.events('call'):
            cons = ctx.construct(ev)
            if cons in seen:
                continue
            n = ctx.roles.notify(ev)
            if n is not None:
                seen.add(cons)
                n_notify += 1
                if n[2] != 'all':
                    out.bad('WK-h', cons, ev.where(), 'Condition.notify() wakes a single waiter: several waiters block on the '
                                                    'same key (launch loops of different scopes), the others are lost')
                elif not _under_lock(ctx, g, ev):
                    out.bad('WK-h', cons, ev.where(), 'notify_all() is not executed inside `async with <the same condition>`')
                else:
                    out.ok('WK-h', cons, ev.where(), 'notify_all under the condition lock')
            elif ctx.roles.wait(ev) is not None:
                seen.add(cons)
                n_wait += 1
                if not _under_lock(ctx, g, ev):
                    out.bad('WK-h', cons, ev.where(), 'wait_for() is not executed inside `async with <the same condition>`')
                else:
                    out.ok('WK-h', cons, ev.where(), 'wait_for(predicate) under the condition lock (predicate re-checked)')
            elif ctx.roles.bare_wait(ev):
                seen.add(cons)
                out.bad('WK-h', cons, ev.where(), 'bare Condition.wait() does not re-check a predicate: a notification sent '
                                                'before the wait starts is lost')
            elif ctx.roles.event_clear(ev):
                seen.add(cons)
                out.bad('WK-h', cons, ev.where(), 'Event.clear(): a second arrival that has not run yet blocks forever')
    if n_wait == 0 or n_notify == 0:
        raise AnalysisError('WAIT / NOTIFY primitives not found (WK-h anchors vanished)')


def _under_lock(ctx: Ctx, g: Graph, ev: Ev) -> bool:
    recv = ctx.roles.recv_term(ev)
    # the call lies inside the critical section (`async with X`, or the equivalent acquire / try / finally
    # release the graph builder normalises to it) of the same activation whose X is the receiver
    for en in g.events('enter'):
        if en.inst is not ev.inst or not en.info.get('is_async'):
            continue
        if any(c is ev.node for c in ast.walk(en.node)) and sym.term(ctx.p, en.info['expr'], ev.inst) == recv:
            return True
    return False


def rule_event_set(ctx: Ctx, out: Collector) -> None:
    """WK-k: once a node is marked as processed, every exit of the task (normal, exceptional,
    cancelled) passes Event.set for that node: second arrivals block on that event."""
    count = 0
    for fid, g in ctx.run_graphs().items():
        sets = {}
        for ev in g.events('call'):
            k = ctx.roles.event_set(ev)
            if k is not None:
                sets.setdefault(k, set()).add(ev.id)
        for pub in publishes(ctx, g, ['processed_nodes']):
            if isinstance(pub.key, tuple) and pub.key[0] == 'tuple':
                continue            # active-recurrent-subgraph marker, not a node
            count += 1
            barrier = sets.get(pub.key, set())
            goals = {g.exit, g.rexit['exc'], g.rexit['cancel']}
            path = after_event_search(ctx, g, pub.ev.id, barrier, goals, ALL_LABELS)
            cons = _site_construct(ctx, g, pub, f'Event.set({sym.show(pub.key)}) on every exit')
            if path is None:
                out.ok('WK-k', cons, pub.site.where(), 'every exit after the processed mark sets the execution event')
            else:
                kind = g.evs[path[-1]]
                out.bad('WK-k', cons, pub.site.where(),
                        f'{sym.show(pub.key)} is marked as processed but an exit of the task ({kind.kind} {kind.info.get("exc", "")}) '
                        f'does not set its event: a second arrival waits forever', path_text(g, path))
    if count == 0:
        out.note('WK-k: no processed-node mark in the current tree (ON-1 / ON-2 report its absence)')
    # ON-7: the converse - the event is the signal "the execution of this node is over"; only the activation that executes the
    # node (the one that marked it) may give it.  A request that merely waited for another scope's execution and is cancelled
    # must not release the other waiters: they would read a missing result as None and publish it.
    for fid, g in ctx.run_graphs().items():
        marks_by_key = {}
        for pub in publishes(ctx, g, ['processed_nodes']):
            marks_by_key.setdefault(pub.key, set()).add(pub.ev.id)
        sites = [(ev, ctx.roles.event_set(ev)) for ev in g.events('call')]
        sites = [(ev, k) for ev, k in sites if k is not None and k in marks_by_key]
        if not sites:
            continue
        cons = f'{g.root.module.name}::{g.root.qualname}::the execution event of a node is set by the executing request only [event owner]'
        bad = None
        for ev, k in sites:
            barrier = marks_by_key[k]
            s = Search(ctx.p, g, ALL_LABELS)
            res = s.run([(g.entry, 0, frozenset())], lambda e, st, f: None if e.id in barrier else 0,
                        lambda e, st, f, ev=ev: e.id == ev.id)
            if res is not None:
                bad = (ev, k, res[0])
                break
        if bad is None:
            out.ok('ON-7', cons, g.evs[g.entry].where(), f'{len(sites)} event-set site(s): every path to them passes the processed mark '
                                                          f'of the same node in this activation')
        else:
            ev, k, path = bad
            out.bad('ON-7', cons, ev.where(),
                    f'the execution event of {sym.show(k)} can be set by a request that did not execute the node (it only waited for '
                    f'the execution owned by another scope): when such a waiter is cancelled - the error exit of a one-of launch loop '
                    f'cancels its own tasks - the other waiters wake up while the body is still running, read a missing result as None '
                    f'and publish it', path_text(g, path), props={'C03', 'C04', 'C14'})


def rule_lock_regions(ctx: Ctx, out: Collector) -> None:
    """WK-l: while a condition lock is held nothing but the wait itself is awaited, no user code runs
    and no further lock is taken."""
    seen = set()
    count = 0
    for fid, g in ctx.run_graphs().items():
        for en in g.events('enter'):
            if not en.info.get('is_async'):
                continue
            cons = ctx.construct(en, en.info['expr'], None) + ' [lock region]'
            if cons in seen:
                continue
            seen.add(cons)
            count += 1
            leaves = {ev.id for ev in g.events('leave') if ev.node is en.node and ev.inst is en.inst}
            region = reach(g, [en.id], stop=leaves, labels=('n', 'T', 'F', 'back'))
            bad = None
            for n in sorted(region):
                ev = g.evs[n]
                if n in leaves:
                    continue
                if ev.kind == 'enter' and ev.info.get('is_async') and ev is not en:
                    bad = (ev, 'acquires another lock')
                    break
                if ev.kind == 'await' and not ev.info.get('wait'):
                    bad = (ev, 'awaits something else than the condition itself')
                    break
                if ev.kind == 'call' and ctx.roles.foreign(ev):
                    bad = (ev, 'runs user code')
                    break
            if bad is None:
                out.ok('WK-l', cons, en.where(), 'only the wait itself is awaited while the lock is held')
            else:
                out.bad('WK-l', cons, en.where(), f'while the condition lock is held the code {bad[1]}: {bad[0].text()} '
                                                f'({bad[0].where()})')
    if count == 0:
        raise AnalysisError('no lock region found (WK-l anchor vanished)')
